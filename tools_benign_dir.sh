#!/bin/sh
# usage: tools_benign_dir.sh <dir-with-p*.diff>  — run every claimed check against each behaviour-preserving patch; print only alarms
for p in "$1"/*.diff; do
  r=$(/verif/tools_seeded.sh "$p" 2>&1 | grep -v "exit=0")
  if [ -z "$r" ]; then echo "$(basename $p): silent"; else echo "$(basename $p): ALARM"; echo "$r" | cut -c1-330 | sed 's/^/    /'; fi
done
