#!/usr/bin/env python3
"""prints a markdown index of all rules (from evidence/*.json written by the last run of the checks)"""
import json, glob, os
H = os.path.dirname(os.path.abspath(__file__))
print("| rule | obligations (quick tier) | statement |")
print("|---|---|---|")
for p in sorted(glob.glob(os.path.join(H, "evidence", "C*.json"))):
    e = json.load(open(p))
    for r in e["coverage"]["rules"]:
        if "@" in r["rule"]:
            continue
        print("| %s | %d | %s |" % (r["rule"], r["obligations"], r["statement"].replace("|", "\\|")))
