#!/usr/bin/env python3
"""usage: tools_coverage.py [--repo DIR]
Blind-spot map: runs the rules of all claimed properties on one fact base and lists the workspace functions
in which no obligation of any rule is anchored (by source line).  An anchored obligation is not a proof that
the function is covered, and typestate engines walk through functions without anchoring anything there; the
list is a guide for where a seeded change would meet no rule at all."""
import importlib, json, os, sys

HERE = os.path.dirname(os.path.abspath(__file__))
sys.path.insert(0, HERE)
from rules import facts as F, common as C
from rules.common import norm

WH = []
_ok, _bad = C.Rule.ok, C.Rule.bad


def ok(self, what, where="", detail=None):
    WH.append((self.name, where))
    return _ok(self, what, where, detail)


def bad(self, key, what, where="", path=None, kind="violation"):
    WH.append((self.name, where))
    return _bad(self, key, what, where, path, kind)


C.Rule.ok, C.Rule.bad = ok, bad


def main():
    repo = sys.argv[sys.argv.index("--repo") + 1] if "--repo" in sys.argv else None
    facts = F.load(repo)
    try:
        props = [c["property_id"] for c in json.load(open(os.path.join(HERE, "MANIFEST.json")))["checks"]]
        walked = set()
        for p in props:
            ctx = C.Ctx(p, "quick", facts, 0)
            ctx.write = False
            try:
                importlib.import_module("rules." + p.lower()).run(ctx)
            except Exception as e:
                print("!!", p, repr(e))
        lines = {}
        for rule, w in WH:
            if ":" in w:
                f, _, l = w.rpartition(":")
                if l.isdigit():
                    lines.setdefault(f, {}).setdefault(int(l), set()).add(rule.split("-")[0])
        rows = []
        for fn in facts.fns.values():
            if fn.crate in ("ext", "promoted") or fn.kind == "Closure":
                continue
            sp = fn.j.get("span") or {}
            if sp.get("exp") or not sp.get("file"):
                continue
            props_here = set()
            for l, ps in lines.get(sp["file"], {}).items():
                if sp["lo"] <= l <= sp["hi"]:
                    props_here |= ps
            rows.append((fn.crate, norm(fn.id), sp["hi"] - sp["lo"] + 1, sorted(props_here), sp["file"], sp["lo"]))
        tot = len(rows)
        bare = [r for r in rows if not r[3]]
        print("functions with a body in the workspace: %d; with at least one anchored obligation: %d; without: %d" % (tot, tot - len(bare), len(bare)))
        print("source lines in functions without any anchored obligation: %d of %d" % (sum(r[2] for r in bare), sum(r[2] for r in rows)))
        for r in sorted(bare, key=lambda r: (-r[2], r[1])):
            if r[2] >= 4:
                print("  %4d lines  %s  (%s:%d)" % (r[2], r[1], r[4], r[5]))
    finally:
        facts.cleanup()


if __name__ == "__main__":
    main()
