#!/bin/sh
# usage: mkfacts.sh <repo> <outdir> [extra rustflags]
# builds the fact base for <repo> into <outdir>/facts using a fresh target dir <outdir>/target (removed afterwards)
set -e
REPO=$1; OUT=$2; EXTRA=$3
SYS=$(rustc +nightly --print sysroot)
mkdir -p "$OUT"
cd "$REPO"
LD_LIBRARY_PATH=$SYS/lib \
RUSTFLAGS="-Zmir-opt-level=0 -Zalways-encode-mir -Awarnings $EXTRA" \
RUSTC_WORKSPACE_WRAPPER=/verif/flint/target/release/flint FLINT_OUT=$OUT/facts \
CARGO_TARGET_DIR=$OUT/target CARGO_NET_OFFLINE=true \
cargo +nightly check --offline --workspace --lib -q 2>"$OUT/cargo.log" || { cat "$OUT/cargo.log" >&2; exit 2; }
rm -rf "$OUT/target"
