#!/usr/bin/env python3
"""usage: tools_keep_seeded.py <ID> <name> <agent-worktree> <agent-outdir> "<needs>" [detected-by ...]
copies patch + demo + notes into /verif/seeded/<name>/ and writes meta.json"""
import json, os, shutil, subprocess, sys
pid, name, wt, out, needs = sys.argv[1:6]
det = sys.argv[6:]
d = "/verif/seeded/" + name
os.makedirs(d + "/demo", exist_ok=True)
shutil.copy(out + "/patch.diff", d + "/patch.diff")
files = subprocess.check_output(["git", "-C", wt, "status", "--short", "-uall"]).decode().split("\n")
demos = [l.split()[1] for l in files if l.startswith("??") and not l.split()[1].startswith("target")]
for f in demos:
    os.makedirs(os.path.dirname(d + "/demo/" + f), exist_ok=True)
    shutil.copy(wt + "/" + f, d + "/demo/" + f)
if os.path.exists(out + "/NOTES.md"):
    shutil.copy(out + "/NOTES.md", d + "/NOTES.md")
base = subprocess.check_output(["git", "-C", wt, "rev-parse", "HEAD"]).decode().strip()
meta = {
    "property": pid,
    "breaks": "see NOTES.md (written by the independent sub-agent that produced the change; it saw only the property text)",
    "needs_to_manifest": needs,
    "base_commit": base,
    "demo_files": demos,
    "demo_cmd": "cd <worktree> && git apply patch.diff && cp -r demo/* . && CARGO_NET_OFFLINE=true cargo test -p %s --test %s --offline" % (demos[0].split("/")[0], os.path.basename(demos[0])[:-3]) if demos else "",
    "confirmed": "tools_verify_seeded.sh in a fresh worktree: patch applies, the 55 tests pass with it, the demo fails with it and passes without it",
    "checks_run": "tools_seeded.sh patch.diff (all claimed checks on a scratch copy of /repo with the patch applied)",
    "detected_by": det,
}
json.dump(meta, open(d + "/meta.json", "w"), indent=1)
print("kept", d, demos)
