#!/usr/bin/env python3
"""debug: ./tools_dump.py <factsdir|build> <fn-id-substring>..."""
import sys, pickle, os
sys.path.insert(0, os.path.dirname(os.path.abspath(__file__)))
from rules import facts as F, pretty
d = sys.argv[1]
if d == "build":
    f = F.load()
    print("facts at", f.dir)
else:
    f = F.Facts(d)
for pat in sys.argv[2:]:
    for id, fn in sorted(f.fns.items()):
        if pat in id:
            pretty.dump(fn)
