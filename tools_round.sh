#!/bin/sh
# usage: tools_round.sh <outdir-prefix e.g. /tmp/seed5-out> [IDs...] — all checks against each seeded patch of a round; one line per firing check
P=$1; shift
for i in "$@"; do
  [ -f $P/$i/patch.diff ] || { echo "===== $i: no patch yet"; continue; }
  echo "===== $i  ($(grep -c '^[+-][^+-]' $P/$i/patch.diff) changed lines: $(grep '^+++ b/' $P/$i/patch.diff | cut -c7- | tr '\n' ' '))"
  /verif/tools_seeded.sh $P/$i/patch.diff 2>&1 | grep -v "exit=0" | cut -c1-260
done
