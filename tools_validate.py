#!/usr/bin/env python3
"""validate MANIFEST.json and evidence/*.json against the schemas (needs jsonschema: run with python3-vt)"""
import json, sys, glob, os
import jsonschema
H = os.path.dirname(os.path.abspath(__file__))
ms = json.load(open("/root/.vp/MANIFEST.schema.json"))
es = json.load(open("/root/.vp/EVIDENCE.schema.json"))
m = json.load(open(os.path.join(H, "MANIFEST.json")))
jsonschema.validate(m, ms)
props = [json.loads(l)["id"] for l in open(os.path.join(H, "properties.jsonl"))]
claimed = [c["property_id"] for c in m["checks"]]
na = [c["property_id"] for c in m.get("not_applicable", [])]
assert sorted(claimed + na) == sorted(props), (claimed, na)
print("manifest ok:", len(claimed), "claimed,", len(na), "n/a")
for f in sorted(glob.glob(os.path.join(H, "evidence", "*.json"))):
    e = json.load(open(f))
    jsonschema.validate(e, es)
    print("evidence ok:", os.path.basename(f), e["level"], e["coverage"].get("obligations"), e["coverage"].get("discharged"))
