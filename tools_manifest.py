#!/usr/bin/env python3
"""regenerates MANIFEST.json from the table below (keeps the file valid and in one place)"""
import json, os

H = os.path.dirname(os.path.abspath(__file__))

TRUST = "rustc's type checker, MIR construction and trait resolution (facts are dumped by the flint driver from the real cargo build); frozen models of ~15 std functions (rules/absint.py MODELS); unresolved leaf calls are assumed not to touch reader/writer state; unwinding edges not followed"

# id -> (level, technique, text, design_ref) ; None => not yet claimed
CLAIMS = {
    "C01": (
        "other",
        "def-use classification of every schedule-dependent observation (taint-style non-interference) over MIR; who-may-call; shared reader laws",
        "Decides clause (ii) of the decomposition: every use of buf_len / buf / buf_ptr / is_at_end outside the reader has a sanctioned shape (fast/cold selector comparison, prefix slice up to a looked-at offset, use after the source was exhausted, end test after a look-ahead at offset 0); parser code calls no schedule-exposing reader method; Interrupted is retried inside request_more without touching state; position and mark are conserved by refills (C02 laws, re-run here). That the fast and cold implementations compute the same function is C13 / value-level; faithfulness of the window is C02. R5 (shared with C13-R3/R4): the byte-wise scanners' exact behaviour and the fast-path hand-over, since input that arrives in pieces takes the byte-wise path. R6: the byte-wise keyword scan is a prefix scan like the word kernel - on its iteration graph, after an iteration that recorded no letter no later one can record one (the stop flag is followed as a constant through the variables the closure captured). R3 also: an Interrupted answer always leads back to the read (nothing else is reachable from the true edge of the kind test). R7 (shared with C02-R9): no construction path installs a chunk size that is not provably positive. R5 also runs C13-R1/R1b: the byte-wise scanners' overflow verdict (every step through overflowing_*, None exactly when a step overflowed) is the one the one-piece path gives. R8 (shared with C02-R3): the source is offered exactly chunk_size bytes behind the window on every read.",
        "DESIGN.md §4 C01",
    ),
    "C02": (
        "other",
        "affine symbolic path execution over MIR (Karr-style linear equalities, no solver), guard dominance, field-store inventory",
        "Decides that every reader method that writes a bookkeeping field preserves the laws the operation histories compose: position/mark conservation (advance by +n only; request_more and realignment leave both unchanged), window moved with exactly its bytes to offset 0, read results appended at the window end into a slice of exactly chunk_size behind n <= chunk_size, shrink keeps the window, complete/io_error set exactly on Ok(0)/non-Interrupted Err, from_buf_reader chains buffered bytes first. Content equality as such and std's Vec/slice semantics are trusted, not decided. R7: every observer (request_byte_at_offset, its cold path, buf, buf_ptr) indexes the buffer with the cursor as it is at that moment, also after a refill inside the same call. R8 (shared with C09-R1): requests fall short only at the end of the source or on an error (single read site, Interrupted retried in place). R4 also: the buffer is changed (length or contents) in request_more only - a mutable borrow of `buf` elsewhere may only feed len/capacity/reserve/shrink_to_fit. R9: every chunk size the library itself installs has a provable lower bound >= 1 (a read into an empty slice answers Ok(0)); the public setter's parameter is the caller's obligation, as in the property's quantifier. R5 demands that complete is not written at all on the Ok(n) and Interrupted arms (a value computed from the read is not an end of input). R10 (shared with C14-R3): a refused advance leaves the window untouched - position and length are stored only behind the test that may panic, the window's bytes are moved before the first rebasing store.",
        "DESIGN.md §4 C02",
    ),
    "C03": (
        "other",
        "constant-table extraction from MIR (variant->constant matches, string-match chains, closure capture resolution) and writer/reader table comparison",
        "Round-trip equality of arbitrary values is value-level and not decided. Decided is the necessary clause that the writer's and the reader's tables agree: the BTOR2 keyword relation is the same bijection on both sides and covers all 70 variants (incl. the token translation tables), the constant validators accept exactly the scanners' character classes, AIGER symbol prefixes/targets/index limits agree in both files, the varint reader accepts every length the writer emits, header field order and optional tail, latch reset forms, DIMACS framing words. R2 is position-sensitive where the validator is a chars() loop: the validator's automaton (with its boolean flag states) must be included in the language the scanner consumes. R4b: the varint writer's continuation-bit protocol. R10: free text (symbol names, comments, constants) is handed out verbatim - identity conversions only on what advance_with_buf returns, and only the terminator byte is cut off. R5b: only a suffix of zero counts is left out of the AIGER header (zero tests decide from the back). R11: the whole-file AIGER writers work through the circuit's fields in the order in which the parsers fill them, and every header count is taken from the field of the same name. R12: fields of a struct or variant are written in the order in which they are parsed (token-call order vs. emitting-call order, per struct/variant). R13: binary and gates - writer and reader chain the two deltas the same way and step the running code by 2. R14: BTOR2 placeholders (constants, justice conditions, symbol) are pointed at the buffer the parser filled for them. R15 (shared with C10-R1): per-item buffers are cleared before they are filled. R16: text writers never emit two numbers (or a number and a constant starting with a digit, like the terminating 0) back to back on any path (forward dataflow over each writer). R17: the DIMACS parsers hand out the header as parse_header read it, whatever the configuration. R13b (shared with C06-R6): the binary reader refuses a delta only when it is larger than its reference code - delta == code is the constant 0 as a gate input, which the writer emits. R18 (shared with C13-R3/R4): numbers of every length the writers emit are scanned in full at any look-ahead offset. R19 (shared with C01-R1): the parsers read the writers' output through look-ahead requests, never through whatever happens to be buffered. R20 (shared with C06-R2): the DIMACS readers refuse only what a declared count or the literal type excludes - default limits (literal limit = the type's maximum, no clause limit, group limit usize::MAX whatever the literal type) accept everything the writers can emit. R21: both AIGER writers frame the comment section as `c` LF, text, LF on every path and alike.",
        "DESIGN.md §4 C03",
    ),
    "C04": (
        "other",
        "interprocedural typestate analysis over MIR (path-sensitive abstract interpretation with summaries)",
        "Decides on every path of every public parser function: no success return rests on an end-of-input look-ahead answer unless the parked I/O error was consulted afterwards; plus who-may-construct SyntaxError, the eof tokens and no-dropped-error rules. It decides this clause, not item equality with the fault-free run. Raising an error takes the parked I/O error out of the reader: no success return may follow a give_up* event or the Err edge of check_io_error (typestate state R). R5 (shared with C02-R5): every read error other than Interrupted is parked whatever its kind; only Ok(0) is a clean end. R6 (shared with C05-R7): a token that reports a match has moved the cursor, so no loop can spin in front of a parked error.",
        "DESIGN.md §4 C04",
    ),
    "C05": (
        "other",
        "instance call-graph SCC analysis; taint analysis of declared numbers with guard-dominance discharge; allocation-size taint; loop progress rule; panic-site inventory with discharge classes",
        "Decides: the workspace's instance call graph is acyclic (bounded stack); every overflow/division assert and every subtraction in parser-reachable code either has only measures of consumed input as operands or is discharged by a dominating guard, a bounded-result callee, or a listed bound; no allocation is sized by a declared number; every loop has a progress statement on every cycle; every panic-capable construct (unwrap, indexing, advance, explicit panic) is discharged by a class (scanned offsets, digits, pop-after-push, ...) or listed. Wall time, heap constants, allocator aborts and termination of Renumber::transfer on cyclic graphs are not decided. R7: a token function reports a match only after the cursor moved by a provably positive amount, so the parsers' loops over alternatives cannot spin. R2 also enumerates the integer methods of std that trap like the operators (abs, pow, neg, ...): none takes a declared number. R4: the listed reason for NonZeroU64::new(..).unwrap() is checked (digits parser unreachable from the edge on which the look-ahead primitive answered '0'); added assertions are discharged by an interval evaluator that knows dominating comparisons, return-value joins of workspace functions and byte classes. R4 also lists std functions with a hidden panic condition (String::truncate, Vec::remove, copy_from_slice, str slicing, ...): each use in parser-reachable code is reported. R8 (shared with C06-R1): range checks before lossy conversions, every lossy `as` cast listed with its bound. R4: a variable array or slice index needs a test against the length in front of the access. R2's table of believed reasons was reduced: indices found by scanning a slice are bounded by recomputing which slice was scanned and what it was cut to (rules/scanidx.py), differences in reader methods by affine execution with the methods summarised from their bodies; the premises of the remaining entries are decided by rules that run here too (R3d = C08-R8/R9 line state, R9 = C06-R4 AIGER header bounds). R10 (= C13-R1/R1b): the digit scanners never hand out a wrapped value (premise of NonZero::new(..).unwrap()). R11: an advance by X + c (c a positive constant, scanner calls peeled down to their start offset) passes over bytes a look-ahead answered on the way. R12 (= C12-R5/R10): renumbering records every transferred literal and transfers every root (premise of the unwraps in renumber_aig and of the linear walk). R4 has a class index-counts-down (a counter that starts at the slice length and is decremented in front of the access). R12 also runs C12-R16: the cycle probe of the walk stack precedes every gate-opening push.",
        "DESIGN.md §4 C05",
    ),
    "C06": (
        "other",
        "guard-dominance, def-use and control-dependence rules over MIR; affine path execution of the header bound chain; frozen oracle tables for defining positions and section counters",
        "Numeric exactness of the decimal conversion is C13's subject. Decided: every limit the property names is installed from the right source and dominates every hand-out or narrowing: from_dimacs only behind (-limit..=limit).contains, from_code only on codes checked by lit/delta_code, lossy casts listed with their bound; DIMACS limits installed exactly when the header asks and consulted at clause attempt / clean end; AIGER max_lit = 2M+1 everywhere, defining positions, header remainder chain, section counters; inclusive operators; literal type maxima. R1 for loop variables: every assignment of the converted variable passes a range test before it can reach from_dimacs. R9 (shared with C13-R1b/R4): decimal scanning yields the exact value or None. R10: a justice literal is filed under property i only behind the test that property i holds fewer than its declared number, for the current i. R11: the declared variable count (the later literal limit) is parsed by token::var_count::<L> in all three DIMACS header parsers. R2 also: no other header count decides whether a limit is installed. R12: a number token contains at least one digit (consumed only after the scanner's end offset was found different from its start offset, decided by affine path execution through the && chains). R13: ignore_header is stored by its own setter only. R14 (= C05-R2 on flussab-aiger): sums of declared sizes cannot wrap. R2 also: without a declared group count the GCNF group limit is usize::MAX, whatever the literal type. R15 (shared with C03-R3): an AIGER symbol's index is limited by the count of its own section, and a section declared empty admits none.",
        "DESIGN.md §4 C06",
    ),
    "C07": (
        "other",
        "interprocedural typestate analysis over MIR (blank-normal form of the cursor, path-sensitive abstract interpretation with summaries); exact byte-class extraction for the end-of-word test; CFG loop / dominance rules and sibling cross-check for the statement dispatch",
        "Equality of the values parsed from two renderings of one formula is a runtime relation and is not decided. Decided are the structural necessary conditions the layout freedoms rest on: (1) on every path from every cnf/wcnf/gcnf/solver-log entry point, a token parser that decides on the byte at the cursor is attempted only when the cursor cannot stand on a space or tab (everything consumed was consumed together with its trailing blanks, or skip_whitespace ran) - any amount of blanks between tokens, at line ends and at line starts; (2) a word ends exactly before space, tab, CR, LF or end of input; (3) in all three statement loops and header prologues comment lines and blank lines are alternatives whose success continues the loop, identically in the three siblings; (4) every required line end is `newline or end of input`; (5) inside a clause, and between weight/group and literals, the line-break-and-comments skipper is tried before an error is raised, and it loops over comments and newlines. LF/CRLF is text::newline's class (C16-R3); numeral spelling (leading zeros, -0) is value-level (C13). R7: a scan that starts at a constant offset K > 0 steps over examined bytes only - each matched against a byte other than a line feed on the way, nothing consumed in between. R8 (shared with C08-R1): errors for tokens on a continuation line are located from a mark set on that line. R9 (shared with C13-R1b/R3): the digit scanners pass over every digit of a numeral and report its exact value or overflow, however it is spelled. R10: ignore_unknown_lines is stored by its own setter only. R4 accepts the explicit `match newline { Fallthrough => eof, parsed => parsed }` form of the line end. R11 (shared with C02-R3/R4): refills append to the window, realigning and shrinking keep it (long comment lines and blank runs).",
        "DESIGN.md §13",
    ),
    "C08": (
        "other",
        "interprocedural typestate analysis (mark set/unset) plus per-function path rules with affine offset matching over MIR",
        "Decides how the three pieces of location state are maintained on every path to an error: mark() only after set_mark() on the current line (all API roots, all call paths), line_start never ahead of the cursor when an error can be raised or a token returns, every matched-and-consumed line feed is counted, errors raised only at the cursor or the mark, column formula. It does not decide that the column lies on the token for errors raised at the cursor after partial look-ahead, nor message text. R3 also: a whole line skipped with next_newline is counted with the same offset, and the line start is only set after the cursor moved when it moved by exactly the line feed. R6: a token whose error is located by its caller (error type other than ParseError) commits the error with the cursor still on the token (typestate: no advance on a path returning Res(Err)). R7: once a token function consumed the token it marked, it raises errors at the mark, not at the cursor (typestate per token function). R8: rejected AIGER comment section - the advance behind the last line feed and the counted slice are evaluated to linear forms over n and p (rev().position = n-1-p, rposition = p) and must be p+1 and p. R9: the line bookkeeping itself by affine path execution - LineReader::new starts at line 1 at the reader's position, line_at_offset(k) adds one line starting at position + k, give_up_at hands its position on unchanged, and line / line_start are stored nowhere else (except the comment-section token decided by R8). R10: a matched alternative is committed - no error site is reachable both from the edge on which a consuming token matched and from the edge on which it fell through, within one round of the enclosing loops. R11 (shared with C13-R3/R4): a number token ends where the scanners' documented behaviour says (+1 per digit, a lone minus sign is not passed over, fast and byte-wise paths agree), so a corrupted sign is reported where it stands.",
        "DESIGN.md §4 C08",
    ),
    "C09": (
        "other",
        "CFG/guard-dominance rules on the reader's refill code plus interprocedural typestate analysis (last look-ahead answer) over MIR",
        "Decides: exactly one guarded Read::read call site whose only cycle is the Interrupted retry, refill reachable only when the buffer falls short, no bulk request in tokenizers; and on every path of every streaming API function the last look-ahead answer before a success return is the line terminator or end of input (no byte beyond the consumed text was asked for). The number of reads per item for a concrete source is not decided. R2's typestate follows the most recent look-ahead request (look-ahead events carry the tag of the answer they create; examining an older answer while a later request is outstanding does not count as the last look). Records that end with their last byte instead of a line end (binary and gates) have their own obligation: nothing is requested behind the cursor after the record was consumed.",
        "DESIGN.md §4 C09",
    ),
    "C10": (
        "other",
        "dominance rules over MIR (buffer reset discipline on the def-level call graph; guard extraction on the reader's compaction code); interprocedural typestate analysis (line ends looked at beyond the cursor)",
        "The heap bound itself is a runtime quantity and is not decided. Decided are necessary structural conditions: every growth of a buffer that outlives the call, in code reachable from a streaming parser entry point, is dominated by a clear() of the same buffer; compaction in request_more is decided on live operands, moves the window to offset 0 and the buffer only grows when window + chunk does not fit. (Allocation sized by declared counts is C05-R5.) Also decided (R3, typestate over all token functions and streaming entry points): no second line end is looked at before the cursor moved past the first, so the look-ahead window - which the reader must keep - stays within one line (plus the AIGER comment section, one item by definition). R4 (shared with C05-R5): no allocation or reservation sized by a declared number. R1 treats every growing method of every std collection alike (push/insert/extend/entry/... on Vec, String, VecDeque, HashMap, HashSet, BTree*). R5 (shared with C05-R1): no recursion - the stack does not grow with the number of items. R6: look-ahead loops at a varying offset live in the token functions only; parser-level loops consume as they go. R7: chunk_size is stored by its setter and the constructor only. R8 (shared with C01-R2): request_more / request / set_chunk_size are not called from parser or scanner code. R9: binary AIGER has no lines - the look-ahead of the 7-bit number decoder has a constant bound tested inside its loop. R2 also: every read of the source sits behind the compaction decision (no second refill path that never realigns).",
        "DESIGN.md §4 C10",
    ),
    "C11": (
        "other",
        "who-may-call, guard dominance, post-dominance and linear-use (affine path execution) rules over the writer's MIR",
        "Decides for every path of the writer's methods: the sink is called from two sites only, only while no error is parked, inside the panicked bracket, its error is parked; every flush clears the buffer and writes the whole buffer; in the cold path each part of the input is buffered or written exactly once in order (split at capacity - len); the error is taken exactly once and Write::flush reports it; drop flushes unless a sink write panicked; the integer fast path advances by the written length. Canonical decimal text (itoap) and std's write_all loop are trusted. R4 also: Write::write hands its whole input on and reports its full length (the integer slow path calls it once and ignores the count). R6 also: both paths of ascii_digits receive the caller's value unchanged. R8: the answer of every call that takes the parked error out (check_io_error, Write::flush on the writer) is handed on or examined, never dropped; silent flushes come from the cold write path, Write::flush and drop only. R9: the debug assertion of advance_unchecked is implied by the contract buf_write_ptr establishes (old_len + n <= capacity, also for an exact fill), and the length it sets is old_len + n (affine path execution).",
        "DESIGN.md §4 C11",
    ),
    "C12": (
        "other",
        "call-graph SCC check, def-use provenance of map keys vs. redefinition tests (sibling agreement), guard/dominance and expression-shape rules over MIR",
        "Functional equivalence of the renumbered circuit (all circuits, all assignments, all option combinations) is value-level and NOT decided; neither are the const-fold case analysis, hash-consing or completeness of the cycle detection. Decided structural necessary conditions: no recursion (explicit stack), every kind of literal used as a key of the renumbering map passes a redefinition test yielding LitAlreadyDefined, every error variant has a producer on the right path and is propagated with `?`, inputs sorted (descending) before a gate is hashed or pushed, a fresh code before every pushed gate, inputs < latches < gates numbering order, LitMap/transfer polarity xor discipline. R5/R6 additionally decide that the literal handed back from the gate arm is the stored literal xor the polarity difference, and that every constant fold is an identity of AND on every decision path (conditions evaluated over the six representative codes). R7: source-circuit literals and renumbered literals (same type) are never compared or used in each other's place (flow-sensitive numbering tags). R8: the definition table is keyed by literals as written and every question to it covers both polarities (key-expression classes: plain / flipped / normalised). R9: literals are compared for identity only with literals of the same kind (requested literal vs. a definition's output as written). R3: the `?` on a fallible step must be reached on every way on from the call. R8 also: the definition table is read-only after lit_defs built it. R10: every root section (latch next-states, outputs, bad-state, constraints, justice, fairness) is walked with a transfer per literal on every path on which initialize returns Ok (dominance of the loop header over every Ok, transfer dominates every latch, loops left towards Ok by exhaustion only), so an undefined root yields LitNotDefined and never a later unwrap panic. R11: the constant cannot be redefined in either polarity (table seeded with literal 0 in front of every other insert, or tests excluding codes 0 and 1). R12: the conversion OrderedAig -> Aig spells out the positional names - input i = 2(i+1), latch i = 2(i+1+I), gate i = 2(i+1+I+L) - decided by affine execution of the conversion and its closures; every other field from the field of the same name. R13: the option setters of RenumberConfig store their parameter into the field of their own name. R14 (shared with C05-R5): no table of the renumbering code is sized by a declared number (max_var_index, header counts); the allocation rule covers every pre-sizable collection. R15: the structural-hash index is keyed by the ordered gate itself. R16: the push that opens a gate is dominated by the probe of the walk stack for a cycle (cycles of every length are found).",
        "DESIGN.md §4 C12",
    ),
    "C13": (
        "other",
        "def-use discipline rules over MIR, sibling comparison of loop bodies, exhaustive abstract interpretation of the scanning behaviour over (offset label, byte class)",
        "The numeric value of the SWAR kernel and of the accumulation loops is value-level and not decided. Decided: every overflowing_* flag reaches the one flag gating the returned Option and no other arithmetic touches the value; the five accumulation steps agree (x10, +/- (byte - '0')); the simple scanners' behaviour (digit class, +1 per digit, a lone minus is not passed over) equals the specification exactly for entry offsets 0 and 1; the fast/cold plumbing (cold tail calls, all-matched constants 8/7, continuation at offset+8, checked conversions, sign counted only if a digit followed). R1b: None is returned exactly on the paths where an overflowing_* step reported overflow or None came in, decided as a typestate independent of how the flag is stored. R5: the SWAR kernel's digit test is interpreted lane by lane (tables over all 256 byte values per lane, additions proved carry-free between lanes): a lane is zero exactly for '0'..='9'; only the multiply-and-shift reduction is assumed. R4 also: a fast variant returns without the byte-wise continuation only behind the test that fewer than 8 (7 after a minus) digit bytes of the word matched - what is or is not buffered behind the word never ends a number. R6 (= C09-R1): a None answer of the look-ahead, at which a digit run ends, is the end of the source (Interrupted retried in place, refills give up only at the end or on an error). R7 (shared with C02-R3/R4/R7): the bytes the scanners read are the bytes of the source (appended reads, shrinking keeps the window, observers index at the cursor).",
        "DESIGN.md §4 C13",
    ),
    "C14": (
        "other",
        "unsafe-operation inventory over MIR with guard-dominance patterns per class, field confinement, wrap-before-check rule",
        "Every operation that needs `unsafe` in the workspace (27 today) is classified and must satisfy its class's guard pattern (dominating comparison with the same operands, invariant window, validated or ASCII-class bytes); unknown classes are violations. Trusted fields are private and confined; unchecked advancing is `unsafe fn`; no possibly wrapped value is stored into a trusted field before the check that panics; an untrusted Read cannot enlarge the window. UB inside std/itoap, aliasing models and the SWAR kernels' byte classes are not decided. R3 also: advance(n) writes no trusted field before the test that may panic. R5 (shared with C02-R4): the buffer is shortened only in request_more, behind the guard that keeps the window inside it. R3 also: in request_more the window's bytes are moved before the first rebasing store (a mover that panics leaves the old, consistent window behind). R6 (= C02-R7): the safe observers index the buffer with the cursor as it is at that moment, also after a refill inside the same call. The fact normaliser keeps a private helper whose address is taken, so an unguarded raw read behind a function pointer is seen by R1.",
        "DESIGN.md §4 C14",
    ),
    "C15": (
        "proof",
        "exhaustive abstract interpretation of MIR over the finite variant domain, compared with a specification table",
        "All 15 combinators are interpreted abstractly over {Fallthrough, Res(Ok), Res(Err)} x {every outcome of the closure parameter}; the computed set of (closure calls with argument provenance, result variant with payload provenance) must equal the specification table row by row, and no outcome outside the table may exist. The domain is finite and enumerated completely, so this decides the property for the code as compiled to MIR. R2: the side condition of the table - a combinator reaches only the closure it was handed, From / Into, the modelled Result / Try methods and sibling combinators, and has no panic edge of its own (no state between calls, no divergence).",
        "DESIGN.md §4 C15",
    ),
    "C16": (
        "proof",
        "exhaustive abstract interpretation of MIR over (offset label, byte class), behaviour transition systems compared with generated specifications; call-graph effect confinement",
        "For tabs_or_spaces, newline, next_newline and fixed the transition system (look-ahead offset, 256-bit byte class incl. end-of-input on every edge, returned offset) is extracted from MIR for entry offsets 0 and 1 (patterns '', 'a', 'ab', 'aa' for fixed) and must equal the documented behaviour exactly, including the absence of any look-ahead the documentation does not require; plus who-may-call confinement (no advance/mark/line effects reachable). Offsets above 3 are tracked as a lower bound only. R6 (shared with C02-R3/R4/R7): the look-ahead primitive the helpers see the input through answers from a faithful window (reads appended at the window end, shrinking keeps the window, observers index at the current cursor). Also C02-R6: a reader built from a BufReader reads on from the inner source, not through the BufReader. R6 also runs C02-R5: the end of input the helpers stop at is the end of the source (complete only on Ok(0) / a failed read, never after a short read).",
        "DESIGN.md §4 C16",
    ),
}

NOT_APPLICABLE = {}

NOT_YET = "not claimed yet: static rules for this property are under construction (see DESIGN.md §4); no verdict is given"


def main():
    props = [json.loads(l) for l in open(os.path.join(H, "properties.jsonl"))]
    checks = []
    na = []
    for p in props:
        pid = p["id"]
        if pid in CLAIMS:
            level, tech, text, ref = CLAIMS[pid]
            checks.append(
                {
                    "property_id": pid,
                    "quick_cmd": "./check %s --tier quick" % pid,
                    "thorough_cmd": "./check %s --tier thorough" % pid,
                    "evidence_file": "/verif/evidence/%s.json" % pid,
                    "replay_cmd_template": "./check %s --replay {path}" % pid,
                    "engine": "flint+rules",
                    "level_claimed": {"category": level, "text": text, "design_ref": ref},
                    "level_note": TRUST,
                    "technique": tech,
                }
            )
        elif pid in NOT_APPLICABLE:
            na.append({"property_id": pid, "reason": NOT_APPLICABLE[pid]})
        else:
            na.append({"property_id": pid, "reason": NOT_YET})
    m = {
        "version": 1,
        "setup_cmd": "cd /verif/flint && CARGO_NET_OFFLINE=true cargo build --release --offline",
        "hooks": {
            "guard": "flussab_verif",
            "enable": "none needed: the checks analyse the unmodified sources (RUSTFLAGS --cfg flussab_verif is reserved and unused)",
            "baseline_off_cmd": "cd /repo && cargo test --workspace --no-fail-fast --offline",
            "source_commits": [],
            "add_only": True,
        },
        "engines": [
            {
                "name": "flint",
                "path": "/verif/flint",
                "serves_properties": sorted(CLAIMS),
                "kind_free_text": "rustc_private driver (RUSTC_WORKSPACE_WRAPPER under cargo +nightly check) dumping items, ADTs, MIR bodies, resolved callees and the instance call graph of the four workspace crates as JSON facts; contains no rules",
            },
            {
                "name": "rules",
                "path": "/verif/rules",
                "serves_properties": sorted(CLAIMS),
                "kind_free_text": "Python (stdlib) rule engines over the facts: CFG/dominators, call graph, symbolic expansion of temporaries, path-sensitive abstract interpreter with typestate (absint.py), table extraction",
            },
        ],
        "checks": checks,
        "not_applicable": na,
        "notes": "Static analysis only: every verdict is computed from /repo's current sources (fact base rebuilt on every run in a scratch directory that is removed afterwards); nothing from flussab is executed. Known genuine defects are listed in known_findings.json.",
    }
    with open(os.path.join(H, "MANIFEST.json"), "w") as fh:
        json.dump(m, fh, indent=1)
        fh.write("\n")


if __name__ == "__main__":
    main()
