#!/bin/sh
# run every claimed quick check on /repo, then validate manifest + evidence
cd /verif
rc=0
for id in $(python3 -c "import json;print(' '.join(c['property_id'] for c in json.load(open('MANIFEST.json'))['checks']))"); do
  ./check $id --tier ${1:-quick} > /tmp/runall.$id.out 2>&1; r=$?
  echo "$id exit=$r $(grep -c '^rule' /tmp/runall.$id.out) rules; $(grep -E 'VIOLATION|KNOWN' /tmp/runall.$id.out | head -3)"
  [ $r -ne 0 ] && rc=1
  rm -f /tmp/runall.$id.out
done
python3-vt tools_validate.py | tail -20
exit $rc
