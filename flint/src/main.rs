// flint: fact extractor for the flussab static checks.
//
// A `rustc_driver` wrapper meant to be run as RUSTC_WORKSPACE_WRAPPER under
// `cargo +nightly check`.  It compiles the crate normally and, after analysis,
// writes ONE json fact file `$FLINT_OUT/<crate>.json` holding items, ADTs, MIR
// bodies (normal form), resolved callees and an instance call graph.  It
// contains no rules.
#![feature(rustc_private)]

extern crate rustc_abi;
extern crate rustc_driver;
extern crate rustc_hir;
extern crate rustc_interface;
extern crate rustc_middle;
extern crate rustc_span;

mod json;

use json::J;
use rustc_driver::{Callbacks, Compilation};
use rustc_hir as hir;
use rustc_hir::def::DefKind;
use rustc_hir::def_id::{DefId, LocalDefId};
use rustc_hir::intravisit::{self, Visitor};
use rustc_interface::interface::Compiler;
use rustc_middle::mir::{
    self, AggregateKind, BasicBlock, Body, Const as MirConst, ConstValue, Operand, Place,
    ProjectionElem, Rvalue, StatementKind, TerminatorKind, UnwindAction,
};
use rustc_middle::ty::{self, GenericArgsRef, Instance, InstanceKind, Ty, TyCtxt, TypingEnv};
use rustc_span::Span;
use std::collections::{BTreeMap, HashMap, HashSet, VecDeque};

macro_rules! pp {
    ($e:expr) => {
        ty::print::with_resolve_crate_name!(ty::print::with_no_visible_paths!(
            ty::print::with_no_trimmed_paths!($e)
        ))
    };
}

struct Flint;

impl Callbacks for Flint {
    fn after_analysis<'tcx>(&mut self, _c: &Compiler, tcx: TyCtxt<'tcx>) -> Compilation {
        let out = match std::env::var("FLINT_OUT") {
            Ok(o) => o,
            Err(_) => return Compilation::Continue,
        };
        let krate = tcx.crate_name(rustc_hir::def_id::LOCAL_CRATE).to_string();
        // only workspace members are run through the wrapper, but be defensive
        let want = std::env::var("FLINT_CRATES").unwrap_or_default();
        if !want.is_empty() && !want.split(',').any(|c| c == krate) {
            return Compilation::Continue;
        }
        let facts = Extract::new(tcx).run(&krate);
        let path = format!("{}/{}.json", out, krate);
        let mut s = String::new();
        facts.write(&mut s);
        std::fs::create_dir_all(&out).ok();
        std::fs::write(&path, s).expect("flint: cannot write fact file");
        Compilation::Continue
    }
}

fn main() {
    let mut args: Vec<String> = std::env::args().collect();
    // RUSTC_WORKSPACE_WRAPPER: argv[1] is the path of the real rustc
    if args.len() > 1 && (args[1].ends_with("rustc") || args[1].contains("/rustc")) {
        args.remove(1);
    }
    let code = rustc_driver::catch_with_exit_code(|| {
        rustc_driver::run_compiler(&args, &mut Flint);
    });
    std::process::exit(if code == std::process::ExitCode::SUCCESS { 0 } else { 1 });
}

struct Extract<'tcx> {
    tcx: TyCtxt<'tcx>,
    adts_seen: BTreeMap<String, J>,
}

fn s(x: impl Into<String>) -> J {
    J::Str(x.into())
}

impl<'tcx> Extract<'tcx> {
    fn new(tcx: TyCtxt<'tcx>) -> Self {
        Extract { tcx, adts_seen: BTreeMap::new() }
    }

    fn path(&self, d: DefId) -> String {
        pp!(self.tcx.def_path_str(d))
    }

    fn ty_str(&self, t: Ty<'tcx>) -> String {
        pp!(format!("{}", t))
    }

    fn span_j(&self, sp: Span) -> J {
        let sm = self.tcx.sess.source_map();
        let cs = sp.source_callsite();
        let lo = sm.lookup_char_pos(cs.lo());
        let hi = sm.lookup_char_pos(cs.hi());
        let file = match &lo.file.name {
            rustc_span::FileName::Real(r) => r
                .local_path()
                .map(|p| p.to_string_lossy().to_string())
                .unwrap_or_else(|| format!("{:?}", r)),
            o => format!("{:?}", o),
        };
        J::obj(vec![
            ("file", s(file)),
            ("lo", J::Int(lo.line as i128)),
            ("hi", J::Int(hi.line as i128)),
            ("col", J::Int(lo.col.0 as i128)),
            ("exp", J::Bool(sp.from_expansion())),
        ])
    }

    fn run(mut self, krate: &str) -> J {
        let tcx = self.tcx;
        let mut fns = Vec::new();
        let mut roots: Vec<DefId> = Vec::new();
        let mut owners: Vec<LocalDefId> = tcx.hir_body_owners().collect();
        owners.sort_by_key(|d| tcx.def_path_str(d.to_def_id()));
        for ldid in owners {
            let did = ldid.to_def_id();
            let kind = tcx.def_kind(did);
            match kind {
                DefKind::Fn | DefKind::AssocFn | DefKind::Closure => {}
                _ => continue,
            }
            if !tcx.is_mir_available(did) {
                continue;
            }
            // skip #[cfg(test)] functions: they are not present in a lib check anyway
            let body = tcx.optimized_mir(did);
            let unsafe_spans = self.unsafe_spans(ldid);
            fns.push(self.body_j(did, body, &unsafe_spans));
            // promoted constants of this body (e.g. `&(-L::MAX..=L::MAX)`), as bodies of their own
            let proms = tcx.promoted_mir(did);
            for (pi, pb) in proms.iter_enumerated() {
                let mut pj = self.body_j(did, pb, &[]);
                if let J::Obj(kv) = &mut pj {
                    for (k, v) in kv.iter_mut() {
                        if k == "id" {
                            *v = s(format!("{}::promoted[{}]", self.path(did), pi.as_u32()));
                        }
                        if k == "kind" {
                            *v = s("Promoted");
                        }
                    }
                }
                fns.push(pj);
            }
            if matches!(kind, DefKind::Fn | DefKind::AssocFn) {
                roots.push(did);
            }
        }
        // integer associated constants of impls (e.g. Dimacs::MAX_DIMACS, Lit::MAX_CODE)
        let mut consts = Vec::new();
        for ldid in tcx.hir_crate_items(()).definitions() {
            let did = ldid.to_def_id();
            if let DefKind::AssocConst { .. } = tcx.def_kind(did) {
                let cty = tcx.type_of(did).instantiate_identity().skip_norm_wip();
                if !cty.is_integral() {
                    continue;
                }
                if tcx.generics_of(did).requires_monomorphization(tcx) {
                    continue;
                }
                if let Ok(val) = tcx.const_eval_poly(did) {
                    if let Some(si) = val.try_to_scalar_int() {
                        let size = si.size();
                        let bits = si.to_bits(size);
                        let v: i128 = if cty.is_signed() { size.sign_extend(bits) as i128 } else { bits as i128 };
                        consts.push(J::obj(vec![("id", s(self.path(did))), ("ty", s(self.ty_str(cty))), ("int", J::Int(v))]));
                    }
                }
            }
        }
        let (inst, ext) = self.instance_graph(&roots);
        for d in ext {
            if tcx.is_mir_available(d) {
                let body = tcx.optimized_mir(d);
                fns.push(self.body_j(d, body, &[]));
            }
        }
        let adts: Vec<J> = std::mem::take(&mut self.adts_seen).into_values().collect();
        J::obj(vec![
            ("crate", s(krate)),
            ("fns", J::Arr(fns)),
            ("adts", J::Arr(adts)),
            ("consts", J::Arr(consts)),
            ("instances", inst),
        ])
    }

    // ---- unsafe regions from HIR ------------------------------------------------
    fn unsafe_spans(&self, ldid: LocalDefId) -> Vec<Span> {
        struct V<'tcx> {
            tcx: TyCtxt<'tcx>,
            spans: Vec<Span>,
        }
        impl<'tcx> Visitor<'tcx> for V<'tcx> {
            type NestedFilter = rustc_middle::hir::nested_filter::OnlyBodies;
            fn maybe_tcx(&mut self) -> Self::MaybeTyCtxt {
                self.tcx
            }
            fn visit_block(&mut self, b: &'tcx hir::Block<'tcx>) {
                if let hir::BlockCheckMode::UnsafeBlock(hir::UnsafeSource::UserProvided) = b.rules {
                    self.spans.push(b.span);
                }
                intravisit::walk_block(self, b);
            }
        }
        let tcx = self.tcx;
        let mut v = V { tcx, spans: vec![] };
        // closures: use the enclosing fn's body so that an unsafe block around a closure counts
        let mut owner = ldid;
        while tcx.def_kind(owner.to_def_id()) == DefKind::Closure {
            owner = tcx.local_parent(owner);
        }
        if let Some(body_id) = tcx.hir_maybe_body_owned_by(owner) {
            v.visit_body(body_id);
        }
        v.spans
    }

    fn in_unsafe(&self, sp: Span, us: &[Span]) -> bool {
        let cs = sp.source_callsite();
        us.iter().any(|u| u.source_callsite().contains(cs))
    }

    // ---- ADTs -------------------------------------------------------------------
    fn note_adt(&mut self, t: Ty<'tcx>) {
        let mut t = t;
        loop {
            match t.kind() {
                ty::Ref(_, inner, _) => t = *inner,
                ty::RawPtr(inner, _) => t = *inner,
                _ => break,
            }
        }
        if let ty::Adt(def, _) = t.kind() {
            let p = self.path(def.did());
            if self.adts_seen.contains_key(&p) {
                return;
            }
            let tcx = self.tcx;
            let mut variants = Vec::new();
            for (vi, v) in def.variants().iter_enumerated() {
                let discr = if def.is_enum() {
                    J::Int(def.discriminant_for_variant(tcx, vi).val as i128)
                } else {
                    J::Null
                };
                let fields: Vec<J> = v
                    .fields
                    .iter()
                    .map(|f| {
                        let fty = tcx.type_of(f.did).instantiate_identity().skip_norm_wip();
                        J::obj(vec![
                            ("name", s(f.name.to_string())),
                            ("ty", s(self.ty_str(fty))),
                            ("pub", J::Bool(f.vis.is_public())),
                        ])
                    })
                    .collect();
                variants.push(J::obj(vec![
                    ("name", s(v.name.to_string())),
                    ("idx", J::Int(vi.as_u32() as i128)),
                    ("discr", discr),
                    ("fields", J::Arr(fields)),
                ]));
            }
            let j = J::obj(vec![
                ("path", s(p.clone())),
                ("kind", s(if def.is_enum() { "enum" } else if def.is_union() { "union" } else { "struct" })),
                ("local", J::Bool(def.did().is_local())),
                ("repr_transparent", J::Bool(def.repr().transparent())),
                ("variants", J::Arr(variants)),
            ]);
            self.adts_seen.insert(p, j);
        }
    }

    // ---- types --------------------------------------------------------------------
    fn ty_j(&mut self, t: Ty<'tcx>) -> J {
        self.note_adt(t);
        let mut refs = 0;
        let mut inner = t;
        loop {
            match inner.kind() {
                ty::Ref(_, i, _) => {
                    inner = *i;
                    refs += 1
                }
                ty::RawPtr(i, _) => {
                    inner = *i;
                    refs += 1
                }
                _ => break,
            }
        }
        let mut kv = vec![("s", s(self.ty_str(t)))];
        match inner.kind() {
            ty::Adt(def, args) => {
                kv.push(("adt", s(self.path(def.did()))));
                let a: Vec<J> = args.iter().filter_map(|a| a.as_type()).map(|a| s(self.ty_str(a))).collect();
                kv.push(("targs", J::Arr(a)));
            }
            ty::Closure(d, _) => kv.push(("closure", s(self.path(*d)))),
            ty::FnDef(d, _) => kv.push(("fndef", s(self.path(*d)))),
            ty::Tuple(ts) => {
                let a: Vec<J> = ts.iter().map(|a| s(self.ty_str(a))).collect();
                kv.push(("tuple", J::Arr(a)));
            }
            ty::Param(p) => kv.push(("param", s(p.name.to_string()))),
            ty::Bool => kv.push(("prim", s("bool"))),
            ty::Int(_) | ty::Uint(_) => kv.push(("prim", s(self.ty_str(inner)))),
            ty::Array(e, n) => {
                kv.push(("array", s(self.ty_str(*e))));
                if let Some(n) = n.try_to_target_usize(self.tcx) {
                    kv.push(("len", J::Int(n as i128)));
                }
            }
            ty::Slice(e) => kv.push(("slice", s(self.ty_str(*e)))),
            ty::Never => kv.push(("prim", s("!"))),
            _ => {}
        }
        if refs > 0 {
            kv.push(("refs", J::Int(refs)));
        }
        J::obj(kv)
    }

    // ---- places / operands -------------------------------------------------------------
    fn place_j(&mut self, body: &Body<'tcx>, p: &Place<'tcx>) -> J {
        let tcx = self.tcx;
        let mut proj = Vec::new();
        let mut pty = mir::PlaceTy::from_ty(body.local_decls[p.local].ty);
        for elem in p.projection.iter() {
            let j = match elem {
                ProjectionElem::Deref => s("*"),
                ProjectionElem::Field(f, fty) => {
                    let mut name = format!("{}", f.as_u32());
                    let mut owner = String::new();
                    if let ty::Adt(def, _) = pty.ty.kind() {
                        let vi = pty.variant_index.unwrap_or(rustc_abi::FIRST_VARIANT);
                        if def.is_enum() || def.is_struct() || def.is_union() {
                            if let Some(v) = def.variants().get(vi) {
                                if let Some(fd) = v.fields.get(f) {
                                    name = fd.name.to_string();
                                }
                            }
                        }
                        owner = self.path(def.did());
                    }
                    J::obj(vec![
                        ("f", J::Int(f.as_u32() as i128)),
                        ("name", s(name)),
                        ("of", s(owner)),
                        ("ty", s(self.ty_str(fty))),
                    ])
                }
                ProjectionElem::Index(l) => J::obj(vec![("index", J::Int(l.as_u32() as i128))]),
                ProjectionElem::ConstantIndex { offset, min_length, from_end } => J::obj(vec![
                    ("cidx", J::Int(offset as i128)),
                    ("min", J::Int(min_length as i128)),
                    ("from_end", J::Bool(from_end)),
                ]),
                ProjectionElem::Subslice { from, to, from_end } => J::obj(vec![
                    ("sub_from", J::Int(from as i128)),
                    ("sub_to", J::Int(to as i128)),
                    ("from_end", J::Bool(from_end)),
                ]),
                ProjectionElem::Downcast(name, vi) => J::obj(vec![
                    ("downcast", J::Int(vi.as_u32() as i128)),
                    ("vname", s(name.map(|n| n.to_string()).unwrap_or_default())),
                ]),
                ProjectionElem::OpaqueCast(_) => s("opaque"),
                ProjectionElem::UnwrapUnsafeBinder(_) => s("unwrap_binder"),
            };
            proj.push(j);
            pty = pty.projection_ty(tcx, elem);
        }
        J::obj(vec![("l", J::Int(p.local.as_u32() as i128)), ("p", J::Arr(proj))])
    }

    fn bytes_j(b: &[u8]) -> J {
        J::Arr(b.iter().map(|x| J::Int(*x as i128)).collect())
    }

    fn const_j(&mut self, owner: DefId, c: &MirConst<'tcx>) -> J {
        let tcx = self.tcx;
        let t = c.ty();
        let mut kv = vec![("ty", s(self.ty_str(t)))];
        match t.kind() {
            ty::FnDef(d, args) => {
                kv.push(("fn", s(self.path(*d))));
                kv.push(("fnargs", J::Arr(args.iter().map(|a| s(pp!(format!("{}", a)))).collect())));
                return J::obj(kv);
            }
            _ => {}
        }
        let env = TypingEnv::post_analysis(tcx, owner);
        match t.kind() {
            ty::Bool | ty::Int(_) | ty::Uint(_) | ty::Char => {
                if let Some(si) = c.try_eval_scalar_int(tcx, env) {
                    let size = si.size();
                    let bits = si.to_bits(size);
                    let v: i128 = if let ty::Int(_) = t.kind() {
                        size.sign_extend(bits) as i128
                    } else {
                        bits as i128
                    };
                    kv.push(("int", J::Int(v)));
                }
            }
            ty::Ref(_, inner, _) => {
                let val = c.eval(tcx, env, rustc_span::DUMMY_SP).ok();
                if let Some(val) = val {
                    match inner.kind() {
                        ty::Str => {
                            if let Some(b) = val.try_get_slice_bytes_for_diagnostics(tcx) {
                                kv.push(("bytes", Self::bytes_j(b)));
                                kv.push(("str", s(String::from_utf8_lossy(b).to_string())));
                            }
                        }
                        ty::Slice(e) if e.is_integral() && matches!(e.kind(), ty::Uint(ty::UintTy::U8)) => {
                            if let Some(b) = val.try_get_slice_bytes_for_diagnostics(tcx) {
                                kv.push(("bytes", Self::bytes_j(b)));
                            }
                        }
                        ty::Array(e, n) if matches!(e.kind(), ty::Uint(ty::UintTy::U8)) => {
                            if let (Some(n), ConstValue::Scalar(mir::interpret::Scalar::Ptr(ptr, _))) =
                                (n.try_to_target_usize(tcx), val)
                            {
                                let (prov, off) = ptr.prov_and_relative_offset();
                                if let Some(rustc_middle::mir::interpret::GlobalAlloc::Memory(a)) =
                                    tcx.try_get_global_alloc(prov.alloc_id())
                                {
                                    let a = a.inner();
                                    let start = off.bytes() as usize;
                                    let end = start + n as usize;
                                    if end <= a.len() {
                                        let b = a.inspect_with_uninit_and_ptr_outside_interpreter(start..end);
                                        kv.push(("bytes", Self::bytes_j(b)));
                                    }
                                }
                            }
                        }
                        _ => {}
                    }
                }
            }
            _ => {}
        }
        // enum constants with scalar payloads (e.g. the promoted `Some(b'\n')` of `x == Some(b'\n')`)
        {
            let (is_ref, ety) = match t.kind() {
                ty::Ref(_, inner, _) => (true, *inner),
                _ => (false, t),
            };
            if let ty::Adt(def, _) = ety.kind() {
                if def.is_enum() {
                    if let Ok(val) = c.eval(tcx, env, rustc_span::DUMMY_SP) {
                        let inner_val = if is_ref {
                            match val {
                                ConstValue::Scalar(mir::interpret::Scalar::Ptr(ptr, _)) => {
                                    let (prov, off) = ptr.prov_and_relative_offset();
                                    Some(ConstValue::Indirect { alloc_id: prov.alloc_id(), offset: off })
                                }
                                _ => None,
                            }
                        } else {
                            Some(val)
                        };
                        if let Some(iv) = inner_val {
                            if let Some(d) = tcx.try_destructure_mir_constant_for_user_output(iv, ety) {
                                if let Some(vi) = d.variant {
                                    kv.push(("enum", s(self.path(def.did()))));
                                    kv.push(("isref", J::Bool(is_ref)));
                                    kv.push(("variant", s(def.variant(vi).name.to_string())));
                                    let mut fs = Vec::new();
                                    for (fv, fty) in d.fields.iter() {
                                        match (fv.try_to_scalar_int(), fty.kind()) {
                                            (Some(si), ty::Uint(_)) | (Some(si), ty::Bool) | (Some(si), ty::Char) => {
                                                fs.push(J::obj(vec![("ty", s(self.ty_str(*fty))), ("int", J::Int(si.to_bits(si.size()) as i128))]));
                                            }
                                            (Some(si), ty::Int(_)) => {
                                                fs.push(J::obj(vec![("ty", s(self.ty_str(*fty))), ("int", J::Int(si.size().sign_extend(si.to_bits(si.size())) as i128))]));
                                            }
                                            _ => fs.push(J::Null),
                                        }
                                    }
                                    kv.push(("fields", J::Arr(fs)));
                                }
                            }
                        }
                    }
                }
            }
        }
        if let MirConst::Unevaluated(u, _) = c {
            kv.push(("uneval", s(self.path(u.def))));
        }
        kv.push(("dbg", s(pp!(format!("{}", c)))));
        J::obj(kv)
    }

    fn operand_j(&mut self, owner: DefId, body: &Body<'tcx>, o: &Operand<'tcx>) -> J {
        match o {
            Operand::Copy(p) => J::obj(vec![("cp", self.place_j(body, p))]),
            Operand::Move(p) => J::obj(vec![("mv", self.place_j(body, p))]),
            Operand::Constant(c) => J::obj(vec![("c", self.const_j(owner, &c.const_))]),
            #[allow(unreachable_patterns)]
            _ => J::obj(vec![("other", s(format!("{:?}", o)))]),
        }
    }

    fn rvalue_j(&mut self, owner: DefId, body: &Body<'tcx>, rv: &Rvalue<'tcx>) -> J {
        match rv {
            Rvalue::Use(o, ..) => J::obj(vec![("k", s("use")), ("a", self.operand_j(owner, body, o))]),
            Rvalue::Repeat(o, n) => J::obj(vec![
                ("k", s("repeat")),
                ("a", self.operand_j(owner, body, o)),
                ("n", s(format!("{}", n))),
            ]),
            Rvalue::Ref(_, bk, p) => J::obj(vec![
                ("k", s("ref")),
                ("mut", J::Bool(matches!(bk, mir::BorrowKind::Mut { .. }))),
                ("p", self.place_j(body, p)),
            ]),
            Rvalue::RawPtr(k, p) => J::obj(vec![
                ("k", s("rawptr")),
                ("mut", J::Bool(matches!(k, mir::RawPtrKind::Mut))),
                ("p", self.place_j(body, p)),
            ]),
            Rvalue::Cast(ck, o, t) => {
                let from = o.ty(body, self.tcx);
                J::obj(vec![
                    ("k", s("cast")),
                    ("ck", s(format!("{:?}", ck))),
                    ("a", self.operand_j(owner, body, o)),
                    ("from", s(self.ty_str(from))),
                    ("to", s(self.ty_str(*t))),
                ])
            }
            Rvalue::BinaryOp(op, ab) => J::obj(vec![
                ("k", s("bin")),
                ("op", s(format!("{:?}", op))),
                ("a", self.operand_j(owner, body, &ab.0)),
                ("b", self.operand_j(owner, body, &ab.1)),
                ("ty", s(self.ty_str(ab.0.ty(body, self.tcx)))),
            ]),
            Rvalue::UnaryOp(op, o) => J::obj(vec![
                ("k", s("un")),
                ("op", s(format!("{:?}", op))),
                ("a", self.operand_j(owner, body, o)),
            ]),
            Rvalue::Discriminant(p) => {
                let pt = p.ty(body, self.tcx).ty;
                self.note_adt(pt);
                let adt = match pt.kind() {
                    ty::Adt(d, _) => self.path(d.did()),
                    _ => String::new(),
                };
                J::obj(vec![("k", s("discr")), ("p", self.place_j(body, p)), ("of", s(self.ty_str(pt))), ("adt", s(adt))])
            }
            Rvalue::Aggregate(ak, ops) => {
                let mut kv = vec![("k", s("agg"))];
                match &**ak {
                    AggregateKind::Array(_) => kv.push(("ak", s("array"))),
                    AggregateKind::Tuple => kv.push(("ak", s("tuple"))),
                    AggregateKind::Adt(d, vi, _, _, _) => {
                        kv.push(("ak", s("adt")));
                        kv.push(("adt", s(self.path(*d))));
                        let def = self.tcx.adt_def(*d);
                        kv.push(("variant", s(def.variant(*vi).name.to_string())));
                        kv.push(("vidx", J::Int(vi.as_u32() as i128)));
                        let names: Vec<J> =
                            def.variant(*vi).fields.iter().map(|f| s(f.name.to_string())).collect();
                        kv.push(("fields", J::Arr(names)));
                    }
                    AggregateKind::Closure(d, _) => {
                        kv.push(("ak", s("closure")));
                        kv.push(("closure", s(self.path(*d))));
                    }
                    AggregateKind::RawPtr(..) => kv.push(("ak", s("rawptr"))),
                    _ => kv.push(("ak", s("other"))),
                }
                let o: Vec<J> = ops.iter().map(|o| self.operand_j(owner, body, o)).collect();
                kv.push(("ops", J::Arr(o)));
                J::obj(kv)
            }
            Rvalue::CopyForDeref(p) => J::obj(vec![("k", s("use")), ("a", J::obj(vec![("cp", self.place_j(body, p))]))]),
            other => J::obj(vec![("k", s("other")), ("dbg", s(format!("{:?}", other)))]),
        }
    }

    fn bb(b: BasicBlock) -> J {
        J::Int(b.as_u32() as i128)
    }

    fn unwind_j(u: &UnwindAction) -> J {
        match u {
            UnwindAction::Cleanup(b) => Self::bb(*b),
            _ => J::Null,
        }
    }

    fn callee_j(&mut self, owner: DefId, func: &Operand<'tcx>, body: &Body<'tcx>) -> J {
        let tcx = self.tcx;
        let fty = func.ty(body, tcx);
        if let ty::FnDef(d, args) = fty.kind() {
            let mut kv = vec![
                ("def", s(self.path(*d))),
                ("args", J::Arr(args.iter().map(|a| s(pp!(format!("{}", a)))).collect())),
            ];
            if matches!(tcx.def_kind(*d), DefKind::Fn | DefKind::AssocFn) {
                kv.push(("unsafe", J::Bool(tcx.fn_sig(*d).skip_binder().safety().is_unsafe())));
            }
            let env = TypingEnv::post_analysis(tcx, owner);
            if let Some(args) = tcx.try_normalize_erasing_regions(env, ty::Unnormalized::new_wip(*args)).ok() {
                if let Ok(Some(inst)) = Instance::try_resolve(tcx, env, *d, args) {
                    kv.push(("res", s(self.path(inst.def_id()))));
                    kv.push(("res_kind", s(Self::ikind(&inst.def))));
                }
            }
            J::obj(kv)
        } else {
            J::obj(vec![("indirect", s(self.ty_str(fty)))])
        }
    }

    fn ikind(k: &InstanceKind<'tcx>) -> &'static str {
        match k {
            InstanceKind::Item(_) => "item",
            InstanceKind::Intrinsic(_) => "intrinsic",
            InstanceKind::VTableShim(_) => "vtable_shim",
            InstanceKind::ReifyShim(..) => "reify_shim",
            InstanceKind::FnPtrShim(..) => "fnptr_shim",
            InstanceKind::Virtual(..) => "virtual",
            InstanceKind::ClosureOnceShim { .. } => "once_shim",
            InstanceKind::DropGlue(..) => "drop_glue",
            InstanceKind::CloneShim(..) => "clone_shim",
            _ => "other_shim",
        }
    }

    fn body_j(&mut self, did: DefId, body: &Body<'tcx>, us: &[Span]) -> J {
        let tcx = self.tcx;
        let kind = tcx.def_kind(did);
        let mut kv: Vec<(&str, J)> = vec![("id", s(self.path(did))), ("kind", s(format!("{:?}", kind)))];
        if matches!(kind, DefKind::Fn | DefKind::AssocFn) {
            kv.push(("pub", J::Bool(tcx.visibility(did).is_public())));
            let sig = tcx.fn_sig(did).skip_binder();
            kv.push(("unsafe_fn", J::Bool(sig.safety().is_unsafe())));
            kv.push(("reachable_pub", J::Bool(did.as_local().map(|l| tcx.effective_visibilities(()).is_reachable(l)).unwrap_or(false))));
            kv.push(("external", J::Bool(!did.is_local())));
        } else {
            kv.push(("parent", s(self.path(tcx.parent(did)))));
        }
        let cattrs = tcx.codegen_fn_attrs(did);
        kv.push(("cold", J::Bool(cattrs.flags.contains(rustc_middle::middle::codegen_fn_attrs::CodegenFnAttrFlags::COLD))));
        kv.push(("inline", s(format!("{:?}", cattrs.inline))));
        let g = tcx.generics_of(did);
        let mut gnames = Vec::new();
        for i in 0..g.count() {
            gnames.push(s(g.param_at(i, tcx).name.to_string()));
        }
        kv.push(("generics", J::Arr(gnames)));
        kv.push(("span", self.span_j(body.span)));
        kv.push(("argc", J::Int(body.arg_count as i128)));
        let locals: Vec<J> = body.local_decls.iter().map(|d| self.ty_j(d.ty)).collect();
        kv.push(("locals", J::Arr(locals)));
        // user variable names
        let mut names = Vec::new();
        for vdi in &body.var_debug_info {
            if let mir::VarDebugInfoContents::Place(p) = &vdi.value {
                names.push(J::obj(vec![("name", s(vdi.name.to_string())), ("place", self.place_j(body, p))]));
            }
        }
        kv.push(("vars", J::Arr(names)));
        let mut blocks = Vec::new();
        for (_bb, data) in body.basic_blocks.iter_enumerated() {
            let mut stmts = Vec::new();
            for st in &data.statements {
                let sp = st.source_info.span;
                let mut skv: Vec<(&str, J)> = Vec::new();
                match &st.kind {
                    StatementKind::Assign(b) => {
                        skv.push(("k", s("assign")));
                        skv.push(("lhs", self.place_j(body, &b.0)));
                        skv.push(("rv", self.rvalue_j(did, body, &b.1)));
                    }
                    StatementKind::SetDiscriminant { place, variant_index } => {
                        skv.push(("k", s("setdiscr")));
                        skv.push(("lhs", self.place_j(body, place)));
                        skv.push(("vidx", J::Int(variant_index.as_u32() as i128)));
                    }
                    StatementKind::Intrinsic(i) => {
                        skv.push(("k", s("intrinsic")));
                        skv.push(("dbg", s(format!("{:?}", i))));
                    }
                    StatementKind::StorageLive(l) => {
                        skv.push(("k", s("live")));
                        skv.push(("l", J::Int(l.as_u32() as i128)));
                    }
                    StatementKind::StorageDead(l) => {
                        skv.push(("k", s("dead")));
                        skv.push(("l", J::Int(l.as_u32() as i128)));
                    }
                    _ => continue,
                }
                skv.push(("line", J::Int(self.line(sp))));
                skv.push(("exp", J::Bool(sp.from_expansion())));
                skv.push(("unsafe", J::Bool(self.in_unsafe(sp, us))));
                stmts.push(J::obj(skv));
            }
            let term = data.terminator();
            let sp = term.source_info.span;
            let mut t: Vec<(&str, J)> = Vec::new();
            match &term.kind {
                TerminatorKind::Goto { target } => {
                    t.push(("k", s("goto")));
                    t.push(("target", Self::bb(*target)));
                }
                TerminatorKind::SwitchInt { discr, targets } => {
                    t.push(("k", s("switch")));
                    t.push(("discr", self.operand_j(did, body, discr)));
                    t.push(("ty", s(self.ty_str(discr.ty(body, tcx)))));
                    let mut arms = Vec::new();
                    for (v, b) in targets.iter() {
                        arms.push(J::Arr(vec![J::Int(v as i128), Self::bb(b)]));
                    }
                    t.push(("arms", J::Arr(arms)));
                    t.push(("otherwise", Self::bb(targets.otherwise())));
                }
                TerminatorKind::Return => t.push(("k", s("return"))),
                TerminatorKind::Unreachable => t.push(("k", s("unreachable"))),
                TerminatorKind::UnwindResume => t.push(("k", s("resume"))),
                TerminatorKind::UnwindTerminate(_) => t.push(("k", s("terminate"))),
                TerminatorKind::Drop { place, target, unwind, .. } => {
                    t.push(("k", s("drop")));
                    t.push(("place", self.place_j(body, place)));
                    let pt = place.ty(body, tcx).ty;
                    t.push(("ty", s(self.ty_str(pt))));
                    t.push(("target", Self::bb(*target)));
                    t.push(("unwind", Self::unwind_j(unwind)));
                }
                TerminatorKind::Call { func, args, destination, target, unwind, fn_span, .. } => {
                    t.push(("k", s("call")));
                    t.push(("callee", self.callee_j(did, func, body)));
                    if !matches!(func.ty(body, tcx).kind(), ty::FnDef(..)) {
                        t.push(("func", self.operand_j(did, body, func)));
                    }
                    let a: Vec<J> = args.iter().map(|a| self.operand_j(did, body, &a.node)).collect();
                    t.push(("args", J::Arr(a)));
                    t.push(("dest", self.place_j(body, destination)));
                    t.push(("target", target.map(Self::bb).unwrap_or(J::Null)));
                    t.push(("unwind", Self::unwind_j(unwind)));
                    t.push(("fn_line", J::Int(self.line(*fn_span))));
                }
                TerminatorKind::TailCall { func, args, .. } => {
                    t.push(("k", s("tailcall")));
                    t.push(("callee", self.callee_j(did, func, body)));
                    let a: Vec<J> = args.iter().map(|a| self.operand_j(did, body, &a.node)).collect();
                    t.push(("args", J::Arr(a)));
                }
                TerminatorKind::Assert { cond, expected, msg, target, unwind } => {
                    t.push(("k", s("assert")));
                    t.push(("cond", self.operand_j(did, body, cond)));
                    t.push(("expected", J::Bool(*expected)));
                    let (mk, ops): (&str, Vec<&Operand<'tcx>>) = match &**msg {
                        mir::AssertKind::BoundsCheck { len, index } => ("BoundsCheck", vec![len, index]),
                        mir::AssertKind::Overflow(op, a, b) => {
                            t.push(("op", s(format!("{:?}", op))));
                            ("Overflow", vec![a, b])
                        }
                        mir::AssertKind::OverflowNeg(a) => ("OverflowNeg", vec![a]),
                        mir::AssertKind::DivisionByZero(a) => ("DivisionByZero", vec![a]),
                        mir::AssertKind::RemainderByZero(a) => ("RemainderByZero", vec![a]),
                        _ => ("Other", vec![]),
                    };
                    t.push(("msg", s(mk)));
                    let o: Vec<J> = ops.into_iter().map(|o| self.operand_j(did, body, o)).collect();
                    t.push(("ops", J::Arr(o)));
                    t.push(("target", Self::bb(*target)));
                    t.push(("unwind", Self::unwind_j(unwind)));
                }
                TerminatorKind::FalseEdge { real_target, .. } => {
                    t.push(("k", s("goto")));
                    t.push(("target", Self::bb(*real_target)));
                }
                TerminatorKind::FalseUnwind { real_target, .. } => {
                    t.push(("k", s("goto")));
                    t.push(("target", Self::bb(*real_target)));
                }
                other => {
                    t.push(("k", s("other")));
                    t.push(("dbg", s(format!("{:?}", other))));
                }
            }
            t.push(("line", J::Int(self.line(sp))));
            t.push(("exp", J::Bool(sp.from_expansion())));
            t.push(("unsafe", J::Bool(self.in_unsafe(sp, us))));
            blocks.push(J::obj(vec![
                ("stmts", J::Arr(stmts)),
                ("term", J::obj(t)),
                ("cleanup", J::Bool(data.is_cleanup)),
            ]));
        }
        kv.push(("blocks", J::Arr(blocks)));
        kv.push(("n_unsafe_blocks", J::Int(us.len() as i128)));
        J::obj(kv)
    }

    fn line(&self, sp: Span) -> i128 {
        let sm = self.tcx.sess.source_map();
        sm.lookup_char_pos(sp.source_callsite().lo()).line as i128
    }

    // ---- instance call graph ---------------------------------------------------------
    fn inst_key(&self, i: &Instance<'tcx>) -> String {
        let a: Vec<String> = i.args.iter().map(|a| pp!(format!("{}", a))).collect();
        format!("{}<{}>", self.path(i.def_id()), a.join(", "))
    }

    fn instance_graph(&mut self, roots: &[DefId]) -> (J, Vec<DefId>) {
        let mut ext: Vec<DefId> = Vec::new();
        let tcx = self.tcx;
        // nodes are keyed by (root env owner is NOT part of the key: args already carry params)
        let mut nodes: BTreeMap<String, J> = BTreeMap::new();
        let mut rootkeys = Vec::new();
        for &r in roots {
            let env = TypingEnv::post_analysis(tcx, r);
            let args = ty::GenericArgs::identity_for_item(tcx, r);
            let inst = Instance::new_raw(r, args);
            rootkeys.push(s(self.inst_key(&inst)));
            let mut queue: VecDeque<(Instance<'tcx>, u32)> = VecDeque::new();
            let mut seen: HashSet<Instance<'tcx>> = HashSet::new();
            queue.push_back((inst, 0));
            seen.insert(inst);
            while let Some((cur, outside)) = queue.pop_front() {
                let key = self.inst_key(&cur);
                if nodes.contains_key(&key) {
                    // already expanded from another root with identical args; its callees are identical
                    continue;
                }
                let did = cur.def_id();
                let has_mir = matches!(cur.def, InstanceKind::Item(_)) && tcx.is_mir_available(did)
                    && matches!(tcx.def_kind(did), DefKind::Fn | DefKind::AssocFn | DefKind::Closure);
                let mut calls = Vec::new();
                if has_mir && !did.is_local() && !ext.contains(&did) {
                    ext.push(did);
                }
                if has_mir {
                    let body = tcx.optimized_mir(did);
                    for (bb, data) in body.basic_blocks.iter_enumerated() {
                        let term = data.terminator();
                        let (func, is_drop) = match &term.kind {
                            TerminatorKind::Call { func, .. } => (Some(func), false),
                            TerminatorKind::TailCall { func, .. } => (Some(func), false),
                            TerminatorKind::Drop { .. } => (None, true),
                            _ => continue,
                        };
                        if is_drop {
                            continue;
                        }
                        let func = func.unwrap();
                        let fty = func.ty(body, tcx);
                        let fty = cur.instantiate_mir_and_normalize_erasing_regions(
                            tcx,
                            env,
                            ty::EarlyBinder::bind(fty),
                        );
                        let mut ckv: Vec<(&str, J)> = vec![("bb", Self::bb(bb))];
                        if let ty::FnDef(cd, cargs) = fty.kind() {
                            ckv.push(("def", s(self.path(*cd))));
                            match Instance::try_resolve(tcx, env, *cd, cargs) {
                                Ok(Some(ci)) => {
                                    let mut target = ci;
                                    let mut via = Self::ikind(&ci.def);
                                    if let InstanceKind::ClosureOnceShim { .. } = ci.def {
                                        // resolve to the closure body itself
                                        let self_ty = cargs.type_at(0);
                                        if let ty::Closure(cdid, cl_args) = self_ty.kind() {
                                            target = Instance::new_raw(*cdid, cl_args);
                                            via = "once_shim";
                                        }
                                    }
                                    if let InstanceKind::FnPtrShim(..) = ci.def {
                                        // calling a fn item through FnOnce/FnMut/Fn: resolve the item itself
                                        let self_ty = cargs.type_at(0);
                                        if let ty::FnDef(fd, fargs) = self_ty.kind() {
                                            ckv.push(("fn_item", s(self.path(*fd))));
                                            if let Ok(Some(fi)) = Instance::try_resolve(tcx, env, *fd, fargs) {
                                                target = fi;
                                                via = "fn_item";
                                            } else {
                                                ckv.push(("leaf", s(pp!(format!("{}", self_ty)))));
                                                calls.push(J::obj(ckv));
                                                continue;
                                            }
                                        }
                                    }
                                    if let DefKind::Ctor(..) = tcx.def_kind(target.def_id()) {
                                        // tuple-struct / enum-variant constructor used as a function
                                        let vdid = tcx.parent(target.def_id());
                                        let adid = tcx.parent(vdid);
                                        if let DefKind::Variant = tcx.def_kind(vdid) {
                                            ckv.push(("ctor_adt", s(self.path(adid))));
                                            ckv.push(("ctor_variant", s(tcx.item_name(vdid).to_string())));
                                        } else {
                                            ckv.push(("ctor_adt", s(self.path(vdid))));
                                            ckv.push(("ctor_variant", s("")));
                                        }
                                    }
                                    ckv.push(("to", s(self.inst_key(&target))));
                                    ckv.push(("to_def", s(self.path(target.def_id()))));
                                    ckv.push(("via", s(via)));
                                    let local_crate = self.want_walk(target.def_id());
                                    // library generics instantiated with a closure / fn item of the
                                    // workspace (Result::map(|x| ..), Option::map, ...) are followed a
                                    // few levels so that the closure call inside them is visible
                                    let hof = !local_crate && outside < 3 && self.mentions_local_fn(target.args);
                                    let walk = matches!(target.def, InstanceKind::Item(_))
                                        && tcx.is_mir_available(target.def_id())
                                        && matches!(tcx.def_kind(target.def_id()), DefKind::Fn | DefKind::AssocFn | DefKind::Closure)
                                        && (local_crate || hof);
                                    ckv.push(("walked", J::Bool(walk)));
                                    if walk && seen.insert(target) {
                                        queue.push_back((target, if local_crate { 0 } else { outside + 1 }));
                                    }
                                }
                                _ => {
                                    ckv.push(("leaf", s(pp!(format!("{}", fty)))));
                                }
                            }
                        } else {
                            ckv.push(("leaf", s(format!("indirect:{}", self.ty_str(fty)))));
                        }
                        calls.push(J::obj(ckv));
                    }
                }
                nodes.insert(
                    key.clone(),
                    J::obj(vec![
                        ("key", s(key)),
                        ("def", s(self.path(did))),
                        ("local", J::Bool(did.is_local())),
                        ("crate", s(tcx.crate_name(did.krate).to_string())),
                        ("has_mir", J::Bool(has_mir)),
                        ("calls", J::Arr(calls)),
                    ]),
                );
            }
        }
        (J::obj(vec![("roots", J::Arr(rootkeys)), ("nodes", J::Arr(nodes.into_values().collect()))]), ext)
    }

    fn mentions_local_fn(&self, args: GenericArgsRef<'tcx>) -> bool {
        for a in args.iter() {
            if let Some(t) = a.as_type() {
                for inner in t.walk() {
                    if let Some(it) = inner.as_type() {
                        match it.kind() {
                            ty::Closure(d, _) | ty::FnDef(d, _) => {
                                if self.want_walk(*d) {
                                    return true;
                                }
                            }
                            _ => {}
                        }
                    }
                }
            }
        }
        false
    }

    /// walk into the workspace crates only (flussab*), std/num_traits/itoap are leaves
    fn want_walk(&self, d: DefId) -> bool {
        let n = self.tcx.crate_name(d.krate).to_string();
        n.starts_with("flussab")
    }
}

#[allow(dead_code)]
fn _unused(_: HashMap<u8, u8>, _: GenericArgsRef<'_>) {}
