#!/usr/bin/env python3
"""regenerates rules/baseline.json: the functions (with signatures) and ADT layouts of the tree the rules were
confirmed against.  Run only when the rules have been re-confirmed against a new decomposition of /repo."""
import json, os, sys
H = os.path.dirname(os.path.abspath(__file__))
sys.path.insert(0, H)
from rules import facts as F, inline
d, secs = F.build_facts(sys.argv[1] if len(sys.argv) > 1 else "/repo")
raw = {c: json.load(open(os.path.join(d, "facts", c + ".json"))) for c in F.CRATES}
b = inline.make_baseline(raw)
json.dump(b, open(os.path.join(H, "rules", "baseline.json"), "w"), indent=0, sort_keys=True)
print(len(b["fns"]), "functions,", len(b["adts"]), "adts")
import shutil; shutil.rmtree(d, ignore_errors=True)
