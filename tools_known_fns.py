#!/usr/bin/env python3
"""regenerates rules/known_fns.json: the workspace functions (not closures) of the tree the rules were confirmed against.
Run only when the rules have been re-confirmed against a new function decomposition of /repo."""
import json, os, sys
H = os.path.dirname(os.path.abspath(__file__))
sys.path.insert(0, H)
from rules import facts as F
from rules.common import norm
f = F.load(sys.argv[1] if len(sys.argv) > 1 else "/repo", normalise=False)
ids = sorted(set(norm(i) for i, fn in f.fns.items() if fn.crate not in ("ext", "promoted") and fn.kind in ("Fn", "AssocFn")))
json.dump(ids, open(os.path.join(H, "rules", "known_fns.json"), "w"), indent=0)
print(len(ids), "functions")
f.cleanup()
