"""C10 — streaming uses memory bounded by chunk size and largest item, not input size.

Peak heap is a runtime quantity; decided here are structural necessary conditions:
R1 per-item buffers are reset: every growth of a buffer that outlives the call (a field, a reference
   parameter, a captured buffer) in code reachable from a streaming parser entry point is dominated, in
   its function, by a clear() of the same buffer.
R2 compaction is reachable and complete: request_more decides on live operands whether to realign, the
   realign arm moves the window to offset 0, and the buffer grows only when window + chunk does not fit.
R3 no allocation is sized by a number the input merely declares (shared with C05-R5; reported there).
"""
from . import absint as A
from .common import norm, family
from .cfg import cfg
from .sym import sym, short, mentions, subexprs
from . import util, cg, guards
from .c04 import api_roots, takes_reader, FORMAT_CRATES, shape_of

GROW = (
    "alloc::vec::Vec::push",
    "alloc::vec::Vec::extend_from_slice",
    "alloc::vec::Vec::insert",
    "alloc::vec::Vec::append",
    "alloc::vec::Vec::extend",
    "alloc::vec::Vec::resize",
    "alloc::string::String::push_str",
    "alloc::string::String::push",
    "alloc::string::String::insert_str",
    "std::collections::hash::map::HashMap::insert",
    "alloc::collections::vec_deque::VecDeque::push_back",
)
# any growing method of a std collection counts, whatever the collection (the list above is what the tree uses today)
GROW_MODS = ("alloc::vec::", "alloc::string::", "alloc::collections::", "std::collections::", "hashbrown::")
GROW_NAMES = ("push", "push_str", "push_back", "push_front", "insert", "insert_str", "extend", "extend_from_slice", "extend_from_within", "append", "resize", "resize_with", "entry", "get_or_insert_with", "replace", "push_within_capacity")


def is_grow(cn):
    return cn in GROW or (cn.startswith(GROW_MODS) and cn.rsplit("::", 1)[-1] in GROW_NAMES)


CLEAR = ("alloc::vec::Vec::clear", "alloc::string::String::clear", "alloc::vec::Vec::truncate", "std::collections::hash::map::HashMap::clear", "std::collections::hash::set::HashSet::clear", "alloc::collections::vec_deque::VecDeque::clear", "alloc::collections::btree::map::BTreeMap::clear", "alloc::collections::btree::set::BTreeSet::clear")
WHOLE_FILE = ("Parser::parse", "sat_solver_log::parse_log")


def strip_bb(e):
    if not isinstance(e, tuple):
        return e
    if e and e[0] == "call":
        return ("call", 0, norm(e[2]), tuple(strip_bb(a) for a in e[3]))
    return tuple(strip_bb(x) if isinstance(x, tuple) else x for x in e)


def root_local(e):
    while isinstance(e, tuple) and e[0] in ("f", "v", "idx", "cast"):
        e = e[1] if e[0] != "cast" else e[2]
    if isinstance(e, tuple) and e[0] == "call" and e[3]:
        return root_local(e[3][0])
    if isinstance(e, tuple) and e[0] == "l":
        return e[1]
    return None


def run_r1(ctx, rule):
    facts = ctx.facts
    roots = [fn.id for r, fn in api_roots(facts) if takes_reader(fn) and not norm(fn.id).endswith(WHOLE_FILE)]
    reach = cg.def_reach(facts, roots)
    # whole-file builders are exempt by name even when reachable (they are not streaming interfaces)
    n = 0
    for fid in sorted(reach):
        fn = facts.fns.get(fid)
        if fn is None or fn.crate not in FORMAT_CRATES:
            continue
        nid = norm(fid)
        if any(w in nid for w in WHOLE_FILE):
            continue
        sy = sym(fn)
        c = cfg(fn)
        clears = []
        for bb, t in fn.calls():
            cn = util.cname(t)
            if cn in CLEAR and t["args"]:
                if cn.endswith("truncate"):
                    a1 = sy.operand(t["args"][1]) if len(t["args"]) > 1 else None
                    if a1 != ("c", 0):
                        continue
                clears.append((bb, strip_bb(sy.operand(t["args"][0]))))
        ordn = {}
        for bb, t in fn.calls():
            cn = util.cname(t)
            if not is_grow(cn) or not t["args"]:
                continue
            recv = strip_bb(sy.operand(t["args"][0]))
            rl = root_local(recv)
            if rl is not None and not sy.is_arg(rl):
                lt = fn.locals[rl]
                if lt.get("refs", 0) == 0 and not ("closure" in lt):
                    # a collection owned by this function's frame: freed on return
                    continue
            n += 1
            o = ordn.get((cn, recv), 0)
            ordn[(cn, recv)] = o + 1
            dom = [cb for cb, ce in clears if ce == recv and c.dominates(cb, bb) and cb != bb]
            rule.check(
                bool(dom),
                "%s/%s/%s/#%d" % (nid, short(cn), sy.show(sy.operand(t["args"][0])).replace(" ", ""), o),
                "%s grows %s only after clearing it in the same call (clear at %s)" % (short(nid), sy.show(sy.operand(t["args"][0])), fn.loc(dom[0]) if dom else "none"),
                fn.loc(bb),
            )
    rule.note("growth_sites", n)
    rule.note("functions_reachable", len(reach))
    # the known per-item buffers must exist (anchor)
    for adt, field in (("flussab_cnf::cnf::Parser", "lit_buf"), ("flussab_cnf::wcnf::Parser", "lit_buf"), ("flussab_cnf::gcnf::Parser", "lit_buf"), ("flussab_btor2::parser::Parser", "node_buf"), ("flussab_btor2::parser::Parser", "const_buf"), ("flussab_btor2::parser::Parser", "symbol_buf")):
        a = facts.adts.get(adt)
        ok = a is not None and any(f["name"] == field for v in a["variants"] for f in v["fields"])
        if not ok:
            rule.bad("%s.%s/missing" % (adt, field), "anchor missing: per-item buffer %s.%s" % (adt, field), kind="anchor-missing")
    # and each next_clause clears its literal buffer before anything else can fail
    for m in ("cnf", "wcnf", "gcnf"):
        fid = [i for i in facts.fns if norm(i) == "flussab_cnf::%s::Parser::next_clause" % m]
        if not fid:
            rule.bad("%s/next_clause-missing" % m, "anchor missing", kind="anchor-missing")
            continue
        fn = facts.fns[fid[0]]
        sy = sym(fn)
        cl = [bb for bb, t in fn.calls() if util.cname(t) in CLEAR and strip_bb(sy.operand(t["args"][0])) == ("f", ("l", 1), "lit_buf")]
        c = cfg(fn)
        ok = bool(cl) and all(c.dominates(cl[0], x) for x in c.exits)
        rule.check(ok, "%s::next_clause/clears-lit_buf" % m, "%s::next_clause clears lit_buf on every path" % m, fn.loc(cl[0]) if cl else fn.loc())


def run_r2(ctx, rule):
    facts = ctx.facts
    fid = [i for i in facts.fns if norm(i) == A.DR + "request_more"]
    if not fid:
        rule.bad("request_more/missing", "anchor missing", kind="anchor-missing")
        return
    fn = facts.fns[fid[0]]
    sy = sym(fn)
    c = cfg(fn)
    cw = [bb for bb, t in fn.calls() if util.cname(t).endswith("copy_within")]
    if not cw:
        rule.bad("request_more/no-copy_within", "request_more no longer compacts the buffer (copy_within)", fn.loc(), kind="anchor-missing")
        return
    cwb = cw[0]
    # the guard that dominates the compaction compares pos_in_buf with a multiple of chunk_size
    # (the decision may be carried to the compaction by a flag or an Option: `let realign = ..; if realign`,
    #  `let by = if .. { Some(pos) } else { None }; if let Some(pos) = by`)
    g = None
    for sblk, fa in guards.decision_facts(fn, cwb):
        if fa[0] == "cmp" and fa[1] in ("Gt", "Ge", "Lt", "Le") and mentions(fa, lambda x: x == ("f", ("l", 1), "pos_in_buf")) and mentions(fa, lambda x: x == ("f", ("l", 1), "chunk_size")):
            g = (sblk, fa)
    # ... and on nothing else: any further condition on the reader's state (the mark, the window length, ..) could
    # keep the cursor from ever being realigned
    foreign = set()
    for sblk, fa in guards.decision_facts(fn, cwb):
        e = fa[1] if fa[0] == "bool" else fa
        mentions(e, lambda x: x[0] == "f" and x[1] == ("l", 1) and x[2] not in ("pos_in_buf", "chunk_size", "complete") and not foreign.add(x[2]) and False)
    rule.check(not foreign, "request_more/realign-unconditional", "compaction depends on the consumed amount only (further reader state in the decision: %s)" % (sorted(foreign) or "none"), fn.loc(cwb))
    rule.check(bool(g), "request_more/realign-guard", "compaction is decided by comparing pos_in_buf with a multiple of chunk_size (%s)" % (guards.show_fact(fn, g[1]) if g else "not found"), fn.loc(cwb))
    # every read of the source passes the compaction decision first: a second refill loop that reads without it (a
    # helper that "only fills", used by one of the cold paths) lets the consumed prefix pile up for that consumer
    nread = 0
    for f2 in facts.fns.values():
        if f2.crate != "flussab" or not norm(f2.id).startswith("flussab::deferred_reader"):
            continue
        for rb, t2 in f2.calls():
            cn2 = norm(util.cname(t2))
            if not (cn2.endswith("::read") and ("io::Read" in cn2 or "std::io" in cn2)):
                continue
            nread += 1
            dec = None
            if f2 is fn and g is not None:
                dec = g[0]
            okd = f2 is fn and dec is not None and (cfg(f2).dominates(dec, rb))
            rule.check(okd, "%s/read-behind-compaction-decision" % norm(f2.id).rsplit("::", 1)[-1], "the source is read only behind the test that decides whether the consumed prefix is dropped (%s)" % ("in request_more" if f2 is fn else "read in %s, which never compacts" % short(norm(f2.id))), f2.loc(rb))
    if not nread:
        rule.bad("request_more/no-read", "anchor missing: no Read::read call in the reader", kind="anchor-missing")
    # destination 0 and window source
    t = fn.term(cwb)
    dest = sy.operand(t["args"][2]) if len(t["args"]) > 2 else None
    rule.check(dest == ("c", 0), "request_more/copy-dest", "the window is moved to offset 0", fn.loc(cwb))
    # pos_in_buf = 0 after the copy on the realign arm
    st0 = []
    for (ff, bi, si, name) in util.field_stores(facts, "flussab::deferred_reader::DeferredReader"):
        if ff is fn and name == "pos_in_buf":
            s = fn.blocks[bi]["stmts"][si]
            if sy.rvalue(s["rv"]) == ("c", 0):
                st0.append(bi)
    ok = any(c.dominates(cwb, b) or b == cwb for b in st0)
    rule.check(ok, "request_more/pos-reset", "pos_in_buf is reset to 0 after the window was moved", fn.loc(st0[0]) if st0 else fn.loc(cwb))
    # the resize is guarded by buf.len() < target_end
    rs = [bb for bb, t2 in fn.calls() if util.cname(t2).endswith("Vec::resize")]
    for rb in rs:
        g2 = guards.holds(fn, rb, lambda fa: fa[0] == "cmp" and fa[1] in ("Lt", "Gt", "Le", "Ge") and mentions(fa, lambda x: x[0] == "call" and norm(x[2]).endswith("Vec::len")))
        # `resize(len.max(target), 0)` never shortens the buffer either: the test is inside the `max`
        tgt = sy.operand(fn.term(rb)["args"][1]) if len(fn.term(rb)["args"]) > 1 else None
        from . import scanidx as _SI
        tgt = _SI.peel(sy, tgt) if tgt is not None else None
        by_max = tgt is not None and tgt[0] == "call" and norm(tgt[2]).rsplit("::", 1)[-1] == "max" and any(_SI.peel(sy, a)[0] == "call" and norm(_SI.peel(sy, a)[2]).endswith("Vec::len") for a in tgt[3])
        rule.check(bool(g2) or by_max, "request_more/resize-guard", "the buffer grows only when window + chunk does not fit (%s)" % (guards.show_fact(fn, g2[1]) if g2 else "max with the current length" if by_max else "unguarded resize"), fn.loc(rb))
    if not rs:
        rule.bad("request_more/no-resize", "anchor missing: Vec::resize in request_more", kind="anchor-missing")


# ---- R3 -----------------------------------------------------------------------------------------
LF, CR = 1 << 10, 1 << 13
# one item by the property's own definition ("largest single item (clause, line, comment)"): the AIGER comment
# section is the rest of the file
ITEM_SCANS = {
    "flussab_aiger::token::remaining_file_content": "the AIGER comment section is a single item: the rest of the file",
}


def _prim_item_scan(eng, fn, bb, t, env, state, args, where, n):
    return [(A.TOP, eng.havoc(env, args), state)]


class LineAhead(A.Auto):
    """(line ends looked at since the cursor last moved, the look-ahead answer at hand is already counted)"""

    name = "line-ahead"
    extra_prims = {k: _prim_item_scan for k in ITEM_SCANS}

    def __init__(self):
        self.viol = {}
        self.eng = None
        self.n_lf = 0

    def initial(self):
        return (0, (), None)

    def key(self, state):
        return (state[0], state[1], state[2] is not None)

    @staticmethod
    def _is_lf(av):
        names = dict(av[2]) if av[0] == "e" else {}
        p = names.get("Some")
        if p is None or p[0] != "byte":
            return False
        m = p[1]
        return bool(m & LF) and not (m & ~(LF | CR))

    def event(self, state, ev, where):
        count, counted, site = state
        if ev[0] == "prim":
            if ev[1] in ("advance",):
                return (0, (), site)
            if ev[1] == "look":
                # `counted` holds the tags of the answers whose line end was already counted; an answer without a tag
                # of its own (offset neither a constant nor a plain variable) is a new one with every request
                tag = ev[3] if len(ev) > 3 else "look"
                if "@" not in tag:
                    return (count, tuple(x for x in counted if x != "look"), site)
                return state
            return state
        if ev[0] == "narrow" and ev[1] == "look":
            if not self._is_lf(ev[2]):
                return state
            if len(ev) == 3:
                return state  # the same, already narrowed answer replayed by a second look at the same offset
            tag = ev[3]
            if tag in counted:
                return state
            counted = tuple(sorted(set(counted) | {tag}))[-3:]
            self.n_lf += 1
            if count >= 1 and site is None:
                fn = where[1]
                chain = [short(self.eng.facts.inst[k]["def"]) for k in self.eng.stack] if self.eng else []
                site = (short(norm(fn.id)), fn.loc(where[2]), " -> ".join(chain))
            return (min(count + 1, 2), counted, site)
        return state


def run_r3(ctx, rule):
    """look-ahead stays within one line: the reader keeps everything from the cursor on, so a scan that passes a
    second line end before the cursor moved keeps an unbounded number of (bounded) lines in memory"""
    facts = ctx.facts
    from .c08 import token_fns
    from . import scan
    roots = []
    for f in token_fns(facts):
        try:
            roots.append((scan.root_key(facts, f.id), f))
        except Exception:
            pass
    for r, fn in api_roots(facts):
        if takes_reader(fn) and not norm(fn.id).endswith(WHOLE_FILE):
            roots.append((r, fn))
    n = 0
    for r, fn in sorted(set(roots), key=lambda x: x[1].id):
        nid = norm(fn.id)
        if nid in ITEM_SCANS:
            rule.ok("%s scans one item by definition" % short(nid), fn.loc(), ITEM_SCANS[nid])
            continue
        auto = LineAhead()
        eng = A.Engine(facts, auto)
        auto.eng = eng
        try:
            res = eng.summary(r, auto.initial(), tuple(A.TOP for _ in range(fn.argc)))
        except (A.Recursion, A.Imprecise) as e:
            rule.bad("%s/engine" % nid, "analysis failed: %r" % e, fn.loc(), kind="unmodelled-idiom")
            continue
        n += 1
        # only returns after which streaming goes on matter: an error ends the parse (its message may quote a bounded
        # stretch of input), so error shapes and functions that build the error value are not obliged
        ret = fn.locals[0]
        builds_error = "Error" in ret.get("s", "") and ret.get("adt") not in (A.RESULT, A.PARSED)
        sites = []
        for av, st in res:
            if st[2] is None or builds_error:
                continue
            if ret.get("adt") in (A.RESULT, A.PARSED):
                shapes = shape_of(av)
                if all(sh.startswith("Err") or sh == "Res(Err)" for sh in shapes):
                    continue
            sites.append(st[2])
        if sites:
            where_fn, loc, chain = sorted(sites)[0]
            rule.bad("%s/second-line-end-ahead" % nid, "%s can go on after looking at a second line end before the cursor moved past the first (in %s): lines pile up in the buffer" % (short(nid), where_fn), loc, path=["call chain: " + chain])
        else:
            rule.ok("%s never has more than one line end between the cursor and its look-ahead" % short(nid), fn.loc())
    rule.note("roots", n)

def run_r6(ctx, rule):
    """Whatever is looked at stays in the reader's buffer until the cursor moves past it.  Scans that look ahead in a
    loop are the token functions (each scans one item, C10-R3 bounds them by a line); a loop in *parser-level* code
    that looks ahead at a varying offset walks over many items without consuming them (skipping a section by scanning
    it and advancing once at the end keeps the whole section in memory)."""
    facts = ctx.facts
    looks = (A.DR + "request_byte_at_offset", A.DR + "request_byte", A.DR + "request")
    n_tok = 0
    for fn in sorted(facts.fns.values(), key=lambda x: x.id):
        if fn.crate not in FORMAT_CRATES:
            continue
        c = cfg(fn)
        loops = c.loops()
        if not loops:
            continue
        sy = sym(fn)
        nid = norm(fn.id)
        for bb, t in fn.calls():
            if norm(util.cname(t)) not in looks or not any(bb in body for body in loops.values()):
                continue
            off = sy.operand(t["args"][1]) if len(t["args"]) > 1 else ("c", 0)
            if off[0] == "c":
                continue
            if "::token::" in nid:
                n_tok += 1
                continue
            advs = [b2 for b2, t2 in fn.calls() if norm(util.cname(t2)).startswith(A.DR + "advance") and any(bb in body and b2 in body for body in loops.values())]
            rule.check(bool(advs), "%s/look-ahead-loop" % family(nid), "%s looks ahead at the varying offset %s inside a loop%s" % (short(nid), sy.show(off)[:40], " that also advances" if advs else " that never advances: everything it walks over stays buffered (a token function scans one item; this is parser-level code)"), fn.loc(bb))
    rule.check(n_tok >= 8, "control/token-scans", "positive control: the look-ahead loops of the token modules are seen (%d sites)" % n_tok)

def run_r7(ctx, rule):
    """The size of the buffer follows the chunk size (`resize(window end + chunk_size)`): the bound "a few chunks" is
    a bound only if the chunk size is what the caller configured.  Decided: `chunk_size` is stored by its public
    setter and set by the constructor, nowhere else (a reader that adapts its own read size grows with the stream)."""
    facts = ctx.facts
    DRT = "flussab::deferred_reader::DeferredReader"
    n = 0
    for f, bi, si, name in util.field_stores(facts, DRT):
        if name != "chunk_size":
            continue
        n += 1
        nid = norm(f.id)
        rule.check(nid == A.DR + "set_chunk_size", "%s/stores-chunk_size" % family(nid), "chunk_size is stored by %s%s" % (short(nid), "" if nid == A.DR + "set_chunk_size" else ": the read size, and with it the buffer, no longer follows the configuration alone"), f.loc(bi))
    if n == 0:
        rule.bad("chunk_size/setter", "anchor missing: no store to chunk_size (set_chunk_size expected)", kind="anchor-missing")


def run_r9(ctx, rule):
    """Binary AIGER has no lines: an and-gate entry is two 7-bit encoded numbers, and what bounds the look-ahead there
    is the encoder's maximal length (10 groups for 64 bits).  `binary_uint` looks ahead group by group without
    consuming; the loop must give up at a constant number of groups *inside* the loop - a test behind the loop lets
    a run of continuation bytes of any length be buffered first."""
    from .c05 import counter_bound
    facts = ctx.facts
    ids = [i for i in facts.fns if norm(i) == "flussab_aiger::token::binary_uint"]
    if not ids:
        rule.bad("binary_uint/missing", "anchor missing: flussab_aiger::token::binary_uint", kind="anchor-missing")
        return
    fn = facts.fns[ids[0]]
    c = cfg(fn)
    loops = c.loops()
    sy = sym(fn)
    n = 0
    for bb, t in fn.calls():
        if norm(util.cname(t)) not in (A.DR + "request_byte_at_offset", A.DR + "request") or not any(bb in body for body in loops.values()):
            continue
        off = sy.operand(t["args"][1])
        if off[0] == "c":
            continue
        n += 1
        cb = counter_bound(fn, bb, off)
        rule.check(cb is not None and cb[0] <= 64, "binary_uint/look-ahead-bounded", "binary_uint looks ahead at offset %s: %s" % (sy.show(off)[:30], "at most %d (%s)" % cb if cb else "no constant bound inside the loop (a run of continuation bytes is buffered whole before it is rejected)"), fn.loc(bb))
    if not n:
        rule.bad("binary_uint/no-loop", "binary_uint no longer looks ahead in a loop (unrecognised form)", fn.loc(), kind="unmodelled-idiom")


def run(ctx):
    r1 = ctx.rule("C10-R1", "every growth of a buffer that outlives the call is dominated by a clear() of the same buffer (streaming entry points)", floor=9)
    run_r1(ctx, r1)
    r2 = ctx.rule("C10-R2", "compaction in request_more is decided on live operands, moves the window to 0, and the buffer grows only on demand", floor=5)
    run_r2(ctx, r2)
    r3 = ctx.rule("C10-R3", "look-ahead stays within one line: no second line end is looked at before the cursor moved past the first", floor=60)
    run_r3(ctx, r3)
    # R4: no allocation is sized by a number the input merely declares (the rule of C05-R5, run here too: a
    # reserved-but-never-filled buffer is exactly the memory that does not depend on the data actually read)
    from . import c05, taint as T
    r4 = ctx.rule("C10-R4", "no allocation or reservation is sized by a number the input merely declares (shared with C05-R5)", floor=1)
    c05.run_r5(ctx, r4, T.Taint(ctx.facts))
    r9 = ctx.rule("C10-R9", "binary numbers: the look-ahead of the 7-bit decoder is bounded by a constant number of groups, tested inside its loop", floor=1)
    run_r9(ctx, r9)
    r7 = ctx.rule("C10-R7", "the chunk size is what the caller configured: stored by its setter and the constructor only", floor=1)
    run_r7(ctx, r7)
    r6 = ctx.rule("C10-R6", "look-ahead loops at a varying offset live in the token functions only (one item each); parser-level loops consume as they go", floor=1)
    run_r6(ctx, r6)
    # R8: refills happen on demand of a look-ahead only: code outside the reader does not call request_more / request /
    # set_chunk_size on its own initiative (a scanner that refills before it looked keeps a chunk more per call): C01-R2
    from .c01 import run_r2 as c01_r2
    r8 = ctx.rule("C10-R8", "request_more / request / set_chunk_size are not called from parser or scanner code (shared with C01-R2)", floor=1)
    c01_r2(ctx, r8)
    # R5: the stack is memory too: a parser that calls itself per skipped line or per item grows with the input
    from .c05 import run_r1 as c05_r1
    r5 = ctx.rule("C10-R5", "no recursion among the workspace's function instances: stack use does not grow with the number of items (shared with C05-R1)", floor=1)
    c05_r1(ctx, r5)
    ctx.assume("peak heap, allocator behaviour and the constants of the bound are not decided")
    return "other", "necessary structural conditions for bounded streaming memory: buffer reset discipline, reachable and complete compaction, look-ahead bounded by a line", {}
