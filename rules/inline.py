"""Fact normalisation: private helper functions the rules do not know are inlined back into their callers.

The rules are anchored on the function decomposition they were confirmed against (`rules/baseline.json`, the
workspace functions of the tree the rules were written for).  Extracting part of such a function into a new private
helper is behaviour preserving, but moves code out of the anchor.  Before any rule runs, every call of a workspace
function that is
  * not in the baseline list, * not part of the public API, * not an `unsafe fn`, * not a closure, * not recursive, * has MIR,
is replaced by the callee's MIR (locals and blocks renumbered, arguments assigned to the parameters, `return`
turned into an assignment of the destination and a jump to the call's target); the instance call graph gets
the callee instance's edges at the new block numbers.  The helper itself stays in the fact base (rules that
enumerate all functions still see it).  Functions the baseline knows keep exactly today's treatment.
"""
import copy, json, os

from .common import norm

HERE = os.path.dirname(os.path.abspath(__file__))
MAX_BLOCKS = 200
MAX_ROUNDS = 4

_BLOCK_KEYS = ("target", "unwind", "otherwise")


def baseline():
    """{"fns": {norm id: [kind, pub, [types of _0.._argc]]}, "adts": {path: [[variant name, [[field, ty, pub], ..]], ..]}}"""
    p = os.path.join(HERE, "baseline.json")
    try:
        return json.load(open(p))
    except Exception:
        return None


def known():
    b = baseline()
    return set(b["fns"]) if b else None


def fn_sig(j):
    # (second entry: part of the public API -- `pub` inside a private module is not)
    return [j["kind"], bool(j.get("reachable_pub")), [l.get("s", "") for l in j["locals"][: j["argc"] + 1]]]


def make_baseline(raw):
    """raw: {crate: parsed fact json} of the confirmed tree"""
    fns, adts = {}, {}
    for c, j in raw.items():
        for f in j["fns"]:
            if f.get("external") or f.get("kind") not in ("Fn", "AssocFn"):
                continue
            fns[norm(f["id"])] = fn_sig(f)
        for a in j["adts"]:
            if a.get("local"):
                adts[a["path"]] = [[v["name"], [[x["name"], x["ty"], bool(x.get("pub"))] for x in v["fields"]]] for v in a["variants"]]
    return {"fns": fns, "adts": adts}


def detect_renames(raw, base):
    """private functions and private fields that only changed their name since the baseline:
    returns ({new segment: old segment} for functions, {(adt, new field): old field})"""
    fn_map, field_map = {}, {}
    have = {}
    for c, j in raw.items():
        for f in j["fns"]:
            if f.get("external") or f.get("kind") not in ("Fn", "AssocFn"):
                continue
            have[norm(f["id"])] = f
    missing = [b for b in base["fns"] if b not in have]
    unknown = [i for i in have if i not in base["fns"]]
    used = set()
    for b in sorted(missing):
        parent = b.rsplit("::", 1)[0]
        kind, pub, sig = base["fns"][b]
        if pub:
            continue  # a renamed public item is an API change, not a refactoring
        cands = [u for u in unknown if u.rsplit("::", 1)[0] == parent and fn_sig(have[u]) == [kind, pub, sig] and u not in used]
        # the missing one must be the only missing function of that shape in the parent, too
        rivals = [m for m in missing if m != b and m.rsplit("::", 1)[0] == parent and base["fns"][m] == base["fns"][b]]
        if len(cands) == 1 and not rivals:
            new_seg, old_seg = cands[0].rsplit("::", 1)[1], b.rsplit("::", 1)[1]
            # the new name must be unambiguous as a path segment in the whole workspace
            if sum(1 for i in have if i.rsplit("::", 1)[1] == new_seg) == 1 and new_seg not in fn_map:
                fn_map[new_seg] = old_seg
                used.add(cands[0])
    for c, j in raw.items():
        for a in j["adts"]:
            b = base["adts"].get(a["path"])
            if not b or not a.get("local") or len(b) != len(a["variants"]):
                continue
            for (bvn, bfs), v in zip(b, a["variants"]):
                if bvn != v["name"] or len(bfs) != len(v["fields"]):
                    continue
                now = [x["name"] for x in v["fields"]]
                was = [x[0] for x in bfs]
                for (on, oty, opub), x in zip(bfs, v["fields"]):
                    if x["name"] != on and x["ty"] == oty and not opub and not x.get("pub") and on not in now and x["name"] not in was and not x["name"].isdigit():
                        field_map[(a["path"], x["name"])] = on
    return fn_map, field_map


def apply_fn_renames(text, fn_map):
    import re
    for new, old in fn_map.items():
        text = re.sub(r"(?<=::)" + re.escape(new) + r"(?![A-Za-z0-9_])", old, text)
    return text


def apply_field_renames(x, field_map):
    """in place, on parsed fact json"""
    if isinstance(x, dict):
        of = x.get("of")
        if of is not None and (of, x.get("name")) in field_map:
            x["name"] = field_map[(of, x["name"])]
        if x.get("k") == "agg" and x.get("adt") and isinstance(x.get("fields"), list):
            x["fields"] = [field_map.get((x["adt"], n), n) for n in x["fields"]]
        if "path" in x and "variants" in x and isinstance(x["variants"], list):
            for v in x["variants"]:
                for fl in v.get("fields", []):
                    if (x["path"], fl.get("name")) in field_map:
                        fl["name"] = field_map[(x["path"], fl["name"])]
        for v in x.values():
            apply_field_renames(v, field_map)
    elif isinstance(x, list):
        for v in x:
            apply_field_renames(v, field_map)


def _shift(x, loff, boff):
    """deep copy of a MIR json fragment with locals shifted by loff and block numbers by boff"""
    if isinstance(x, dict):
        out = {}
        for k, v in x.items():
            if k == "l" and isinstance(v, int):
                out[k] = v + loff
            elif k == "index" and isinstance(v, int):
                out[k] = v + loff
            elif k in _BLOCK_KEYS and isinstance(v, int):
                out[k] = v + boff
            elif k == "arms" and isinstance(v, list):
                out[k] = [[a[0], a[1] + boff] for a in v]
            elif k in ("callee", "c", "span"):
                out[k] = v  # constants / callee descriptions hold no locals or blocks
            else:
                out[k] = _shift(v, loff, boff)
        return out
    if isinstance(x, list):
        return [_shift(v, loff, boff) for v in x]
    return x


def _single_ref_def(j, local):
    """the place P if `local` is assigned exactly once in the body, by `local = &[mut] P`"""
    found = []
    for b in j["blocks"]:
        for s in b["stmts"]:
            if s["k"] == "assign" and s["lhs"]["l"] == local and not s["lhs"]["p"]:
                found.append(s["rv"])
        t = b["term"]
        if t["k"] == "call" and t["dest"]["l"] == local and not t["dest"]["p"]:
            found.append(None)
    if len(found) == 1 and found[0] is not None and found[0]["k"] == "ref":
        pl = found[0]["p"]
        if not any(isinstance(q, dict) and "index" in q for q in pl["p"]):
            return pl
    return None


def _subst_deref(x, local, target):
    """rewrite every place (*local).rest into target.rest (the parameter is a reference to `target` by construction)"""
    if isinstance(x, dict):
        if "l" in x and "p" in x and isinstance(x["p"], list) and x["l"] == local and x["p"] and x["p"][0] == "*":
            return {"l": target["l"], "p": copy.deepcopy(target["p"]) + [_subst_deref(q, local, target) for q in x["p"][1:]]}
        return {k: (v if k in ("callee", "c") else _subst_deref(v, local, target)) for k, v in x.items()}
    if isinstance(x, list):
        return [_subst_deref(v, local, target) for v in x]
    return x


def candidates(facts, base):
    out = {}
    for i, f in facts.fns.items():
        if f.crate in ("ext", "promoted") or f.kind not in ("Fn", "AssocFn"):
            continue
        if norm(i) in base:
            continue
        j = f.j
        if j.get("reachable_pub") or j.get("unsafe_fn") or not f.blocks or len(f.blocks) > MAX_BLOCKS:
            continue
        out[i] = f
    return out


def _callee_id(t):
    c = t.get("callee", {})
    return c.get("res") or c.get("def") or ""


def normalise(facts, Fn):
    """mutates facts (fns, inst); returns a report {helper id: [callers]}"""
    base = known()
    report = {}
    if base is None:
        return report
    for _round in range(MAX_ROUNDS):
        cands = candidates(facts, base)
        if not cands:
            break
        # a helper that calls a candidate (or itself) is inlined in a later round, leaves first
        def calls_cand(f):
            return any(_callee_id(t) in cands for _, t in f.calls())
        leaves = {i: f for i, f in cands.items() if not calls_cand(f)}
        if not leaves:
            break
        changed = False
        for cid, cf in list(facts.fns.items()):
            if cf.crate in ("ext", "promoted"):
                continue
            sites = [(bb, t) for bb, t in cf.calls() if _callee_id(t) in leaves and _callee_id(t) != cid and t["k"] == "call"]
            if not sites:
                continue
            j = cf.j
            insts = [n for n in facts.inst.values() if n["def"] == cid and n.get("has_mir")]
            for bb, t in sites:
                h = leaves[_callee_id(t)]
                if len(t["args"]) != h.argc:
                    continue
                loff = len(j["locals"])
                boff = len(j["blocks"])
                j["locals"].extend(copy.deepcopy(h.j["locals"]))
                for v in h.j["vars"]:
                    j["vars"].append({"name": v["name"], "place": _shift(v["place"], loff, 0)})
                line = t.get("line", 0)
                new_blocks = _shift(h.j["blocks"], loff, boff)
                for nb in new_blocks:
                    tt = nb["term"]
                    if tt["k"] == "return" and not nb["cleanup"]:
                        nb["stmts"].append({"k": "assign", "lhs": copy.deepcopy(t["dest"]), "rv": {"k": "use", "a": {"mv": {"l": loff, "p": []}}}, "line": tt.get("line", line), "exp": False, "unsafe": False})
                        if t.get("target") is None:
                            nb["term"] = {"k": "unreachable", "line": tt.get("line", line), "exp": False, "unsafe": False}
                        else:
                            nb["term"] = {"k": "goto", "target": t["target"], "line": tt.get("line", line), "exp": False, "unsafe": False}
                # reference parameters bound to `&mut place` of the caller: the callee's `*param` *is* that place
                for k, a in enumerate(t["args"]):
                    src = a.get("mv") or a.get("cp")
                    if src is None or src["p"] or not h.j["locals"][1 + k].get("s", "").startswith("&"):
                        continue
                    target = _single_ref_def(j, src["l"])
                    for _ in range(4):
                        # reborrow chains: `_a = &mut x; _b = &mut *_a; f(move _b)`
                        if target is None or not target["p"] or target["p"][0] != "*":
                            break
                        inner = _single_ref_def(j, target["l"])
                        if inner is None:
                            break
                        target = {"l": inner["l"], "p": copy.deepcopy(inner["p"]) + copy.deepcopy(target["p"][1:])}
                    if target is not None:
                        new_blocks = _subst_deref(new_blocks, loff + 1 + k, target)
                j["blocks"].extend(new_blocks)
                blk = j["blocks"][bb]
                for k, a in enumerate(t["args"]):
                    blk["stmts"].append({"k": "assign", "lhs": {"l": loff + 1 + k, "p": []}, "rv": {"k": "use", "a": copy.deepcopy(a)}, "line": line, "exp": False, "unsafe": bool(t.get("unsafe"))})
                blk["term"] = {"k": "goto", "target": boff, "line": line, "exp": False, "unsafe": False, "inlined": h.id}
                # instance graph: the caller instance takes over the callee instance's edges
                for n in insts:
                    e = [c for c in n["calls"] if c.get("bb") == bb]
                    tgt = e[0].get("to") if e else None
                    n["calls"] = [c for c in n["calls"] if c.get("bb") != bb]
                    hn = facts.inst.get(tgt) if tgt else None
                    if hn is not None:
                        for c in hn["calls"]:
                            c2 = dict(c)
                            c2["bb"] = c["bb"] + boff
                            n["calls"].append(c2)
                report.setdefault(h.id, []).append(cid)
                changed = True
            facts.fns[cid] = Fn(j, cf.crate)
        if not changed:
            break
    # a helper all of whose call sites were inlined is dead code of the normalised program
    import json as _json
    for hid in list(report):
        still = any(_callee_id(t) == hid for f in facts.fns.values() for _, t in f.calls())
        if not still:
            # .. unless its address is taken somewhere (`let scan: fn(..) = if c { helper } else { other }`): it is then
            # called through the pointer, with whatever guards that site has, and stays in the program as it is
            needle = _json.dumps({"fn": hid})[1:-1]
            still = any(needle in _json.dumps(f.j["blocks"]) for i2, f in facts.fns.items() if i2 != hid and f.crate not in ("ext", "promoted"))
        if not still and hid in facts.fns:
            del facts.fns[hid]
            for k in [k for k, n in facts.inst.items() if n["def"] == hid]:
                del facts.inst[k]
            facts.roots = [r for r in facts.roots if r in facts.inst]
    return report
