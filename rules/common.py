"""Shared plumbing: rule objects, obligations, violations, evidence, known findings."""
import hashlib, json, os, re, time

VERIF = os.path.dirname(os.path.dirname(os.path.abspath(__file__)))


def family(nid):
    """function a closure belongs to (closure numbers change when closures are added or removed)"""
    i = nid.find("::{closure")
    return nid if i < 0 else nid[:i]


class Rule:
    def __init__(self, ctx, name, desc, floor=0):
        self.ctx = ctx
        self.name = name + getattr(ctx, "suffix", "")
        self.desc = desc
        # the floor guards against a rule that silently matches (almost) nothing after an anchor moved; it is not
        # itself a rule of the property: a behaviour-preserving edit may remove a site, so floors of site counts
        # leave one eighth of slack
        if floor >= 8:
            floor -= max(1, floor // 8)
        self.floor = 0 if getattr(ctx, "floor_off", False) else floor
        self.obligations = 0
        self.discharged = 0
        self.samples = []
        self.violations = []
        self.notes = {}

    def ok(self, what, where="", detail=None):
        """an obligation that was discharged"""
        self.obligations += 1
        self.discharged += 1
        if len(self.samples) < 4:
            s = {"obligation": what, "where": where, "verdict": "discharged"}
            if detail is not None:
                s["by"] = detail
            self.samples.append(s)

    def bad(self, key, what, where="", path=None, kind="violation"):
        """an obligation that failed; key must not contain line numbers"""
        self.obligations += 1
        full = "%s/%s" % (self.name, key)
        for v in self.violations:
            if v["key"] == full:
                return
        self.violations.append(
            {"rule": self.name, "key": full, "what": what, "where": where, "path": path or [], "kind": kind}
        )

    def check(self, cond, key, what, where="", detail=None, path=None):
        if cond:
            self.ok(what, where, detail)
        else:
            self.bad(key, what, where, path)
        return cond

    def note(self, k, v):
        self.notes[k] = v

    def finish(self):
        if self.obligations < self.floor:
            self.bad(
                "floor",
                "rule matched %d instances, fewer than the %d confirmed by hand (anchor missing or construct no longer recognised)"
                % (self.obligations, self.floor),
                kind="anchor-missing",
            )


class Ctx:
    def __init__(self, prop, tier, facts, seed=0):
        self.prop = prop
        self.tier = tier
        self.facts = facts
        self.seed = seed
        self.rules = []
        self.t0 = time.time()
        self.extra = {}
        self.assumptions = []
        self.write = True
        self.suffix = ""
        self.floor_off = False

    def rule(self, name, desc, floor=0):
        r = Rule(self, name, desc, floor)
        self.rules.append(r)
        return r

    def assume(self, text):
        if text not in self.assumptions:
            self.assumptions.append(text)


def load_known():
    p = os.path.join(VERIF, "known_findings.json")
    if not os.path.exists(p):
        return {"known": [], "fixed": []}
    return json.load(open(p))


def finish(ctx, level, explanation, trusted_base=None, checker_cmd=None):
    """triage violations against known findings, write evidence, print lines, return exit code"""
    known = load_known()
    kmap = {(k["property"], k["key"]): k for k in known.get("known", [])}
    allv = []
    for r in ctx.rules:
        r.finish()
        allv.extend(r.violations)
    new = []
    known_hit = []
    for v in allv:
        k = kmap.get((ctx.prop, v["key"]))
        if k is not None:
            known_hit.append((v, k))
        else:
            new.append(v)
    obligations = sum(r.obligations for r in ctx.rules)
    discharged = sum(r.discharged for r in ctx.rules)
    f = ctx.facts
    cov = {
        "explanation": explanation,
        "obligations": obligations,
        "discharged": discharged,
        "rules": [
            {
                "rule": r.name,
                "statement": r.desc,
                "obligations": r.obligations,
                "discharged": r.discharged,
                "floor": r.floor,
                "violations": [v["key"] for v in r.violations],
                **({"notes": r.notes} if r.notes else {}),
            }
            for r in ctx.rules
        ],
        "samples": [s for r in ctx.rules for s in r.samples[:3]][:40],
        "analysed": {
            "crates": dict(f.counts) if f else {},
            "mir_bodies": sum(f.counts.values()) if f else 0,
            "instances": len(f.inst) if f else 0,
            "call_edges": sum(len(n["calls"]) for n in f.inst.values()) if f else 0,
            "fact_build_s": round(getattr(f, "build_s", 0.0), 2) if f else 0,
            # private helpers unknown to the rules' baseline decomposition, inlined back before the rules ran (rules/inline.py)
            "renamed_back": getattr(f, "renamed", {}) if f else {},
            "inlined_unknown_helpers": {k: sorted(set(v)) for k, v in sorted(getattr(f, "inlined", {}).items())} if f else {},
            "synthetic_closure_instances": len(getattr(f, "synth_closures", [])) if f else 0,
        },
        "known_findings_hit": [v["key"] for v, _ in known_hit],
        "exhaustive": False,
    }
    cov.update(ctx.extra)
    if level == "proof":
        cov["checker_cmd"] = checker_cmd or ("./check %s --tier %s" % (ctx.prop, ctx.tier))
        cov["trusted_base"] = trusted_base or []
    ev = {
        "property_id": ctx.prop,
        "tier": ctx.tier,
        "seed": ctx.seed,
        "level": level,
        "coverage": cov,
        "assumptions": ctx.assumptions,
        "wall_s": round(time.time() - ctx.t0, 2),
        "violations": len(new),
    }
    if ctx.write:
        os.makedirs(os.path.join(VERIF, "evidence"), exist_ok=True)
        with open(os.path.join(VERIF, "evidence", ctx.prop + ".json"), "w") as fh:
            json.dump(ev, fh, indent=1, sort_keys=False)
            fh.write("\n")
    for r in ctx.rules:
        print(
            "rule %-8s %3d/%3d discharged  %s" % (r.name, r.discharged, r.obligations, r.desc[:90])
        )
    for v, k in known_hit:
        print("KNOWN-FINDING: property=%s %s %s" % (ctx.prop, v["key"], k.get("what", v["what"])))
    code = 0
    if new:
        os.makedirs(os.path.join(VERIF, "findings"), exist_ok=True)
        for v in new:
            h = hashlib.sha1(v["key"].encode()).hexdigest()[:10]
            p = os.path.join(VERIF, "findings", "%s-%s.json" % (ctx.prop, h))
            if not ctx.write:
                print("  %s: %s [%s] %s" % (v["kind"], v["key"], v["where"], v["what"]))
                print("VIOLATION property=%s replay=%s" % (ctx.prop, p))
                continue
            with open(p, "w") as fh:
                json.dump(
                    {
                        "property": ctx.prop,
                        "rule": v["rule"],
                        "key": v["key"],
                        "kind": v["kind"],
                        "what": v["what"],
                        "where": v["where"],
                        "path": v["path"],
                        "replay": "./check %s --replay %s" % (ctx.prop, p),
                    },
                    fh,
                    indent=1,
                )
                fh.write("\n")
            print("  %s: %s [%s] %s" % (v["kind"], v["key"], v["where"], v["what"]))
            for step in v["path"][:12]:
                print("      ", step)
            print("VIOLATION property=%s replay=%s" % (ctx.prop, p))
        code = 1
    return code


def strip_generics(path):
    p = path
    for _ in range(6):
        p2 = re.sub(r"::<[^<>]*>", "", p)
        p2 = re.sub(r"<'[a-z_]+>", "", p2)
        if p2 == p:
            break
        p = p2
    return p


def norm(path):
    """canonical def path without generic argument lists: flussab::text::LineReader::give_up"""
    return strip_generics(path)
