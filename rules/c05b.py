"""C05-R4: panic-site inventory (see c05.py)."""
from . import util, guards
from .cfg import cfg
from .common import norm, family
from .sym import sym, short, mentions, subexprs
from .c10 import strip_bb

PANIC_CALLS = ("core::panicking::panic", "core::panicking::panic_fmt", "core::panicking::panic_display", "core::panicking::assert_failed", "core::panicking::unreachable_display")
UNWRAPS = ("core::option::Option::unwrap", "core::option::Option::expect", "core::result::Result::unwrap", "core::result::Result::expect")
INDEXING = ("core::slice::index::index", "core::slice::index::index_mut", "core::slice::split_at", "core::slice::copy_within", "core::slice::split_at_mut")
ADV = ("flussab::deferred_reader::DeferredReader::advance", "flussab::deferred_reader::DeferredReader::advance_with_buf")

# leaves an offset expression may be built from to count as "derived from scanning the buffer"
SCAN_CALLS = (
    "flussab::text::", "flussab::deferred_reader::DeferredReader::buf_len", "core::str::len", "core::slice::len", "core::str::error::Utf8Error::valid_up_to",
    "flussab_btor2::token::ascii_lowercase", "flussab_btor2::token::hex_string", "flussab_btor2::token::decimal_string", "flussab_btor2::token::binary_string",
    "core::iter::traits::iterator::Iterator::position", "core::iter::traits::iterator::Iterator::count", "core::num::saturating_sub",
    "flussab::deferred_reader::DeferredReader::buf", "flussab::deferred_reader::DeferredReader::advance_with_buf", "flussab::text::LineReader::reader",
    "core::iter::traits::iterator::Iterator::rposition", "core::iter::traits::iterator::Iterator::enumerate", "core::iter::traits::iterator::Iterator::take_while",
    "core::slice::index::index", "core::slice::iter", "core::iter::traits::iterator::Iterator::rev", "core::iter::traits::iterator::Iterator::filter", "alloc::vec::Vec::len",
)

RESIDUAL = {
    ("flussab_btor2::token::positive_int", "Option::unwrap"): "NonZeroU64::new(width): a leading '0' was rejected before uint, and uint rejects numbers with leading zeros, so width != 0",
    ("flussab::deferred_reader::DeferredReader::advance_cold", "panic"): "the documented panic of advance(n) for n > buf_len(); callers pass scanned offsets only (checked per call site)",
    ("flussab::deferred_reader::DeferredReader::request_more", "panic"): "load-bearing assert on a broken Read implementation (not reachable with a conforming source)",
}


# std functions that panic on a precondition the type system does not carry (none of them occurs in the tree today;
# each use in parser-reachable code is reported with its precondition -- there is no discharge class for them yet)
PANICKY_STD = {
    ("String", "truncate"): "the new length must lie on a char boundary",
    ("String", "insert"): "the index must lie on a char boundary",
    ("String", "insert_str"): "the index must lie on a char boundary",
    ("String", "remove"): "the index must lie on a char boundary inside the string",
    ("String", "split_off"): "the index must lie on a char boundary",
    ("String", "drain"): "the range must lie on char boundaries",
    ("String", "replace_range"): "the range must lie on char boundaries",
    ("Vec", "remove"): "the index must be in bounds",
    ("Vec", "insert"): "the index must be at most len",
    ("Vec", "swap_remove"): "the index must be in bounds",
    ("Vec", "split_off"): "the index must be at most len",
    ("Vec", "drain"): "the range must be in bounds",
    ("slice", "copy_from_slice"): "both slices must have the same length",
    ("slice", "clone_from_slice"): "both slices must have the same length",
    ("slice", "swap"): "both indices must be in bounds",
    ("slice", "rotate_left"): "the amount must be at most len",
    ("slice", "rotate_right"): "the amount must be at most len",
    ("slice", "chunks"): "the chunk size must not be 0",
    ("slice", "chunks_exact"): "the chunk size must not be 0",
    ("slice", "windows"): "the window size must not be 0",
    ("str", "split_at"): "the index must lie on a char boundary",
    ("RefCell", "borrow_mut"): "the cell must not be borrowed",
    ("RefCell", "borrow"): "the cell must not be mutably borrowed",
    ("Iterator", "step_by"): "the step must not be 0",
}


def panicky_std(cn):
    m = cn.rsplit("::", 1)[-1]
    for (ty, meth), why in PANICKY_STD.items():
        if m != meth:
            continue
        if ty == "String" and cn.startswith("alloc::string::String::"):
            return ty, meth, why
        if ty == "Vec" and cn.startswith("alloc::vec::Vec::"):
            return ty, meth, why
        if ty == "slice" and cn.startswith("core::slice::") and "iter" not in cn:
            return ty, meth, why
        if ty == "str" and cn.startswith("core::str::"):
            return ty, meth, why
        if ty == "RefCell" and cn.startswith("core::cell::RefCell::"):
            return ty, meth, why
        if ty == "Iterator" and cn.endswith("Iterator::step_by"):
            return ty, meth, why
    if cn.startswith("core::str::traits::") and m in ("index", "index_mut"):
        return "str", "index", "the range must lie on char boundaries inside the string"
    return None


def sites(facts, in_scope):
    for fid, f in sorted(facts.fns.items()):
        if not in_scope(f):
            continue
        for bi, b in enumerate(f.blocks):
            if b["cleanup"]:
                continue
            t = b["term"]
            if t["k"] == "assert" and t["msg"] == "BoundsCheck":
                yield f, bi, "BoundsCheck", t
            elif t["k"] == "call":
                cn = norm(util.cname(t))
                if cn in PANIC_CALLS:
                    yield f, bi, "panic", t
                elif panicky_std(cn) is not None:
                    yield f, bi, "std:%s::%s" % panicky_std(cn)[:2], t
                elif cn in UNWRAPS:
                    yield f, bi, short(cn), t
                elif cn in ADV and not norm(f.id).startswith("flussab::deferred_reader"):
                    yield f, bi, "advance", t
                elif norm(t["callee"].get("def", "")) in ("core::ops::index::Index::index", "core::ops::index::IndexMut::index_mut") or cn in INDEXING or cn.endswith(("Index<I>>::index", "IndexMut<I>>::index_mut")) or "index::<impl core::ops::index::Index" in util.cname(t):
                    yield f, bi, "index", t


def scan_derived(tn, f, e, depth=0):
    """is the expression built only from constants, look-ahead offsets and scanner / length results?"""
    sy = sym(f)
    if depth > 6:
        return False
    k = e[0]
    if k == "c":
        return True
    if k == "l":
        o = sy.origin(e)
        if o != e:
            return scan_derived(tn, f, o, depth + 1)
        return not tn.tainted(f, e)
    if k in ("bin", "ovf"):
        return scan_derived(tn, f, e[2], depth + 1) and scan_derived(tn, f, e[3], depth + 1)
    if k == "cast":
        return scan_derived(tn, f, e[2], depth + 1)
    if k == "un":
        return scan_derived(tn, f, e[2], depth + 1)
    if k == "f":
        return scan_derived(tn, f, e[1], depth + 1)
    if k == "v":
        return scan_derived(tn, f, e[1], depth + 1)
    if k == "agg":
        return all(scan_derived(tn, f, x, depth + 1) for x in e[3])
    if k == "call":
        n = norm(e[2])
        if any(n.startswith(p) if p.endswith("::") else n == p for p in SCAN_CALLS) or n.endswith(("Try>::branch", "Option::unwrap", "Iterator>::position", "Iterator>::rposition", "Iterator>::count")) or ("slice::index" in n and n.endswith("::index")) or n.endswith(("Index<I>>::index", "::deref")):
            return not tn.tainted(f, e) and all(scan_derived(tn, f, a, depth + 1) for a in e[3] if a[0] not in ("f", "l") or True) if False else not tn.tainted(f, e)
        return False
    return False


# ---- assertions whose condition is true by simple interval / congruence reasoning --------------------------------
def _iv(facts, f, e, at, depth=0):
    """(lo, hi, modulus) of an unsigned integer expression at block `at`, or None.  Knows bit counts (0..=width), masks
    that clear low bits (multiples of a power of two), div / rem by constants, and `!= 0` guards that dominate `at`."""
    sy = sym(f)
    if depth > 8:
        return None
    k = e[0]
    if k == "c" and isinstance(e[1], int):
        return (e[1], e[1], 0)
    if k == "cast":
        return _iv(facts, f, e[2], at, depth + 1)
    if k == "l":
        o = sy.origin(e)
        r = _iv(facts, f, o, at, depth + 1) if o != e else None
    elif k == "call" and norm(e[2]).rsplit("::", 1)[-1] in ("trailing_zeros", "leading_zeros", "count_ones", "count_zeros"):
        w = 64
        for wn in ("u8", "u16", "u32", "u64", "u128"):
            if "<impl %s>" % wn in e[2]:
                w = int(wn[1:])
        r = (0, w, 1)
    elif k == "bin":
        op = e[1].replace("Unchecked", "")
        a = _iv(facts, f, e[2], at, depth + 1)
        mask = None
        if op == "BitAnd":
            m = e[3]
            if m[0] == "un" and m[1] == "Not" and m[2][0] == "c":
                mask = ~m[2][1]
            elif m[0] == "c":
                mask = m[1]
        if op == "BitAnd" and a is not None and mask is not None:
            low = (mask & -mask) if mask & ((1 << 64) - 1) else 1  # lowest set bit: everything below is cleared
            hi = a[1] & mask if mask < 0 else min(a[1], mask)
            r = (0, hi, low)
        elif op in ("Div", "Rem") and a is not None and e[3][0] == "c" and e[3][1] > 0:
            c0 = e[3][1]
            if op == "Div":
                r = (a[0] // c0, a[1] // c0, 1)
            else:
                r = (0, 0, 0) if a[2] and a[2] % c0 == 0 else (0, c0 - 1, 1)
        else:
            r = None
    elif k == "f" and e[2].isdigit() and e[1][0] == "call" and depth < 4:
        # component of the tuple a workspace function returns: the join over its return sites
        r = _ret_iv(facts, e[1][2], int(e[2]), depth)
    else:
        r = None
    # dominating comparisons of the same value with constants (`Some(c @ b'0'..=b'9')`, `if n <= 8`)
    se = strip_bb(e)
    if k in ("l", "f", "v", "call"):
        lo0, hi0 = (r[0], r[1]) if r is not None else (0, None)
        narrowed = False
        for _s, fa in guards.facts_at(f, at):
            if fa[0] == "eq" and strip_bb(fa[1]) == se and isinstance(fa[2], int):
                lo0, hi0, narrowed = fa[2], fa[2], True
                continue
            if fa[0] != "cmp":
                continue
            op, a, b = fa[1], strip_bb(fa[2]), strip_bb(fa[3])
            if a == se and b[0] == "c" and isinstance(b[1], int):
                c0 = b[1]
            elif b == se and a[0] == "c" and isinstance(a[1], int):
                c0 = a[1]
                op = guards.FLIP[op]
            else:
                continue
            if op == "Le":
                hi0 = c0 if hi0 is None else min(hi0, c0)
            elif op == "Lt":
                hi0 = c0 - 1 if hi0 is None else min(hi0, c0 - 1)
            elif op == "Ge":
                lo0 = max(lo0, c0)
            elif op == "Gt":
                lo0 = max(lo0, c0 + 1)
            elif op == "Eq":
                lo0, hi0 = c0, c0
            else:
                continue
            narrowed = True
        if narrowed and hi0 is not None:
            r = (lo0, hi0, r[2] if r is not None else 1)
    if r is None:
        return None
    lo, hi, mod = r
    # a dominating `!= 0` test of the same value
    g = guards.holds(f, at, lambda fa: (fa[0] == "cmp" and fa[1] == "Ne" and fa[3] == ("c", 0) and strip_bb(fa[2]) == strip_bb(e)) or (fa[0] == "notin" and 0 in fa[2] and strip_bb(fa[1]) == strip_bb(e)))
    if g and lo == 0:
        lo = mod if mod > 1 else 1
    return (lo, hi, mod)


def _ret_iv(facts, callee, idx, depth):
    from math import gcd
    fs = [g for i, g in facts.fns.items() if i == callee or norm(i) == norm(callee)]
    fs = [g for g in fs if g.crate not in ("ext", "promoted") and g.blocks]
    if len(fs) != 1:
        return None
    g = fs[0]
    sy = sym(g)
    out = None
    n = 0
    for bi, b in enumerate(g.blocks):
        for st in b["stmts"]:
            if st["k"] == "assign" and st["lhs"] == {"l": 0, "p": []}:
                if not (st["rv"]["k"] == "agg" and st["rv"].get("ak") == "tuple" and idx < len(st["rv"]["ops"])):
                    return None
                n += 1
                v = _iv(facts, g, sy.operand(st["rv"]["ops"][idx]), bi, depth + 4)
                if v is None:
                    return None
                out = v if out is None else (min(out[0], v[0]), max(out[1], v[1]), gcd(out[2], v[2]))
        t = b["term"]
        if t["k"] == "call" and t["dest"] == {"l": 0, "p": []}:
            return None
    return out if n else None


DIGIT_CLASSES = {"is_ascii_digit": (48, 57), "is_ascii_lowercase": (97, 122), "is_ascii_uppercase": (65, 90)}


def _truth(facts, f, fact, at):
    """True / False / None for an edge fact under _iv"""
    sy = sym(f)
    if fact[0] == "cmp":
        a, b = _iv(facts, f, fact[2], at), _iv(facts, f, fact[3], at)
        if a is None or b is None:
            return None
        op = fact[1]
        if op in ("Eq", "Ne"):
            eq = True if (a[0] == a[1] == b[0] == b[1]) else (False if (a[1] < b[0] or b[1] < a[0]) else None)
            return eq if op == "Eq" or eq is None else (not eq)
        lt = {"Lt": (a[1] < b[0], a[0] >= b[1]), "Le": (a[1] <= b[0], a[0] > b[1]), "Gt": (a[0] > b[1], a[1] <= b[0]), "Ge": (a[0] >= b[1], a[1] < b[0])}[op]
        return True if lt[0] else (False if lt[1] else None)
    if fact[0] == "bool":
        e = fact[1]
        if e[0] == "call" and norm(e[2]).endswith("RangeInclusive::contains") and len(e[3]) == 2:
            rng, x = e[3]
            if rng[0] == "promoted":
                pf = [g for i, g in facts.fns.items() if norm(i) == rng[1]]
                rng = sym(pf[0]).place({"l": 0, "p": []}) if pf else rng
            if rng[0] == "call" and norm(rng[2]).endswith("RangeInclusive::new") and rng[3][0][0] == "c" and rng[3][1][0] == "c":
                v = _iv(facts, f, x, at)
                if v is not None:
                    inside = rng[3][0][1] <= v[0] and v[1] <= rng[3][1][1]
                    outside = v[1] < rng[3][0][1] or v[0] > rng[3][1][1]
                    val = True if inside else (False if outside else None)
                    return None if val is None else (val == fact[2])
        if e[0] == "c":
            return bool(e[1]) == fact[2]
        if e[0] == "call" and norm(e[2]).rsplit("::", 1)[-1] in DIGIT_CLASSES and len(e[3]) == 1:
            lo, hi = DIGIT_CLASSES[norm(e[2]).rsplit("::", 1)[-1]]
            v = _iv(facts, f, e[3][0], at)
            if v is not None:
                val = True if (lo <= v[0] and v[1] <= hi) else (False if (v[1] < lo or v[0] > hi) else None)
                return None if val is None else (val == fact[2])
    return None


def assertion_holds(facts, f, bi):
    """the panic in block bi is the failure arm of an assertion all of whose ways in are edges that cannot be taken"""
    c = cfg(f)
    seen, st, edges = set(), [bi], []
    while st:
        x = st.pop()
        if x in seen:
            continue
        seen.add(x)
        for p in c.pred[x]:
            tp = f.term(p)
            if tp["k"] == "goto":
                st.append(p)
            elif tp["k"] == "switch":
                fs = [fa for tgt, fa in guards.switch_edges(f, p) if tgt == x]
                if len(fs) != 1:
                    return None
                edges.append((p, fs[0]))
            else:
                return None
    if not edges:
        return None
    why = []
    for p, fa in edges:
        if _truth(facts, f, fa, p) is not False:
            return None
        why.append(guards.show_fact(f, fa)[:50])
    return "no way into the failure arm can be taken: each needs " + " / ".join(why) + ", which interval and congruence reasoning refutes"


def leading_zero_rejected(facts, fid):
    """None if, in function fid, the digits parser cannot be reached once the look-ahead primitive answered the byte
    '0' at the cursor; else the reason"""
    fs = [g for i, g in facts.fns.items() if norm(i) == fid]
    if not fs:
        return "function not found"
    f = fs[0]
    c = cfg(f)
    looks = ("flussab::deferred_reader::DeferredReader::request_byte", "flussab::deferred_reader::DeferredReader::request_byte_at_offset")
    zero_edges = []
    for s_bb in sorted(c.reach):
        if f.term(s_bb)["k"] != "switch":
            continue
        for tgt, fa in guards.switch_edges(f, s_bb):
            if fa[0] == "eq" and fa[2] == 48 and fa[1][0] == "f" and fa[1][1][0] == "v" and fa[1][1][2] == "Some" and fa[1][1][1][0] == "call" and norm(fa[1][1][1][2]) in looks:
                zero_edges.append(tgt)
            if fa[0] == "bool" and fa[1][0] == "call" and fa[1][2].endswith(("PartialEq>::eq", "PartialEq::eq")) and fa[2] is True and len(fa[1][3]) == 2:
                x, y = fa[1][3]
                for p, q in ((x, y), (y, x)):
                    if p[0] == "call" and norm(p[2]) in looks and q[0] == "agg" and q[2] == "Some" and q[3] == (("c", 48),):
                        zero_edges.append(tgt)
    if not zero_edges:
        return "no test of the look-ahead primitive's answer against '0' in %s (a leading zero is not rejected on every read schedule)" % short(fid)
    digits = [bb for bb, t in f.calls() if norm(util.cname(t)).rsplit("::", 1)[-1] in ("uint", "ascii_digits", "ascii_digits_multi")]
    if not digits:
        return "no digits parser call in %s" % short(fid)
    # reachability with the decision carried in a flag (`matches!` stores true / false, the `if` tests it)
    from .c01 import _KExec, _fz
    ex = _KExec(f)
    for z in zero_edges:
        seen = set()
        work = [(z, _fz({}))]
        while work:
            bb, fe = work.pop()
            if (bb, fe) in seen or len(seen) > 5000:
                continue
            seen.add((bb, fe))
            if bb in digits:
                return "the digits parser is reachable after the look-ahead answered '0'"
            for nb, env in ex.succs(bb, dict(fe), lambda *a: None):
                if nb is not None:
                    work.append((nb, _fz(env)))
    return None


def classify(facts, tn, f, bi, kind, t):
    sy = sym(f)
    nid = norm(f.id)
    if kind == "panic":
        # explicit panics: debug_assert!/assert! expansions are conditions on internal state
        if t.get("exp") and norm(f.id).startswith("flussab::deferred_reader"):
            return "internal-assert", "debug assertion on the reader's own invariant (C02/C14)"
        if (nid, "panic") in RESIDUAL:
            return "residual", RESIDUAL[(nid, "panic")]
        ah = assertion_holds(facts, f, bi)
        if ah:
            return "assertion-true", ah
        if t.get("exp"):
            # unwrap-like expansions (unreachable!, assert!) in parser code
            return None, "explicit panic in parser-reachable code"
        return None, "explicit panic in parser-reachable code"
    if kind in ("Option::unwrap", "Option::expect", "Result::unwrap", "Result::expect"):
        a = sy.operand(t["args"][0])
        a = sy.origin(a) if a[0] == "l" else a
        if a[0] == "call":
            n = norm(a[2])
            if n.endswith("FromPrimitive::from_u8") or n.endswith("FromPrimitive::from_u32"):
                x = a[3][0]
                if x[0] == "c" and 0 <= x[1] <= 127:
                    return "from-primitive-const", "from_u8(%d) exists for every integer type" % x[1]
                if x[0] == "bin" and x[1] == "Sub" and x[3] == ("c", 48):
                    g = guards.holds(f, bi, lambda fa: fa[0] == "cmp" and fa[1] == "Le" and fa[3] == ("c", 57) or fa[0] == "cmp" and fa[1] == "Le" and fa[2] == ("c", 48) or fa[0] == "bool" and fa[2] is True and fa[1][0] == "call" and norm(fa[1][2]).endswith("is_ascii_digit"))
                    if g:
                        return "from-primitive-digit", "from_u8(byte - b'0') with byte in '0'..='9'"
            if n.endswith(("slice::split_last", "slice::split_first", "slice::last", "slice::first", "<impl [T]>::split_last", "<impl [T]>::split_first", "<impl [T]>::last", "<impl [T]>::first")):
                # of a vector that was built by vec![..] with elements and only pushed to since: never empty
                base = a[3][0]
                for _ in range(4):
                    if base[0] == "call" and norm(base[2]).endswith(("::deref", "::as_slice", "::borrow", "Index<I>>::index")):
                        base = base[3][0]
                    elif base[0] == "l":
                        b2 = sy.origin(base)
                        if b2 == base:
                            break
                        base = b2
                    else:
                        break
                bo = base
                if bo[0] == "call" and "into_vec" in norm(bo[2]):
                    return "nonempty-literal", "the slice is a vector created by vec![..] with at least one element (elements are only added afterwards)"
                if bo[0] == "l":
                    defs = sy.defs.get(bo[1], [])
                    if defs and all(d[0] == "call" and "into_vec" in norm(util.cname(d[2])) for d in defs):
                        shrink = [1 for bb2, t2 in f.calls() if util.cname(t2).rsplit("::", 1)[-1] in ("pop", "clear", "truncate", "remove", "swap_remove", "drain", "retain") and strip_bb(sy.operand(t2["args"][0])) == strip_bb(bo)]
                        if not shrink:
                            return "nonempty-literal", "the slice is a vector created by vec![..] with at least one element and never shrunk"
            if n.endswith("Vec::pop"):
                recv = strip_bb(a[3][0])
                c = cfg(f)
                ro = sy.origin(a[3][0]) if a[3][0][0] == "l" else a[3][0]
                if ro[0] == "call" and "into_vec" in norm(ro[2]):
                    return "pop-of-nonempty-literal", "the vector was created by vec![..] with at least one element and only pushed to since"
                pushes = [bb for bb, t2 in f.calls() if util.cname(t2).endswith("Vec::push") and strip_bb(sy.operand(t2["args"][0])) == recv and c.dominates(bb, bi)]
                if pushes:
                    return "pop-after-push", "the vector was pushed to on every path (push at %s)" % f.loc(pushes[0])
            if n.endswith("str::converts::from_utf8"):
                arg = a[3][0]
                # from_utf8(&buf()[..offset]) where offset came from a digit scanner (+ '{' / '}' for braced numbers): ASCII only
                if mentions(arg, lambda x: x[0] == "call" and norm(x[2]).endswith("DeferredReader::buf")) and scan_derived(tn, f, arg):
                    return "utf8-of-scanned-digits", "the bytes up to the scanned offset are ASCII digits (and '-', '{', '}')"
        if (nid, kind) in RESIDUAL:
            return "residual", RESIDUAL[(nid, kind)]
        if (family(nid), kind) in RESIDUAL and a[0] == "call" and "NonZero" in a[2]:
            # the listed reason rests on a structural premise, which is checked: the number parser is not reachable
            # from the edge on which the look-ahead primitive answered '0'
            why = leading_zero_rejected(facts, family(nid))
            if why is None:
                return "residual", RESIDUAL[(family(nid), kind)]
            return None, "NonZero::new(..).unwrap(): %s" % why
        return None, "unwrap of %s" % sy.show(a)[:80]
    if kind == "advance":
        n = sy.operand(t["args"][1])
        if tn.tainted(f, n):
            return None, "the cursor is advanced by a number the input declares (%s)" % sy.show(n)[:60]
        if scan_derived(tn, f, n):
            return "advance-scanned", "advances by an offset obtained from scanning the buffered data (%s)" % sy.show(n)[:60]
        return None, "advance amount %s is not derived from a scan of the buffer" % sy.show(n)[:60]
    if kind in ("index", "BoundsCheck"):
        args = [sy.operand(a) for a in t["args"]] if kind == "index" else [sy.operand(o) for o in t["ops"]]
        if any(tn.tainted(f, a) for a in args[1:] if kind == "index") or (kind == "BoundsCheck" and tn.tainted(f, args[1])):
            return None, "indexed by a number the input declares (%s)" % " , ".join(sy.show(a)[:40] for a in args)
        if kind == "index" and all(scan_derived(tn, f, a) for a in args[1:]):
            return "index-scanned", "indexes buffered data with offsets obtained from scanning it (%s)" % sy.show(args[1])[:60]
        if kind == "BoundsCheck":
            ln, idx = args[0], args[1]
            if idx[0] == "c":
                return "index-untainted", "array index is not a declared number (%s)" % sy.show(idx)[:40]
            # a variable index into an array or slice: some test in front of the access must bound it (a loop counter
            # that is only ever incremented walks off the end -- the reader refills, so "few bytes are buffered" is no bound)
            def bounds(fa):
                if fa[0] != "cmp":
                    return False
                def lenform(x):
                    # `PtrMetadata(s)` (the length MIR reads for a bounds check) and `s.len()` are the same number
                    x = strip_bb(x)
                    if x[0] == "un" and x[1] == "PtrMetadata":
                        return ("len", x[2])
                    if x[0] == "call" and x[2].rsplit("::", 1)[-1] == "len" and len(x[3]) == 1:
                        return ("len", x[3][0])
                    return x
                op, a, b = fa[1], lenform(fa[2]), lenform(fa[3])
                si, sl = strip_bb(idx), lenform(ln)
                if a == si and op in ("Lt", "Le") and ((b == sl and op == "Lt") or (b[0] == "c" and ln[0] == "c" and isinstance(b[1], int) and b[1] + (1 if op == "Le" else 0) <= ln[1])):
                    return True
                if b == si and op in ("Gt", "Ge") and ((a == sl and op == "Gt") or (a[0] == "c" and ln[0] == "c" and isinstance(a[1], int) and a[1] + (1 if op == "Ge" else 0) <= ln[1])):
                    return True
                return False
            g = guards.holds(f, bi, bounds)
            if g:
                return "index-guarded", "index %s is tested against the length in front of the access (%s)" % (sy.show(idx)[:30], guards.show_fact(f, g[1])[:50])
            cd = counts_down_from_len(f, bi, idx, ln)
            if cd:
                return "index-counts-down", cd
            # an index handed in by array::from_fn / enumerate is below the length by construction
            if f.kind == "Closure" and idx[0] == "l" and sy.is_arg(idx[1]):
                return "index-by-construction", "index is the closure's own argument (from_fn / enumerate)"
            return None, "index %s into a sequence of length %s is not bounded by any test in front of the access" % (sy.show(idx)[:40], sy.show(ln)[:30])
        return "index-untainted", "index is not a declared number (%s)" % sy.show(args[1])[:60]
    if kind.startswith("std:"):
        ps = panicky_std(norm(util.cname(t)))
        args = [sy.operand(a) for a in t["args"]]
        if ps and ps[1] in ("chunks", "chunks_exact", "windows", "step_by") and len(args) > 1 and args[1][0] == "c" and args[1][1] > 0:
            return "std-const-arg", "constant non-zero size"
        return None, "%s::%s panics unless %s, and nothing here shows that it does (%s)" % (ps[0], ps[1], ps[2], " , ".join(sy.show(a)[:40] for a in args[1:]))
    return None, "unknown kind"


def counts_down_from_len(f, bi, idx, ln):
    """`let mut i = s.len(); while i > 0 { i -= 1; .. s[i] .. }`: the counter starts at the length of the indexed slice
    (or at the k of `&x[..k]`), every other assignment to it subtracts one, and a decrement dominates the access inside
    the same loop iteration: i <= len - 1 at the access"""
    from . import scanidx as SI
    from .cfg import cfg as _cfg
    sy = sym(f)
    if idx[0] != "l":
        return None
    il = idx[1]
    defs = sy.defs.get(il, [])
    if len(defs) < 2 or any(d[0] != "stmt" for d in defs):
        return None
    inits, decs = [], []
    for d in defs:
        e = sy.rvalue(d[3], 1)
        if e[0] == "f" and e[2] == "0" and e[1][0] in ("bin", "ovf"):
            e = e[1]
        if e[0] in ("bin", "ovf") and e[1].replace("WithOverflow", "").replace("Unchecked", "") == "Sub" and e[2] == ("l", il) and e[3] == ("c", 1):
            decs.append(d[1])
        else:
            inits.append((d[1], e))
    if len(inits) != 1 or not decs:
        return None
    init = SI.peel(sy, inits[0][1])
    # the indexed sequence: PtrMetadata(s) / s.len()
    seq = None
    x = ln
    if x[0] == "un" and x[1] == "PtrMetadata":
        seq = x[2]
    elif x[0] == "call" and x[2].rsplit("::", 1)[-1] == "len" and len(x[3]) == 1:
        seq = x[3][0]
    if seq is None:
        return None
    ok_len = False
    s_init = SI.len_of(f, init)
    if s_init is not None and SI.strip(SI.peel(sy, s_init)) == SI.strip(SI.peel(sy, seq)):
        ok_len = True
    cut = SI.slice_cut(f, seq)
    if cut is not None and SI.strip(SI.peel(sy, cut[1])) == SI.strip(init):
        k = SI.peel(sy, cut[1])
        if k[0] != "l" or SI.unchanged_between(f, k[1], cut[0], bi):
            ok_len = True
    if not ok_len:
        return None
    c = _cfg(f)
    loops = [body for h, body in c.loops().items() if bi in body]
    if not loops:
        return None
    body = min(loops, key=len)
    if not any(db in body and c.dominates(db, bi) for db in decs):
        return None
    return "index %s starts at the length of the indexed slice, only counts down, and is decremented in front of the access in every iteration" % sy.show(idx)[:30]


# ---- R11: an advance by X + c passes over bytes that were looked at ---------------------------------------------
def run_r11(ctx, rule):
    """`advance(n)` panics when n exceeds the buffered data, and input can end anywhere.  The scanners of flussab::text
    return offsets behind bytes they looked at (C16-R3, C13-R3); what the token functions add on top is a constant:
    `advance(1)` behind a byte test, `advance(offset + 1)` behind the line feed found at `offset`, a scan started at a
    constant offset.  Decided per site: with the amount written as X + c (scanner calls peeled down to their start
    offset, c a positive constant), each of the c bytes at X, X+1, .. was answered `Some` by a look-ahead on the way
    (discriminant / payload / is_some / is_none tests, `== Some(b)`, or a literal matched by `fixed` at offset 0), and
    a variable X was not changed since."""
    from .c10 import strip_bb
    facts = ctx.facts
    DRp = "flussab::deferred_reader::DeferredReader::"
    n_sites = n_plus = 0
    for fid, fn in sorted(facts.fns.items()):
        if fn.crate in ("ext", "promoted") or norm(fid).startswith("flussab::deferred_reader"):
            continue
        sy = sym(fn)
        for bb, t in fn.calls():
            cn = norm(util.cname(t))
            if cn not in (DRp + "advance", DRp + "advance_with_buf") or len(t["args"]) < 2:
                continue
            n_sites += 1
            e = sy.operand(t["args"][1])
            # peel scanner calls down to the offset they were started at
            for _ in range(6):
                while e[0] == "cast":
                    e = e[2]
                if e[0] == "f" and e[2] == "1" and e[1][0] == "call" and norm(e[1][2]).startswith("flussab::text::") and len(e[1][3]) > 1:
                    e = e[1][3][1]
                    continue
                if e[0] == "call" and norm(e[2]).startswith("flussab::text::") and not norm(e[2]).startswith("flussab::text::LineReader") and len(e[3]) > 1:
                    e = e[3][1]
                    continue
                break
            X, c = e, 0
            if e[0] == "c" and isinstance(e[1], int):
                X, c = None, e[1]
            elif e[0] in ("bin", "ovf") and e[1].replace("WithOverflow", "").replace("Unchecked", "") == "Add":
                if e[3][0] == "c" and isinstance(e[3][1], int):
                    X, c = e[2], e[3][1]
                elif e[2][0] == "c" and isinstance(e[2][1], int):
                    X, c = e[3], e[2][1]
            if c <= 0 or c > 16:
                continue
            n_plus += 1
            key = "%s/advance-over-examined/%s" % (norm(fid), (sy.show(X).replace(" ", "") + "+" if X is not None else "") + str(c))
            examined = {}
            for sb, fa in guards.decision_facts(fn, bb):
                look = None
                some = False
                if fa[0] == "eq" and fa[1][0] == "discr" and fa[1][1][0] == "call" and str(fa[1][2]).endswith("Option"):
                    look, some = fa[1][1], fa[2] == 1
                elif fa[0] in ("eq", "in") and fa[1][0] == "f" and fa[1][1][0] == "v" and fa[1][1][2] == "Some" and fa[1][1][1][0] == "call":
                    look, some = fa[1][1][1], True
                elif fa[0] == "bool" and fa[1][0] == "call" and fa[1][3] and fa[1][3][0][0] == "call":
                    m = norm(fa[1][2]).rsplit("::", 1)[-1]
                    if m == "is_some":
                        look, some = fa[1][3][0], fa[2] is True
                    elif m == "is_none":
                        look, some = fa[1][3][0], fa[2] is False
                    elif m in ("eq", "ne") and len(fa[1][3]) == 2:
                        for x, y in (fa[1][3], fa[1][3][::-1]):
                            if x[0] == "call" and y[0] == "agg" and y[2] == "Some":
                                look, some = x, (fa[2] is True) == (m == "eq")
                elif fa[0] == "cmp" and fa[1] == "Ne" and fa[2][0] == "call" and norm(fa[2][2]) == "flussab::text::fixed" and fa[3] == ("c", 0) and X is None:
                    args = fa[2][3]
                    lit = args[2] if len(args) > 2 else None
                    while lit is not None and lit[0] == "cast":
                        lit = lit[2]
                    if len(args) > 2 and args[1] == ("c", 0) and lit is not None and lit[0] == "cb":
                        for j in range(len(lit[1])):
                            examined[("c", j)] = sb
                if look is None or not some:
                    continue
                ln = norm(look[2])
                if ln == DRp + "request_byte":
                    examined[("c", 0)] = sb
                elif ln == DRp + "request_byte_at_offset" and len(look[3]) > 1:
                    examined[strip_bb(look[3][1])] = sb
            # an index found by scanning the buffered slice itself (`buf()[..k].iter().rposition(..)`) names a byte that is there
            if X is not None and c == 1:
                from . import scanidx as SI
                sc = SI.scanned_slice(fn, X)
                if sc is not None and mentions(sc[0], lambda y: y[0] == "call" and norm(y[2]).endswith("DeferredReader::buf")):
                    rule.ok("%s advances by an index found in the buffered slice + 1" % short(norm(fid)), fn.loc(bb))
                    continue
            missing = []
            for j in range(c):
                if X is None:
                    want = ("c", j)
                else:
                    want = strip_bb(X) if j == 0 else ("bin", "Add", strip_bb(X), ("c", j))
                sb = examined.get(want)
                if sb is None:
                    missing.append(j)
                elif X is not None and X[0] == "l" and not guards.fresh_since(fn, X[1], sb, bb):
                    missing.append(j)
            rule.check(not missing, key, "%s advances by %s%d over bytes that a look-ahead answered on the way%s" % (short(norm(fid)), (sy.show(X) + " + ") if X is not None else "", c, "" if not missing else ": nothing shows that the byte at +%s was there (the input may end in front of it, and advance then panics)" % missing), fn.loc(bb))
    rule.note("advance_sites", n_sites)
    if n_plus < 8:
        rule.bad("advance/sites", "only %d advance sites with a constant part found (8 confirmed by hand)" % n_plus, kind="anchor-missing")


def run_r4(ctx, rule, tn):
    from .c05 import in_scope
    facts = ctx.facts
    ordn = {}
    counts = {}
    for f, bi, kind, t in sites(facts, in_scope):
        nid = norm(f.id)
        o = ordn.get((nid, kind), 0)
        ordn[(nid, kind)] = o + 1
        cls, why = classify(facts, tn, f, bi, kind, t)
        counts[cls or "undischarged"] = counts.get(cls or "undischarged", 0) + 1
        key = "%s/%s/#%d" % (nid, kind, o)
        if cls is None:
            rule.bad(key, "%s in %s: %s" % (kind, short(nid), why), f.loc(bi))
        else:
            rule.ok("%s in %s" % (kind, short(nid)), f.loc(bi), "%s: %s" % (cls, why))
    rule.note("sites_by_class", counts)
