"""C05-R4: panic-site inventory (see c05.py)."""
from . import util, guards
from .cfg import cfg
from .common import norm, family
from .sym import sym, short, mentions, subexprs
from .c10 import strip_bb

PANIC_CALLS = ("core::panicking::panic", "core::panicking::panic_fmt", "core::panicking::panic_display", "core::panicking::assert_failed", "core::panicking::unreachable_display")
UNWRAPS = ("core::option::Option::unwrap", "core::option::Option::expect", "core::result::Result::unwrap", "core::result::Result::expect")
INDEXING = ("core::slice::index::index", "core::slice::index::index_mut", "core::slice::split_at", "core::slice::copy_within", "core::slice::split_at_mut")
ADV = ("flussab::deferred_reader::DeferredReader::advance", "flussab::deferred_reader::DeferredReader::advance_with_buf")

# leaves an offset expression may be built from to count as "derived from scanning the buffer"
SCAN_CALLS = (
    "flussab::text::", "flussab::deferred_reader::DeferredReader::buf_len", "core::str::len", "core::slice::len", "core::str::error::Utf8Error::valid_up_to",
    "flussab_btor2::token::ascii_lowercase", "flussab_btor2::token::hex_string", "flussab_btor2::token::decimal_string", "flussab_btor2::token::binary_string",
    "core::iter::traits::iterator::Iterator::position", "core::iter::traits::iterator::Iterator::count", "core::num::saturating_sub",
    "flussab::deferred_reader::DeferredReader::buf", "flussab::deferred_reader::DeferredReader::advance_with_buf", "flussab::text::LineReader::reader",
    "core::slice::index::index", "core::slice::iter", "core::iter::traits::iterator::Iterator::rev", "core::iter::traits::iterator::Iterator::filter", "alloc::vec::Vec::len",
)

RESIDUAL = {
    ("flussab_btor2::token::positive_int", "Option::unwrap"): "NonZeroU64::new(width): a leading '0' was rejected before uint, and uint rejects numbers with leading zeros, so width != 0",
    ("flussab::deferred_reader::DeferredReader::advance_cold", "panic"): "the documented panic of advance(n) for n > buf_len(); callers pass scanned offsets only (checked per call site)",
    ("flussab::deferred_reader::DeferredReader::request_more", "panic"): "load-bearing assert on a broken Read implementation (not reachable with a conforming source)",
}


def sites(facts, in_scope):
    for fid, f in sorted(facts.fns.items()):
        if not in_scope(f):
            continue
        for bi, b in enumerate(f.blocks):
            if b["cleanup"]:
                continue
            t = b["term"]
            if t["k"] == "assert" and t["msg"] == "BoundsCheck":
                yield f, bi, "BoundsCheck", t
            elif t["k"] == "call":
                cn = norm(util.cname(t))
                if cn in PANIC_CALLS:
                    yield f, bi, "panic", t
                elif cn in UNWRAPS:
                    yield f, bi, short(cn), t
                elif cn in ADV and not norm(f.id).startswith("flussab::deferred_reader"):
                    yield f, bi, "advance", t
                elif norm(t["callee"].get("def", "")) in ("core::ops::index::Index::index", "core::ops::index::IndexMut::index_mut") or cn in INDEXING or cn.endswith(("Index<I>>::index", "IndexMut<I>>::index_mut")) or "index::<impl core::ops::index::Index" in util.cname(t):
                    yield f, bi, "index", t


def scan_derived(tn, f, e, depth=0):
    """is the expression built only from constants, look-ahead offsets and scanner / length results?"""
    sy = sym(f)
    if depth > 6:
        return False
    k = e[0]
    if k == "c":
        return True
    if k == "l":
        o = sy.origin(e)
        if o != e:
            return scan_derived(tn, f, o, depth + 1)
        return not tn.tainted(f, e)
    if k in ("bin", "ovf"):
        return scan_derived(tn, f, e[2], depth + 1) and scan_derived(tn, f, e[3], depth + 1)
    if k == "cast":
        return scan_derived(tn, f, e[2], depth + 1)
    if k == "un":
        return scan_derived(tn, f, e[2], depth + 1)
    if k == "f":
        return scan_derived(tn, f, e[1], depth + 1)
    if k == "v":
        return scan_derived(tn, f, e[1], depth + 1)
    if k == "agg":
        return all(scan_derived(tn, f, x, depth + 1) for x in e[3])
    if k == "call":
        n = norm(e[2])
        if any(n.startswith(p) if p.endswith("::") else n == p for p in SCAN_CALLS) or n.endswith(("Try>::branch", "Option::unwrap")) or ("slice::index" in n and n.endswith("::index")) or n.endswith(("Index<I>>::index", "::deref")):
            return not tn.tainted(f, e) and all(scan_derived(tn, f, a, depth + 1) for a in e[3] if a[0] not in ("f", "l") or True) if False else not tn.tainted(f, e)
        return False
    return False


def classify(facts, tn, f, bi, kind, t):
    sy = sym(f)
    nid = norm(f.id)
    if kind == "panic":
        # explicit panics: debug_assert!/assert! expansions are conditions on internal state
        if t.get("exp") and norm(f.id).startswith("flussab::deferred_reader"):
            return "internal-assert", "debug assertion on the reader's own invariant (C02/C14)"
        if (nid, "panic") in RESIDUAL:
            return "residual", RESIDUAL[(nid, "panic")]
        if t.get("exp"):
            # unwrap-like expansions (unreachable!, assert!) in parser code
            return None, "explicit panic in parser-reachable code"
        return None, "explicit panic in parser-reachable code"
    if kind in ("Option::unwrap", "Option::expect", "Result::unwrap", "Result::expect"):
        a = sy.operand(t["args"][0])
        a = sy.origin(a) if a[0] == "l" else a
        if a[0] == "call":
            n = norm(a[2])
            if n.endswith("FromPrimitive::from_u8") or n.endswith("FromPrimitive::from_u32"):
                x = a[3][0]
                if x[0] == "c" and 0 <= x[1] <= 127:
                    return "from-primitive-const", "from_u8(%d) exists for every integer type" % x[1]
                if x[0] == "bin" and x[1] == "Sub" and x[3] == ("c", 48):
                    g = guards.holds(f, bi, lambda fa: fa[0] == "cmp" and fa[1] == "Le" and fa[3] == ("c", 57) or fa[0] == "cmp" and fa[1] == "Le" and fa[2] == ("c", 48) or fa[0] == "bool" and fa[2] is True and fa[1][0] == "call" and norm(fa[1][2]).endswith("is_ascii_digit"))
                    if g:
                        return "from-primitive-digit", "from_u8(byte - b'0') with byte in '0'..='9'"
            if n.endswith(("slice::split_last", "slice::split_first", "slice::last", "slice::first", "<impl [T]>::split_last", "<impl [T]>::split_first", "<impl [T]>::last", "<impl [T]>::first")):
                # of a vector that was built by vec![..] with elements and only pushed to since: never empty
                base = a[3][0]
                for _ in range(4):
                    if base[0] == "call" and norm(base[2]).endswith(("::deref", "::as_slice", "::borrow", "Index<I>>::index")):
                        base = base[3][0]
                    elif base[0] == "l":
                        b2 = sy.origin(base)
                        if b2 == base:
                            break
                        base = b2
                    else:
                        break
                bo = base
                if bo[0] == "call" and "into_vec" in norm(bo[2]):
                    return "nonempty-literal", "the slice is a vector created by vec![..] with at least one element (elements are only added afterwards)"
                if bo[0] == "l":
                    defs = sy.defs.get(bo[1], [])
                    if defs and all(d[0] == "call" and "into_vec" in norm(util.cname(d[2])) for d in defs):
                        shrink = [1 for bb2, t2 in f.calls() if util.cname(t2).rsplit("::", 1)[-1] in ("pop", "clear", "truncate", "remove", "swap_remove", "drain", "retain") and strip_bb(sy.operand(t2["args"][0])) == strip_bb(bo)]
                        if not shrink:
                            return "nonempty-literal", "the slice is a vector created by vec![..] with at least one element and never shrunk"
            if n.endswith("Vec::pop"):
                recv = strip_bb(a[3][0])
                c = cfg(f)
                ro = sy.origin(a[3][0]) if a[3][0][0] == "l" else a[3][0]
                if ro[0] == "call" and "into_vec" in norm(ro[2]):
                    return "pop-of-nonempty-literal", "the vector was created by vec![..] with at least one element and only pushed to since"
                pushes = [bb for bb, t2 in f.calls() if util.cname(t2).endswith("Vec::push") and strip_bb(sy.operand(t2["args"][0])) == recv and c.dominates(bb, bi)]
                if pushes:
                    return "pop-after-push", "the vector was pushed to on every path (push at %s)" % f.loc(pushes[0])
            if n.endswith("str::converts::from_utf8"):
                arg = a[3][0]
                # from_utf8(&buf()[..offset]) where offset came from a digit scanner (+ '{' / '}' for braced numbers): ASCII only
                if mentions(arg, lambda x: x[0] == "call" and norm(x[2]).endswith("DeferredReader::buf")) and scan_derived(tn, f, arg):
                    return "utf8-of-scanned-digits", "the bytes up to the scanned offset are ASCII digits (and '-', '{', '}')"
        if (nid, kind) in RESIDUAL:
            return "residual", RESIDUAL[(nid, kind)]
        if (family(nid), kind) in RESIDUAL and a[0] == "call" and "NonZero" in a[2]:
            return "residual", RESIDUAL[(family(nid), kind)]
        return None, "unwrap of %s" % sy.show(a)[:80]
    if kind == "advance":
        n = sy.operand(t["args"][1])
        if tn.tainted(f, n):
            return None, "the cursor is advanced by a number the input declares (%s)" % sy.show(n)[:60]
        if scan_derived(tn, f, n):
            return "advance-scanned", "advances by an offset obtained from scanning the buffered data (%s)" % sy.show(n)[:60]
        return None, "advance amount %s is not derived from a scan of the buffer" % sy.show(n)[:60]
    if kind in ("index", "BoundsCheck"):
        args = [sy.operand(a) for a in t["args"]] if kind == "index" else [sy.operand(o) for o in t["ops"]]
        if any(tn.tainted(f, a) for a in args[1:] if kind == "index") or (kind == "BoundsCheck" and tn.tainted(f, args[1])):
            return None, "indexed by a number the input declares (%s)" % " , ".join(sy.show(a)[:40] for a in args)
        if kind == "index" and all(scan_derived(tn, f, a) for a in args[1:]):
            return "index-scanned", "indexes buffered data with offsets obtained from scanning it (%s)" % sy.show(args[1])[:60]
        if kind == "BoundsCheck":
            return "index-untainted", "array index is not a declared number (%s)" % sy.show(args[1])[:40]
        return "index-untainted", "index is not a declared number (%s)" % sy.show(args[1])[:60]
    return None, "unknown kind"


def run_r4(ctx, rule, tn):
    from .c05 import in_scope
    facts = ctx.facts
    ordn = {}
    counts = {}
    for f, bi, kind, t in sites(facts, in_scope):
        nid = norm(f.id)
        o = ordn.get((nid, kind), 0)
        ordn[(nid, kind)] = o + 1
        cls, why = classify(facts, tn, f, bi, kind, t)
        counts[cls or "undischarged"] = counts.get(cls or "undischarged", 0) + 1
        key = "%s/%s/#%d" % (nid, kind, o)
        if cls is None:
            rule.bad(key, "%s in %s: %s" % (kind, short(nid), why), f.loc(bi))
        else:
            rule.ok("%s in %s" % (kind, short(nid)), f.loc(bi), "%s: %s" % (cls, why))
    rule.note("sites_by_class", counts)
