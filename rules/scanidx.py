"""Facts about indices found by scanning a slice (`iter().position(..)`, `iter().rposition(..)`, `iter().rev().position(..)`):
the index found is below the length of the slice that was scanned, and a slice cut by `&s[..k]` has length k.

Used where a subtraction or an `advance` is justified by "this index lies inside that slice" (C05-R2, C08-R8): the
justification is recomputed from the code on every run instead of being believed from a table.
"""
from .common import norm
from .sym import sym
from .cfg import cfg

ADAPTERS = ("rev", "by_ref", "into_iter", "copied", "cloned")


def _last(e):
    return norm(e[2]).rsplit("::", 1)[-1] if e and e[0] == "call" else None


def _def_expr(sy, e):
    """definition of a local with exactly one definition (also when it is borrowed mutably afterwards: an iterator
    handed to `position` by `&mut`)"""
    if e[0] != "l" or sy.is_arg(e[1]):
        return None
    ds = sy.defs.get(e[1], [])
    if len(ds) != 1 or e[1] in sy.partial:
        return None
    d = ds[0]
    if d[0] == "call":
        t = d[2]
        c = t.get("callee", {})
        return ("call", d[1], c.get("res") or c.get("def") or "?", tuple(sy.operand(a, 1) for a in t["args"]))
    return sy.rvalue(d[3], 1)


def peel(sy, e, depth=0):
    """follow named snapshots / casts / Some-payload projections to the defining expression"""
    while depth < 12 and isinstance(e, tuple):
        depth += 1
        if e[0] == "cast":
            e = e[2]
            continue
        if e[0] == "l":
            d = _def_expr(sy, e)
            if d is None or d == e:
                return e
            e = d
            continue
        if e[0] == "f" and e[2] == "0" and e[1][0] == "v" and e[1][2] == "Some":
            e = e[1][1]
            continue
        return e
    return e


def scanned_slice(fn, e):
    """if e is the index found by position / rposition over a slice iterator: (slice expression, found_from_back)"""
    sy = sym(fn)
    e = peel(sy, e)
    m = _last(e)
    if m not in ("position", "rposition") or not e[3]:
        return None
    it = peel(sy, e[3][0])
    rev = False
    for _ in range(6):
        k = _last(it)
        if k == "iter" and it[3]:
            return peel_ref(sy, it[3][0]), (m == "rposition") != rev
        if k in ADAPTERS and it[3]:
            if k == "rev":
                rev = not rev
            it = peel(sy, it[3][0])
            continue
        return None
    return None


def peel_ref(sy, e):
    """the slice behind reborrows and named snapshots (`let bytes = &bytes[..k]`)"""
    return peel(sy, e)


def slice_cut(fn, s):
    """if the slice expression is `&x[..k]`: the expression k (its length on the path where indexing did not panic)"""
    sy = sym(fn)
    s = peel(sy, s)
    if _last(s) == "index" and len(s[3]) > 1:
        r = peel(sy, s[3][1])
        if r[0] == "agg" and r[1].endswith("RangeTo") and len(r[3]) == 1:
            return s[1], r[3][0]
    return None


def same_slice(fn, a, b):
    sy = sym(fn)
    return strip(peel(sy, a)) == strip(peel(sy, b))


def strip(e):
    """expression without the block numbers of calls (two reads of `x.len()` are the same term)"""
    if not isinstance(e, tuple):
        return e
    if e and e[0] == "call":
        return ("call", norm(e[2]), tuple(strip(a) for a in e[3]))
    return tuple(strip(x) if isinstance(x, tuple) else x for x in e)


def len_of(fn, e):
    """if e is `s.len()`: the slice expression s"""
    sy = sym(fn)
    e = peel(sy, e)
    if _last(e) == "len" and e[3]:
        return peel(sy, e[3][0])
    return None


def at_most_len(fn, e):
    """slice S such that 1 <= e <= len(S) follows from the form of e:  len(S) - q  with q found in S,  or  p + 1  with
    p found in S"""
    sy = sym(fn)
    e = peel(sy, e)
    if e[0] in ("bin", "ovf") and e[1].replace("WithOverflow", "") in ("Sub",):
        s = len_of(fn, e[2])
        q = scanned_slice(fn, e[3])
        if s is not None and q is not None and strip(s) == strip(q[0]):
            return s
    if e[0] == "f" and e[2] == "0" and e[1][0] in ("bin", "ovf"):
        return at_most_len(fn, e[1])
    if e[0] in ("bin", "ovf") and e[1].replace("WithOverflow", "") in ("Add",):
        for x, y in ((e[2], e[3]), (e[3], e[2])):
            if y == ("c", 1):
                p = scanned_slice(fn, x)
                if p is not None:
                    return p[0]
    return None


def unchanged_between(fn, local, bb_from, bb_to):
    """no assignment to `local` on any way from block bb_from to block bb_to (both excluded at their ends: an
    assignment in bb_to behind the use does not count because uses are in assert/terminator position)"""
    c = cfg(fn)
    for bi, b in enumerate(fn.blocks):
        if b["cleanup"]:
            continue
        writes = any(s["k"] == "assign" and s["lhs"]["l"] == local and not s["lhs"]["p"] for s in b["stmts"])
        t = b["term"]
        if t["k"] == "call" and t["dest"]["l"] == local and not t["dest"]["p"]:
            writes = True
        if not writes or bi == bb_from:
            continue
        if bi == bb_to:
            # the use sits in the statements of bb_to; an assignment in the same block in front of it would count
            continue
        if bi in c.reachable_from(bb_from) and bb_to in c.reachable_from(bi):
            return False
    return True
