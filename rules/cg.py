"""E-CG: instance call graph queries (reachability, SCCs, who-may-call)."""
from .common import norm


def inst_def(facts, key):
    return facts.inst[key]["def"]


def succs(facts, key):
    n = facts.inst.get(key)
    if not n:
        return []
    return [c["to"] for c in n["calls"] if "to" in c and c["to"] in facts.inst]


def reach(facts, roots):
    seen = set()
    st = list(roots)
    while st:
        k = st.pop()
        if k in seen or k not in facts.inst:
            continue
        seen.add(k)
        st.extend(succs(facts, k))
    return seen


def reach_above(facts, roots, stop_defs):
    """instances reachable from roots without descending *into* instances whose definition is in stop_defs
    (those are primitives: what they do internally is their own business); the stop instances are included"""
    seen = set()
    st = list(roots)
    while st:
        k = st.pop()
        if k in seen or k not in facts.inst:
            continue
        seen.add(k)
        if norm(facts.inst[k]["def"]) in stop_defs and k not in roots:
            continue
        st.extend(succs(facts, k))
    return seen


def sccs(facts, nodes):
    """Tarjan (iterative) over the sub-graph induced by `nodes`; returns list of SCCs (lists)"""
    index = {}
    low = {}
    onst = set()
    stack = []
    out = []
    idx = [0]
    for root in sorted(nodes):
        if root in index:
            continue
        work = [(root, iter([s for s in succs(facts, root) if s in nodes]))]
        index[root] = low[root] = idx[0]
        idx[0] += 1
        stack.append(root)
        onst.add(root)
        while work:
            v, it = work[-1]
            adv = False
            for w in it:
                if w not in index:
                    index[w] = low[w] = idx[0]
                    idx[0] += 1
                    stack.append(w)
                    onst.add(w)
                    work.append((w, iter([s for s in succs(facts, w) if s in nodes])))
                    adv = True
                    break
                elif w in onst:
                    low[v] = min(low[v], index[w])
            if adv:
                continue
            work.pop()
            if work:
                u = work[-1][0]
                low[u] = min(low[u], low[v])
            if low[v] == index[v]:
                comp = []
                while True:
                    w = stack.pop()
                    onst.discard(w)
                    comp.append(w)
                    if w == v:
                        break
                out.append(comp)
    return out


def self_loop(facts, k):
    return k in succs(facts, k)


def roots_of(facts, pred):
    """instance roots (identity generic) whose def path satisfies pred"""
    return [r for r in facts.roots if r in facts.inst and pred(norm(facts.inst[r]["def"]))]


def def_callees(facts, fn):
    """static callee def paths (resolved where possible) of a body"""
    out = []
    for bb, t in fn.calls():
        c = t.get("callee", {})
        out.append((bb, c.get("res") or c.get("def") or ""))
    return out


def def_reach(facts, start_ids):
    """def-level reachability through resolved static callees and closures created in the body"""
    seen = set()
    st = list(start_ids)
    while st:
        i = st.pop()
        if i in seen:
            continue
        seen.add(i)
        f = facts.fns.get(i)
        if f is None:
            continue
        for _, d in def_callees(facts, f):
            if d in facts.fns and d not in seen:
                st.append(d)
        for b in f.blocks:
            for s in b["stmts"]:
                if s["k"] == "assign" and s["rv"]["k"] == "agg" and s["rv"].get("ak") == "closure":
                    st.append(s["rv"]["closure"])
    return seen


def find_path(facts, src, pred):
    """shortest instance path from src to a node satisfying pred(key)"""
    from collections import deque

    prev = {src: None}
    dq = deque([src])
    while dq:
        k = dq.popleft()
        if pred(k) and k != src:
            p = []
            while k is not None:
                p.append(k)
                k = prev[k]
            return list(reversed(p))
        for s in succs(facts, k):
            if s not in prev:
                prev[s] = k
                dq.append(s)
    return None
