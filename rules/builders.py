"""Configuration builders: `pub fn <field>(mut self, value: T) -> Self { self.<field> = value; self }`.

Every property that is stated "for every combination of options" (C12: trim / structural_hash / const_fold; C06 / C03:
ignore_header; C07: ignore_unknown_lines) quantifies over configurations built with these setters: a setter that stores
into a sibling field, stores something other than its parameter, or drops the rest of the configuration makes one
option unreachable and another one mean something else.  Decided per setter from its MIR: exactly one store into the
configuration, into the field named like the method, of the parameter itself; the value returned is `self`.
Whether the derived `Default` is all-false is the compiler's derive, not code of the repository."""
from .common import norm
from .sym import sym, short
from . import util


def run(ctx, rule, adts, floor_sites):
    facts = ctx.facts
    n = 0
    for adt in adts:
        a = facts.adts.get(adt)
        if a is None:
            rule.bad("%s/missing" % adt, "anchor missing: %s" % adt, kind="anchor-missing")
            continue
        fields = [fl["name"] for fl in a["variants"][0]["fields"]]
        for fid, f in sorted(facts.fns.items()):
            nid = norm(fid)
            if not nid.startswith(adt + "::") or f.crate in ("ext", "promoted") or "{closure" in nid:
                continue
            m = nid.rsplit("::", 1)[-1]
            if m not in fields or f.argc != 2 or not f.j.get("pub"):
                continue
            n += 1
            sy = sym(f)
            stores = [(bi, si, name) for f2, bi, si, name in util.field_stores(facts, adt) if f2 is f]
            ok_store = len(stores) == 1 and stores[0][2] == m and stores[0][1] is not None and sy.rvalue(f.blocks[stores[0][0]]["stmts"][stores[0][1]]["rv"]) == ("l", 2)
            what = ", ".join("%s = %s" % (nm, sy.show(sy.rvalue(f.blocks[bi]["stmts"][si]["rv"])) if si is not None else "call") for bi, si, nm in stores) or "no store"
            rule.check(ok_store, "%s/stores-own-field" % nid, "%s stores exactly its parameter into the field of its own name  [%s]" % (short(nid), what), f.loc())
            ret_self = False
            for b in f.blocks:
                if b["cleanup"]:
                    continue
                for s_ in b["stmts"]:
                    if s_["k"] == "assign" and s_["lhs"]["l"] == 0 and not s_["lhs"]["p"]:
                        ret_self = sy.rvalue(s_["rv"]) == ("l", 1)
            rule.check(ret_self, "%s/returns-self" % nid, "%s returns the configuration it was called on (the other options keep their values)" % short(nid), f.loc())
    if n < floor_sites:
        rule.bad("builders/sites", "only %d option setters found (%d confirmed by hand)" % (n, floor_sites), kind="anchor-missing")
