"""E-AFF: affine symbolic execution of MIR along acyclic paths (Karr-style linear equalities, no solver).

Values:
  Aff(const, {symbol: coeff})      integers as affine forms over symbols (wrapping ops treated as ring ops)
  ("tup", (v0, v1, ..))            tuples (checked arithmetic results)
  ("ref", key)                     reference to a memory cell key
  ("agg", name, variant, (v..))    aggregate (Range, Option::Some, ...)
Symbols are strings: "<field>@0" entry value of a field of the receiver, "arg<i>", "call@<bb>" results
of unknown calls, "<sym>.<proj>" projections of opaque values.
Memory: cells keyed by (root, path) where root is an argument local holding a reference.
"""
from .cfg import cfg
from .common import norm
from .sym import short


class Aff:
    __slots__ = ("c", "t")

    def __init__(self, c=0, t=None):
        self.c = c
        self.t = {k: v for k, v in (t or {}).items() if v != 0}

    @staticmethod
    def sym(name):
        return Aff(0, {name: 1})

    def __add__(self, o):
        t = dict(self.t)
        for k, v in o.t.items():
            t[k] = t.get(k, 0) + v
        return Aff(self.c + o.c, t)

    def __neg__(self):
        return Aff(-self.c, {k: -v for k, v in self.t.items()})

    def __sub__(self, o):
        return self + (-o)

    def scale(self, k):
        return Aff(self.c * k, {s: v * k for s, v in self.t.items()})

    def is_const(self):
        return not self.t

    def __eq__(self, o):
        return isinstance(o, Aff) and self.c == o.c and self.t == o.t

    def __hash__(self):
        return hash((self.c, tuple(sorted(self.t.items()))))

    def __repr__(self):
        parts = []
        for k, v in sorted(self.t.items()):
            if v == 1:
                parts.append(k)
            elif v == -1:
                parts.append("-" + k)
            else:
                parts.append("%d*%s" % (v, k))
        if self.c or not parts:
            parts.append(str(self.c))
        return " + ".join(parts).replace("+ -", "- ")

    def syms(self):
        return set(self.t)


RING = {
    "core::num::wrapping_add": "add",
    "core::num::wrapping_sub": "sub",
    "core::num::wrapping_mul": "mul",
    "core::num::overflowing_sub": "osub",
    "core::num::overflowing_add": "oadd",
    "core::num::saturating_sub": None,
    "core::num::checked_sub": "csub",
    "core::num::checked_add": "cadd",
}


class State:
    def __init__(self):
        self.loc = {}
        self.mem = {}
        self.version = 0
        self.hav = []  # (key, version) havocked prefixes
        self.events = []  # (kind, bb, data)
        self.infeasible = False  # the path takes a branch that contradicts a value it built itself

    def copy(self):
        s = State()
        s.loc = dict(self.loc)
        s.mem = dict(self.mem)
        s.version = self.version
        s.hav = list(self.hav)
        s.events = list(self.events)
        return s


class PathExec:
    """executes one function along given block paths"""

    def __init__(self, facts, fn, summaries=None):
        self.facts = facts
        self.fn = fn
        self.summaries = summaries or {}
        self.fresh = 0

    def opaque(self, name):
        return Aff.sym(name)

    # --- memory cells ---------------------------------------------------------------------
    def cell_key(self, st, place):
        """(root, path) for a place that goes through a reference held by a local"""
        l = place["l"]
        v = st.loc.get(l)
        path = []
        root = None
        projs = list(place["p"])
        if projs and projs[0] == "*":
            if isinstance(v, tuple) and v[0] == "ref":
                root, path = v[1][0], list(v[1][1])
            elif self.fn.argc >= l >= 1:
                root = "arg%d" % l
            else:
                return None
            projs = projs[1:]
        else:
            root = "local%d" % l
        for pr in projs:
            if pr == "*":
                return None
            if isinstance(pr, dict):
                if "f" in pr:
                    path.append(pr["name"])
                elif "downcast" in pr:
                    path.append("as " + pr["vname"])
                else:
                    return None
            else:
                return None
        return (root, tuple(path))

    def read_place(self, st, place):
        l = place["l"]
        if not place["p"]:
            v = st.loc.get(l)
            if v is None:
                if 1 <= l <= self.fn.argc:
                    v = Aff.sym("arg%d" % l)
                else:
                    v = Aff.sym("undef%d" % l)
                st.loc[l] = v
            return v
        # projection on a local value (tuple field of a checked op, payload of an opaque call result)
        if place["p"][0] != "*":
            base = self.read_place(st, {"l": l, "p": []})
            v = base
            for pr in place["p"]:
                v = self.project(v, pr)
            return v
        key = self.cell_key(st, place)
        if key is None:
            return self.opaque("mem?%d" % self._next())
        if key in st.mem:
            return st.mem[key]
        # first read of a cell: symbolic entry value; if a prefix cell holds an aggregate, project it
        for i in range(len(key[1]) - 1, -1, -1):
            pk = (key[0], key[1][:i])
            if pk in st.mem:
                v = st.mem[pk]
                for name in key[1][i:]:
                    v = self.project(v, {"f": 0, "name": name})
                return v
        name = ".".join(key[1]) if key[1] else "*"
        ver = 0
        for hk, hv in st.hav:
            if hk[0] == key[0] and key[1][: len(hk[1])] == hk[1]:
                ver = max(ver, hv)
        if ver:
            v = Aff.sym("%s~%d" % (name, ver))
        else:
            v = Aff.sym("%s%s@0" % (name, "" if key[0] == "arg1" else "[" + key[0] + "]"))
        st.mem[key] = v
        return v

    def _next(self):
        self.fresh += 1
        return self.fresh

    def project(self, v, pr):
        if pr == "*":
            return v
        if isinstance(pr, dict) and "f" in pr:
            if isinstance(v, tuple) and v[0] == "tup" and pr["f"] < len(v[1]):
                return v[1][pr["f"]]
            if isinstance(v, tuple) and v[0] == "agg" and pr["f"] < len(v[3]):
                return v[3][pr["f"]]
            if isinstance(v, Aff) and len(v.t) == 1 and v.c == 0:
                (s, k), = v.t.items()
                if k == 1:
                    return Aff.sym("%s.%s" % (s, pr["name"]))
            return self.opaque("proj%d" % self._next())
        if isinstance(pr, dict) and "downcast" in pr:
            if isinstance(v, tuple) and v[0] == "agg":
                return v
            if isinstance(v, Aff) and len(v.t) == 1 and v.c == 0:
                (s, k), = v.t.items()
                return Aff.sym("%s.%s" % (s, pr["vname"]))
            return self.opaque("proj%d" % self._next())
        return self.opaque("proj%d" % self._next())

    def operand(self, st, o):
        if "c" in o:
            c = o["c"]
            if "int" in c:
                return Aff(c["int"])
            return ("const", c.get("dbg", ""))
        p = o.get("cp") or o.get("mv")
        if p is None:
            return self.opaque("op%d" % self._next())
        return self.read_place(st, p)

    def rvalue(self, st, rv, bb, si):
        k = rv["k"]
        if k == "use":
            return self.operand(st, rv["a"])
        if k in ("ref", "rawptr"):
            pl = rv["p"]
            if pl["p"] == ["*"]:
                v = st.loc.get(pl["l"])
                if v is None and 1 <= pl["l"] <= self.fn.argc:
                    v = Aff.sym("arg%d" % pl["l"])
                    st.loc[pl["l"]] = v
                if v is not None and not (isinstance(v, tuple) and v[0] == "ref"):
                    return v  # reborrow of an opaque reference value: same value
            key = self.cell_key(st, rv["p"])
            if key is None:
                return self.opaque("ref%d" % self._next())
            return ("ref", key)
        if k == "cast":
            a = self.operand(st, rv["a"])
            if rv["ck"] in ("IntToInt",) or rv["ck"].startswith("PointerCoercion") or rv["ck"] in ("PtrToPtr",):
                return a
            return self.opaque("cast@%d.%d" % (bb, si))
        if k == "bin":
            a = self.operand(st, rv["a"])
            b = self.operand(st, rv["b"])
            op = rv["op"]
            base = op.replace("WithOverflow", "").replace("Unchecked", "")
            res = None
            if isinstance(a, Aff) and isinstance(b, Aff):
                if base == "Add":
                    res = a + b
                elif base == "Sub":
                    res = a - b
                elif base == "Mul":
                    if a.is_const():
                        res = b.scale(a.c)
                    elif b.is_const():
                        res = a.scale(b.c)
                elif base == "Div" and b.is_const() and b.c != 0 and a.is_const():
                    res = Aff(a.c // b.c)
            if res is None:
                if base in ("Eq", "Ne", "Lt", "Le", "Gt", "Ge"):
                    res = ("cmp", base, a, b)
                elif base == "Div" and isinstance(a, Aff) and isinstance(b, Aff):
                    res = ("div", a, b)
                elif base == "Mul" and isinstance(a, Aff) and isinstance(b, Aff):
                    res = ("mul", a, b)
                else:
                    res = self.opaque("bin@%d.%d" % (bb, si))
            if op.endswith("WithOverflow"):
                return ("tup", (res, ("ovf", base, a, b)))
            return res
        if k == "agg":
            ops = tuple(self.operand(st, o) for o in rv["ops"])
            if rv["ak"] == "tuple":
                return ("tup", ops)
            return ("agg", rv.get("adt") or rv.get("closure") or rv["ak"], rv.get("variant", ""), ops)
        if k == "discr":
            return ("discr", self.read_place(st, rv["p"]))
        if k == "un":
            a = self.operand(st, rv["a"])
            if rv["op"] == "Neg" and isinstance(a, Aff):
                return -a
            return ("un", rv["op"], a)
        return self.opaque("rv@%d.%d" % (bb, si))

    def write_place(self, st, place, v, bb):
        if not place["p"]:
            st.loc[place["l"]] = v
            return
        if place["p"][0] != "*":
            # partial update of a local aggregate: give up on that local
            st.loc[place["l"]] = self.opaque("partial%d" % self._next())
            return
        key = self.cell_key(st, place)
        if key is None:
            return
        st.mem[key] = v
        # sub-cells of an overwritten aggregate are stale
        for k2 in list(st.mem):
            if k2 != key and k2[0] == key[0] and k2[1][: len(key[1])] == key[1]:
                del st.mem[k2]
        st.events.append(("store", bb, (key, v)))

    def havoc_cell(self, st, key, bb):
        st.version += 1
        st.hav.append((key, st.version))
        for k2 in list(st.mem):
            if k2[0] == key[0] and k2[1][: len(key[1])] == key[1]:
                st.mem[k2] = Aff.sym("%s~%d" % (".".join(k2[1]) or "*", st.version))
        if key not in st.mem:
            st.mem[key] = Aff.sym("%s~%d" % (".".join(key[1]) or "*", st.version))

    def run_path(self, path, st=None):
        """execute the blocks of `path` in order; returns the final state"""
        fn = self.fn
        st = st or State()
        for i, bb in enumerate(path):
            b = fn.blocks[bb]
            nxt = path[i + 1] if i + 1 < len(path) else None
            for si, s in enumerate(b["stmts"]):
                if s["k"] == "assign":
                    v = self.rvalue(st, s["rv"], bb, si)
                    self.write_place(st, s["lhs"], v, bb)
            t = b["term"]
            k = t["k"]
            if k == "call":
                self.do_call(st, bb, t)
            elif k == "switch":
                d = self.operand(st, t["discr"])
                taken = None
                if nxt is not None:
                    vals = [v for v, tgt in t["arms"] if tgt == nxt]
                    if nxt == t["otherwise"] and not vals:
                        taken = ("notin", tuple(v for v, _ in t["arms"]))
                    elif len(vals) == 1:
                        taken = ("eq", vals[0])
                    elif vals:
                        taken = ("in", tuple(vals))
                # two tests of the same (opaque) value on one path must agree: `match r { Err(e) if .. => .., r => r }`
                # followed by a second `match` on the value handed on
                if taken is not None and isinstance(d, tuple) and d[0] == "discr":
                    for ev in st.events:
                        if ev[0] == "branch" and ev[2][0] == d and ev[2][1] is not None:
                            t0 = ev[2][1]
                            allowed0 = (lambda v: v == t0[1]) if t0[0] == "eq" else (lambda v: v in t0[1]) if t0[0] == "in" else (lambda v: v not in t0[1])
                            if taken[0] == "eq" and not allowed0(taken[1]):
                                st.infeasible = True
                            elif taken[0] == "in" and not any(allowed0(v) for v in taken[1]):
                                st.infeasible = True
                            elif taken[0] == "notin" and t0[0] == "eq" and t0[1] in taken[1]:
                                st.infeasible = True
                st.events.append(("branch", bb, (d, taken)))
                # `x = if c { Some(v) } else { None }; if let Some(v) = x`: a path through the None assignment cannot
                # take the Some edge
                if isinstance(d, tuple) and d[0] == "discr" and isinstance(d[1], tuple) and d[1][0] == "agg" and taken is not None:
                    adt = self.facts.adts.get(d[1][1])
                    if adt and adt.get("kind") == "enum":
                        dv = [v.get("discr") for v in adt["variants"] if v["name"] == d[1][2]]
                        if len(dv) == 1 and dv[0] is not None:
                            if taken[0] == "eq" and taken[1] != dv[0]:
                                st.infeasible = True
                            elif taken[0] == "in" and dv[0] not in taken[1]:
                                st.infeasible = True
                            elif taken[0] == "notin" and dv[0] in taken[1]:
                                st.infeasible = True
                elif isinstance(d, Aff) and d.is_const() and taken is not None:
                    if (taken[0] == "eq" and taken[1] != d.c) or (taken[0] == "in" and d.c not in taken[1]) or (taken[0] == "notin" and d.c in taken[1]):
                        st.infeasible = True
            elif k == "assert":
                st.events.append(("assert", bb, (self.operand(st, t["cond"]), t["expected"], t["msg"])))
            elif k == "return":
                st.events.append(("return", bb, self.read_place(st, {"l": 0, "p": []})))
        return st

    def do_call(self, st, bb, t):
        cn = norm(t["callee"].get("res") or t["callee"].get("def") or "")
        args = [self.operand(st, a) for a in t["args"]]
        snapshot = dict(st.mem)
        st.events.append(("call", bb, (cn, tuple(args), snapshot)))
        res = None
        if cn in RING and RING[cn] and len(args) == 2 and isinstance(args[0], Aff) and isinstance(args[1], Aff):
            kind = RING[cn]
            if kind == "add":
                res = args[0] + args[1]
            elif kind == "sub":
                res = args[0] - args[1]
            elif kind == "osub":
                res = ("tup", (args[0] - args[1], ("ovf", "Sub", args[0], args[1])))
            elif kind == "oadd":
                res = ("tup", (args[0] + args[1], ("ovf", "Add", args[0], args[1])))
            elif kind in ("csub", "cadd"):
                # the payload of the Some answer (on the None edge nothing reads it)
                res = ("agg", "core::option::Option", "Some", (args[0] - args[1] if kind == "csub" else args[0] + args[1],))
            elif kind == "mul":
                if args[0].is_const():
                    res = args[1].scale(args[0].c)
                elif args[1].is_const():
                    res = args[0].scale(args[1].c)
        summ = self.summaries.get(cn)
        if res is None and summ is not None:
            res = summ(self, st, bb, args)
        if res is None:
            res = self.inline_accessor(st, cn, args)
        if res is None:
            res = Aff.sym("call@%d" % bb)
            # unknown callee: cells reachable through &mut arguments are havocked
            for a, ao in zip(args, t["args"]):
                if isinstance(a, tuple) and a[0] == "ref":
                    p = ao.get("mv") or ao.get("cp")
                    mut = True
                    if p is not None:
                        ty = self.fn.locals[p["l"]]["s"]
                        mut = ty.startswith("&mut") or ty.startswith("*mut")
                    if mut and not cn.startswith(PURE_PREFIXES):
                        self.havoc_cell(st, a[1], bb)
                elif isinstance(a, Aff) and len(a.t) == 1 and a.c == 0 and list(a.t.values()) == [1] and list(a.t)[0].startswith("arg") and list(a.t)[0][3:].isdigit():
                    # the function's own `&mut` reference parameter handed on (`self.request_more()`): everything behind it may change
                    p = ao.get("mv") or ao.get("cp")
                    ty = self.fn.locals[p["l"]]["s"] if p is not None else ""
                    if ty.startswith("&mut") and not cn.startswith(PURE_PREFIXES):
                        self.havoc_cell(st, (list(a.t)[0], ()), bb)
        self.write_place(st, t["dest"], res, bb)


PURE_PREFIXES = ("core::fmt", "core::panicking")


def _accessor(facts, cn):
    """a workspace function that only reads through `&self` along one straight line (`fn end(&self) -> usize
    { self.a + self.b }`): its result is a term over the receiver's fields"""
    cache = facts.__dict__.setdefault("_aff_accessors", {})
    if cn in cache:
        return cache[cn]
    g = None
    for i, f in facts.fns.items():
        if norm(i) == cn and f.crate not in ("ext", "promoted"):
            g = f
            break
    ok = g is not None and g.argc >= 1 and g.locals[1].get("s", "").startswith("&") and not g.locals[1].get("s", "").startswith("&mut")
    if ok:
        for b in g.blocks:
            if b["cleanup"]:
                continue
            k = b["term"]["k"]
            if k not in ("goto", "assert", "return") and not (k == "call" and norm(b["term"]["callee"].get("res") or b["term"]["callee"].get("def") or "") in RING):
                ok = False
            for s in b["stmts"]:
                if s["k"] == "assign" and s["lhs"]["p"] and s["lhs"]["p"][0] == "*":
                    ok = False
    cache[cn] = g if ok else None
    return cache[cn]


def _inline_accessor(self, st, cn, args):
    g = _accessor(self.facts, cn)
    if g is None or len(args) != g.argc:
        return None
    sub = PathExec(self.facts, g)
    s2 = State()
    s2.mem = dict(st.mem)
    for i, a in enumerate(args):
        if isinstance(a, Aff) and len(a.t) == 1 and a.c == 0 and list(a.t)[0].startswith("arg") and list(a.t.values())[0] == 1 and list(a.t)[0][3:].isdigit():
            s2.loc[i + 1] = ("ref", (list(a.t)[0], ()))  # an opaque reference parameter of the caller: same cells
        else:
            s2.loc[i + 1] = a
    path = [0]
    seen = {0}
    while True:
        t = g.blocks[path[-1]]["term"]
        nxt = t.get("target") if t["k"] in ("goto", "assert", "call") else None
        if nxt is None or nxt in seen:
            break
        seen.add(nxt)
        path.append(nxt)
    if g.blocks[path[-1]]["term"]["k"] != "return":
        return None
    sub.run_path(path, s2)
    rets = [e[2] for e in s2.events if e[0] == "return"]
    if len(rets) == 1 and isinstance(rets[0], Aff):
        return rets[0]
    return None


PathExec.inline_accessor = _inline_accessor


def field(st, name, root="arg1"):
    """current value of a receiver field (symbolic entry value if untouched)"""
    key = (root, (name,))
    if key in st.mem:
        return st.mem[key]
    return Aff.sym("%s%s@0" % (name, "" if root == "arg1" else "[" + root + "]"))


def entry(name):
    return Aff.sym("%s@0" % name)
