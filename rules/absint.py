"""E-SHAPE / E-TS: path-sensitive abstract interpreter over MIR with a pluggable typestate.

Domain (all values hashable tuples):
  ("top", prov)                         unknown; prov = provenance token or None (expanded lazily)
  ("e", adt, frozenset((variant, payload|None)), tag)   enum value, payload = abstract value of field 0
  ("byte", mask)                        u8 with a 256-bit class mask
  ("i", c)  ("ge", c)                   integer constant / unsigned lower bound (c <= GE_CAP)
  ("b", val, trefs, frefs)              bool (val None = unknown) with refinements applied on the edge taken
  ("d", local, path, adt)               discriminant of a place
  ("ref", local, path, mut)             reference to a place of the current frame
  ("cell", av)                          reference to an anonymous cell (callee side of reference parameters)
  ("t", (avs..))  ("clo", def, (avs..)) tuple / closure environment
The dataflow state is a set of configurations (env, typestate) per block (disjunctive), finite by
construction (finite value domain, locals removed at StorageDead).  Calls use summaries memoised per
(instance, entry typestate, abstract arguments) -> {(return value, exit typestate)}.
"""
from .common import norm
from . import facts as F

ALL = (1 << 256) - 1
TOP = ("top", None)
GE_CAP = 4
CONST_CAP = 3
CONFIG_CAP = 400
ALIAS_BASE = -100000  # env keys <= ALIAS_BASE: ("alias", src local, src path) for local ALIAS_BASE - key
DEBUG_BLOWUP = False


class Recursion(Exception):
    pass


class Imprecise(Exception):
    pass


def mask_of(vals):
    m = 0
    for v in vals:
        m |= 1 << v
    return m


def mask_list(m):
    return [i for i in range(256) if (m >> i) & 1]


def show_mask(m):
    if m == ALL:
        return "any"
    l = mask_list(m)
    if len(l) > 128:
        return "not{" + ",".join(show_byte(i) for i in mask_list(ALL & ~m)) + "}"
    return "{" + ",".join(show_byte(i) for i in l) + "}"


def show_byte(i):
    if 32 < i < 127:
        return "'%s'" % chr(i)
    return {10: "LF", 13: "CR", 9: "TAB", 32: "SP"}.get(i, "0x%02x" % i)


def enum(adt, variants, tag=None):
    return ("e", adt, frozenset(variants), tag)


OPTION = "core::option::Option"
RESULT = "core::result::Result"
CFLOW = "core::ops::control_flow::ControlFlow"
PARSED = "flussab::parser::Parsed"
# enums / structs whose shape is tracked (frozen table; everything else is an opaque value)
SHAPE_ADTS = (OPTION, RESULT, CFLOW, PARSED, "flussab_btor2::btor2::Line")
TRACK_STRUCTS = ("flussab_btor2::btor2::Node",)


def opt_look():
    return enum(OPTION, [("None", None), ("Some", ("byte", ALL))], "look")


def show(av):
    k = av[0]
    if k == "top":
        return "T" if av[1] is None else "T<%s>" % av[1]
    if k == "e":
        vs = []
        for n, p in sorted(av[2], key=lambda x: x[0]):
            vs.append(n if p is None else "%s(%s)" % (n, show(p)))
        return "|".join(vs) + ("#" + av[3] if av[3] else "")
    if k == "byte":
        return "byte" + show_mask(av[1])
    if k == "i":
        return str(av[1])
    if k == "ge":
        return ">=%d" % av[1]
    if k == "b":
        return {None: "bool?", True: "true", False: "false"}[av[1]]
    if k == "t":
        return "(" + ",".join(show(a) for a in av[1]) + ")"
    if k == "cell":
        return "&[" + show(av[1]) + "]"
    if k == "ref":
        return "&_%d%s" % (av[1], "".join("." + str(s[-1]) for s in av[2]))
    if k == "clo":
        return "closure"
    if k == "s":
        return "{" + ",".join(show(a) for a in av[2]) + "}"
    return k


# ------------------------------------------------------------------------------------------
class Auto:
    """typestate plug-in; override"""

    name = "none"

    def initial(self):
        return None

    def event(self, state, ev, where):
        return state

    def key(self, state):
        """identity of a state for merging configurations (strip diagnostics)"""
        return state


def _place_locals(p, out):
    out.add(p["l"])
    for pr in p["p"]:
        if isinstance(pr, dict) and "index" in pr:
            out.add(pr["index"])


def _operand_locals(o, out):
    p = o.get("cp") or o.get("mv")
    if p is not None:
        _place_locals(p, out)


def _rvalue_locals(rv, out):
    for key in ("a", "b"):
        if key in rv and isinstance(rv[key], dict):
            _operand_locals(rv[key], out)
    if "p" in rv and isinstance(rv["p"], dict):
        _place_locals(rv["p"], out)
    for o in rv.get("ops", []):
        _operand_locals(o, out)


def liveness(fn):
    """(live_in per block, address-taken locals) — classic backward may-liveness on normal edges"""
    n = len(fn.blocks)
    use = [set() for _ in range(n)]
    dfn = [set() for _ in range(n)]
    addr = set()
    for bi, b in enumerate(fn.blocks):
        u, d = use[bi], dfn[bi]

        def rd(ls):
            for l in ls:
                if l not in d:
                    u.add(l)

        for s in b["stmts"]:
            if s["k"] == "assign":
                tmp = set()
                _rvalue_locals(s["rv"], tmp)
                if s["rv"]["k"] in ("ref", "rawptr") and "*" not in s["rv"]["p"]["p"]:
                    addr.add(s["rv"]["p"]["l"])
                lhs = s["lhs"]
                if lhs["p"]:
                    _place_locals(lhs, tmp)
                rd(tmp)
                if not lhs["p"]:
                    d.add(lhs["l"])
            elif s["k"] == "setdiscr":
                rd([s["lhs"]["l"]])
        t = b["term"]
        tmp = set()
        k = t["k"]
        if k in ("call", "tailcall"):
            for a in t["args"]:
                _operand_locals(a, tmp)
            if "func" in t:
                _operand_locals(t["func"], tmp)
            if k == "call" and t["dest"]["p"]:
                _place_locals(t["dest"], tmp)
            rd(tmp)
            if k == "call" and not t["dest"]["p"]:
                d.add(t["dest"]["l"])
        elif k == "switch":
            _operand_locals(t["discr"], tmp)
            rd(tmp)
        elif k == "assert":
            _operand_locals(t["cond"], tmp)
            rd(tmp)
        elif k == "drop":
            _place_locals(t["place"], tmp)
            rd(tmp)
        elif k == "return":
            rd([0])
    live_in = [set() for _ in range(n)]
    changed = True
    succ = [fn.succs(i) for i in range(n)]
    while changed:
        changed = False
        for bi in range(n - 1, -1, -1):
            out = set()
            for sx in succ[bi]:
                out |= live_in[sx]
            new = use[bi] | (out - dfn[bi])
            if new != live_in[bi]:
                live_in[bi] = new
                changed = True
    return live_in, addr


class Engine:
    def __init__(self, facts, auto, closure_oracle=None):
        self.facts = facts
        self.auto = auto
        self.memo = {}
        self.inprog = set()
        self.stack = []
        self.stats = {"summaries": 0, "configs": 0, "unknown_callees": {}, "instances": set(), "imprecise": []}
        self.closure_oracle = closure_oracle  # for opaque closure calls (C15)
        self.edge_cache = {}
        self.trace_returns = None
        self.live_cache = {}
        # analyses of small value-manipulating functions may ask for every locally built ADT to be tracked
        self.track_all_adts = bool(getattr(auto, "track_all_adts", False))

    # ---- ADT helpers -------------------------------------------------------------------
    def variants(self, adt):
        a = self.facts.adts.get(adt)
        if a is None or a["kind"] != "enum":
            return None
        return a["variants"]

    def expand(self, av, adt):
        """materialise a lazily unknown enum value"""
        if av[0] == "e":
            return av
        vs = self.variants(adt)
        if vs is None:
            return None
        prov = av[1] if av[0] == "top" else None
        out = []
        for v in vs:
            if v["fields"]:
                out.append((v["name"], ("top", (prov + "." + v["name"]) if prov else None)))
            else:
                out.append((v["name"], None))
        return enum(adt, out, None)

    # ---- places --------------------------------------------------------------------------
    def resolve(self, env, p):
        """place json -> (local, path) or None"""
        l = p["l"]
        path = ()
        for pr in p["p"]:
            if pr == "*":
                av = self.read(env, l, path)
                if av[0] == "ref":
                    l, path = av[1], av[2]
                elif av[0] == "cell":
                    path = path + (("cell",),)
                else:
                    return None
            elif pr == "opaque":
                continue
            elif isinstance(pr, dict):
                if "f" in pr:
                    path = path + (("f", pr["f"]),)
                elif "downcast" in pr:
                    path = path + (("v", pr["vname"]),)
                elif "index" in pr:
                    path = path + (("idx", pr["index"]),)
                elif "cidx" in pr and not pr.get("from_end"):
                    path = path + (("cidx", pr["cidx"]),)
                else:
                    return None
            else:
                return None
        return (l, path)

    def step(self, av, st):
        k = av[0]
        if st[0] == "cell":
            return av[1] if k == "cell" else TOP
        if st[0] == "v":
            if k == "e":
                for n, p in av[2]:
                    if n == st[1]:
                        return ("variant", p)
                return ("variant", TOP)
            if k == "top" and av[1]:
                return ("variant", ("top", av[1] + "." + st[1]))
            return ("variant", TOP)
        if st[0] == "f":
            if k == "variant":
                if st[1] == 0 and av[1] is not None:
                    return av[1]
                return TOP
            if k in ("t",) and st[1] < len(av[1]):
                return av[1][st[1]]
            if k in ("clo", "s") and st[1] < len(av[2]):
                return av[2][st[1]]
            return TOP
        return TOP

    def read(self, env, l, path):
        av = env.get(l, TOP)
        for st in path:
            if st[0] in ("idx", "cidx"):
                # element of a constant byte string at a known index
                i = env.get(st[1], TOP) if st[0] == "idx" else ("i", st[1])
                if av[0] == "bytes" and i[0] == "i" and 0 <= i[1] < len(av[1]):
                    av = ("byte", 1 << av[1][i[1]])
                else:
                    av = TOP
                continue
            av = self.step(av, st)
        if av[0] == "variant":
            return TOP
        return av

    def update(self, av, path, new):
        if not path:
            return new
        st = path[0]
        k = av[0]
        if st[0] == "cell":
            if k == "cell":
                return ("cell", self.update(av[1], path[1:], new))
            return av
        if st[0] == "v":
            if k == "e" and len(path) >= 2 and path[1] == ("f", 0):
                vs = []
                for n, p in av[2]:
                    if n == st[1] and p is not None:
                        vs.append((n, self.update(p, path[2:], new)))
                    else:
                        vs.append((n, p))
                return ("e", av[1], frozenset(vs), av[3])
            return av
        if st[0] == "f":
            if k == "t" and st[1] < len(av[1]):
                comps = list(av[1])
                comps[st[1]] = self.update(comps[st[1]], path[1:], new)
                return ("t", tuple(comps))
            if k in ("clo", "s") and st[1] < len(av[2]):
                comps = list(av[2])
                comps[st[1]] = self.update(comps[st[1]], path[1:], new)
                return (k, av[1], tuple(comps))
            return av
        return av

    def write(self, env, l, path, new, narrow=False):
        env = dict(env)
        if not path:
            env[l] = new
        else:
            env[l] = self.update(env.get(l, TOP), path, new)
        if not narrow and l >= 0:
            # a new value: copies of / from this local are no longer the same value
            for k in [k for k in env if k <= ALIAS_BASE]:
                if ALIAS_BASE - k == l or env[k][1] == l:
                    del env[k]
        return env

    def refine(self, env, state, l, path, new, where):
        """narrow the value at a place; fire `narrow` events for tagged enums on the way"""
        tagged_before = []
        for i in range(len(path) + 1):
            av = self.read(env, l, path[:i])
            if av[0] == "e" and av[3]:
                tagged_before.append((i, av))
        before = env.get(l) if not path else None
        env = self.write(env, l, path, new, narrow=True)
        ak = ALIAS_BASE - l
        if not path and l >= 0 and ak in env and new[0] in ("i", "ge") and not env[ak][2]:
            # l is an unmodified copy of an integer variable (`_5 = offset; if _5 != 0`): what the test says about
            # the copy holds for the variable
            sl = env[ak][1]
            if sl in env and env.get(sl) == before and sl != l:
                env, state = self.refine(env, state, sl, (), new, where)
        if not path and l >= 0 and ak in env and new[0] == "byte":
            # l is an unmodified copy of a byte inside a look-ahead answer: what is learnt about the copy holds for the answer
            _, sl, sp = env[ak]
            src = self.read(env, sl, sp)
            if src[0] == "byte" and (src[1] & new[1]) != src[1]:
                env, state = self.refine(env, state, sl, sp, ("byte", src[1] & new[1]), where)
        for i, old in tagged_before:
            now = self.read(env, l, path[:i])
            if now != old and now[0] == "e":
                tag = old[3]
                if "@" in tag:
                    # a memoised look-ahead: later look-aheads at the same offset see the refined value
                    k = int(tag.split("@")[1])
                    mk = -k if k >= 1000 else -(k + 1)
                    if mk in env:
                        env[mk] = now
                    tag = tag.split("@")[0]
                state = self.auto.event(state, ("narrow", tag, now, old[3]), where)
        return env, state

    # ---- operands ------------------------------------------------------------------------
    def const(self, c):
        if "enum" in c:
            payload = None
            fs = c.get("fields") or []
            if fs:
                f0 = fs[0]
                if f0 is None:
                    payload = TOP
                elif f0["ty"] == "u8":
                    payload = ("byte", 1 << (f0["int"] & 255))
                elif f0["ty"] == "bool":
                    payload = ("b", bool(f0["int"]), (), ())
                else:
                    payload = ("i", f0["int"])
            av = enum(c["enum"], [(c["variant"], payload)], None) if (c["enum"] in SHAPE_ADTS or self.track_all_adts) else TOP
            return ("cell", av) if c.get("isref") else av
        if "int" in c:
            if c["ty"] == "bool":
                return ("b", bool(c["int"]), (), ())
            if c["ty"] == "u8":
                return ("byte", 1 << (c["int"] & 255))
            return ("i", c["int"])
        if "fn" in c:
            return ("fn", c["fn"])
        if "bytes" in c:
            return ("bytes", tuple(c["bytes"]))
        return TOP

    def operand(self, env, o):
        if "c" in o:
            return self.const(o["c"])
        p = o.get("cp") or o.get("mv")
        if p is None:
            return TOP
        r = self.resolve(env, p)
        if r is None:
            return TOP
        return self.read(env, r[0], r[1])

    def operand_place(self, env, o):
        p = o.get("cp") or o.get("mv")
        if p is None:
            return None
        return self.resolve(env, p)

    # ---- integer helpers ---------------------------------------------------------------
    @staticmethod
    def int_add(a, b, unsigned):
        if a[0] == "byte" or b[0] == "byte":
            return TOP
        if a[0] == "i" and b[0] == "i":
            c = a[1] + b[1]
            if 0 <= c <= CONST_CAP:
                return ("i", c)
            if unsigned and c > 0:
                return ("ge", min(c, GE_CAP))
            return TOP
        if not unsigned:
            return TOP
        lo = 0
        for x in (a, b):
            if x[0] in ("i", "ge"):
                if x[1] < 0:
                    return TOP
                lo += x[1]
        if lo > 0:
            return ("ge", min(lo, GE_CAP))
        return TOP

    @staticmethod
    def int_cmp(op, a, b):
        """three-valued comparison of abstract ints"""
        if a[0] == "byte" and b[0] == "byte":
            la, lb = mask_list(a[1]), mask_list(b[1])
            if not la or not lb:
                return None
            res = set()
            f = {"Eq": lambda x, y: x == y, "Ne": lambda x, y: x != y, "Lt": lambda x, y: x < y,
                 "Le": lambda x, y: x <= y, "Gt": lambda x, y: x > y, "Ge": lambda x, y: x >= y}[op]
            if len(la) * len(lb) > 70000:
                return None
            for x in la:
                for y in lb:
                    res.add(f(x, y))
                    if len(res) == 2:
                        return None
            return res.pop()
        if a[0] == "i" and b[0] == "i":
            x, y = a[1], b[1]
            return {"Eq": x == y, "Ne": x != y, "Lt": x < y, "Le": x <= y, "Gt": x > y, "Ge": x >= y}[op]
        if a[0] == "ge" and b[0] == "i":
            if b[1] < a[1]:
                return {"Eq": False, "Ne": True, "Lt": False, "Le": False, "Gt": True, "Ge": True}[op]
            if b[1] == a[1] and op in ("Lt", "Ge"):
                return op == "Ge"
        if a[0] == "i" and b[0] == "ge":
            r = Engine.int_cmp({"Lt": "Gt", "Gt": "Lt", "Le": "Ge", "Ge": "Le"}.get(op, op), b, a)
            return r
        return None

    def cmp_refine(self, op, av, c, unsigned):
        """value of `av` knowing (av op c) holds, c an int constant; returns None if infeasible"""
        if av[0] == "byte":
            m = 0
            for x in mask_list(av[1]):
                if {"Eq": x == c, "Ne": x != c, "Lt": x < c, "Le": x <= c, "Gt": x > c, "Ge": x >= c}[op]:
                    m |= 1 << x
            return ("byte", m) if m else None
        if op == "Eq":
            r = self.int_cmp("Eq", av, ("i", c)) if av[0] in ("i", "ge") else None
            if r is False:
                return None
            return ("i", c)
        if av[0] == "i":
            r = self.int_cmp(op, av, ("i", c))
            return av if r else None
        if av[0] == "ge":
            r = self.int_cmp(op, av, ("i", c))
            if r is False:
                return None
            if op in ("Gt", "Ne", "Ge") and unsigned:
                lo = c + 1 if (op == "Gt" or (op == "Ne" and c == av[1])) else (c if op == "Ge" else av[1])
                return ("ge", min(max(lo, av[1]), GE_CAP))
            return av
        if av[0] == "top" and unsigned:
            if op == "Ne" and c == 0:
                return ("ge", 1)
            if op == "Gt" and c >= 0:
                return ("ge", min(c + 1, GE_CAP))
            if op == "Ge" and c > 0:
                return ("ge", min(c, GE_CAP))
            if op == "Lt" and c == 1:
                return ("i", 0)
            if op == "Le" and c == 0:
                return ("i", 0)
        return av

    # ---- rvalues -------------------------------------------------------------------------
    def is_unsigned(self, fn, l):
        p = fn.locals[l].get("prim", "")
        return p.startswith("u")

    def rvalue(self, fn, env, rv, lhs_local):
        k = rv["k"]
        if k == "use":
            return self.operand(env, rv["a"])
        if k in ("ref", "rawptr"):
            r = self.resolve(env, rv["p"])
            if r is None:
                return TOP
            return ("ref", r[0], r[1], bool(rv.get("mut")))
        if k == "cast":
            a = self.operand(env, rv["a"])
            ck = rv["ck"]
            if ck == "IntToInt":
                if a[0] == "b":
                    return ("i", int(a[1])) if a[1] is not None else TOP
                if a[0] in ("i", "ge"):
                    return a if rv["to"].startswith("u") or a[0] == "i" else TOP
                if a[0] == "byte" and bin(a[1]).count("1") == 1:
                    return ("i", a[1].bit_length() - 1)
                return TOP
            if ck.startswith("PointerCoercion") or ck in ("PtrToPtr", "Subtype"):
                return a
            return TOP
        if k == "bin":
            return self.binop(fn, env, rv, lhs_local)
        if k == "un":
            a = self.operand(env, rv["a"])
            if rv["op"] == "Not" and a[0] == "b":
                return ("b", (None if a[1] is None else (not a[1])), a[3], a[2])
            if rv["op"] == "PtrMetadata":
                x = a
                for _ in range(3):
                    if x[0] == "cell":
                        x = x[1]
                    elif x[0] == "ref":
                        x = self.read(env, x[1], x[2])
                if x[0] == "bytes":
                    return ("i", len(x[1]))
            return TOP
        if k == "discr":
            r = self.resolve(env, rv["p"])
            if r is None:
                return TOP
            return ("d", r[0], r[1], rv.get("adt", ""))
        if k == "agg":
            ak = rv["ak"]
            ops = [self.operand(env, o) for o in rv["ops"]]
            if ak == "tuple":
                return ("t", tuple(ops))
            if ak == "closure":
                return ("clo", rv["closure"], tuple(ops))
            if ak == "adt" and (rv["adt"] in TRACK_STRUCTS or (self.track_all_adts and (self.facts.adts.get(rv["adt"]) or {}).get("kind") == "struct")):
                return ("s", rv["adt"], tuple(ops))
            if ak == "adt":
                vs = self.variants(rv["adt"]) if (rv["adt"] in SHAPE_ADTS or self.track_all_adts) else None
                if vs is not None:
                    return enum(rv["adt"], [(rv["variant"], ops[0] if ops else None)], None)
                return TOP
            return TOP
        return TOP

    def binop(self, fn, env, rv, lhs_local):
        op = rv["op"]
        a = self.operand(env, rv["a"])
        b = self.operand(env, rv["b"])
        unsigned = rv["ty"].startswith("u")
        if op in ("Eq", "Ne", "Lt", "Le", "Gt", "Ge"):
            if a[0] == "b" and b[0] == "b" and a[1] is not None and b[1] is not None and op in ("Eq", "Ne"):
                return ("b", (a[1] == b[1]) == (op == "Eq"), (), ())
            r = self.int_cmp(op, a, b)
            if r is not None:
                return ("b", r, (), ())
            # refinements when one side is a constant and the other a place
            trefs, frefs = (), ()
            neg = {"Eq": "Ne", "Ne": "Eq", "Lt": "Ge", "Ge": "Lt", "Gt": "Le", "Le": "Gt"}
            flip = {"Lt": "Gt", "Gt": "Lt", "Le": "Ge", "Ge": "Le", "Eq": "Eq", "Ne": "Ne"}
            for (x, xo, y, o) in ((a, rv["a"], b, op), (b, rv["b"], a, flip[op])):
                cval = None
                if y[0] == "i":
                    cval = y[1]
                elif y[0] == "byte" and bin(y[1]).count("1") == 1:
                    cval = y[1].bit_length() - 1
                if cval is None:
                    continue
                pl = self.operand_place(env, xo)
                if pl is None:
                    continue
                t = self.cmp_refine(o, x, cval, unsigned)
                f = self.cmp_refine(neg[o], x, cval, unsigned)
                if t is None:
                    return ("b", False, (), (("set", pl[0], pl[1], f),) if f is not None else ())
                if f is None:
                    return ("b", True, (("set", pl[0], pl[1], t),), ())
                trefs = (("set", pl[0], pl[1], t),)
                frefs = (("set", pl[0], pl[1], f),)
                break
            return ("b", None, trefs, frefs)
        if op in ("Add", "AddWithOverflow", "AddUnchecked"):
            r = self.int_add(a, b, unsigned)
            if op.endswith("WithOverflow"):
                return ("t", (r, ("b", None, (), ())))
            return r
        if op.endswith("WithOverflow"):
            if op.startswith("Sub") and a[0] == "i" and b[0] == "i" and 0 <= a[1] - b[1] <= CONST_CAP:
                return ("t", (("i", a[1] - b[1]), ("b", None, (), ())))
            return ("t", (TOP, ("b", None, (), ())))
        if op in ("BitAnd", "BitOr", "BitXor") and a[0] == "b" and b[0] == "b":
            if a[1] is not None and b[1] is not None:
                v = {"BitAnd": a[1] and b[1], "BitOr": a[1] or b[1], "BitXor": a[1] != b[1]}[op]
                return ("b", v, (), ())
            return ("b", None, (), ())
        return TOP

    # ---- frame independent form ----------------------------------------------------------
    def freeze(self, env, av, depth=0):
        k = av[0]
        if depth > 8:
            return TOP
        if k == "ref":
            return ("cell", self.freeze(env, self.read(env, av[1], av[2]), depth + 1))
        if k == "b":
            return ("b", av[1], (), ())
        if k == "d":
            return TOP
        if k == "e":
            return ("e", av[1], frozenset((n, None if p is None else self.freeze(env, p, depth + 1)) for n, p in av[2]), av[3])
        if k == "t":
            return ("t", tuple(self.freeze(env, a, depth + 1) for a in av[1]))
        if k in ("clo", "s"):
            return (k, av[1], tuple(self.freeze(env, a, depth + 1) for a in av[2]))
        if k == "cell":
            return ("cell", self.freeze(env, av[1], depth + 1))
        if k == "variant":
            return TOP
        return av

    def mut_refs(self, av, out, depth=0):
        k = av[0]
        if depth > 4:
            return
        if k == "ref":
            if av[3]:
                out.append((av[1], av[2]))
        elif k == "t":
            for a in av[1]:
                self.mut_refs(a, out, depth + 1)
        elif k in ("clo", "s"):
            for a in av[2]:
                self.mut_refs(a, out, depth + 1)
        elif k == "e":
            for n, p in av[2]:
                if p is not None:
                    self.mut_refs(p, out, depth + 1)

    def havoc(self, env, args):
        refs = []
        for a in args:
            self.mut_refs(a, refs)
        for l, path in refs:
            env = self.write(env, l, path, TOP)
        return env

    # ---- calls ---------------------------------------------------------------------------
    def edge(self, inst_key, bb):
        m = self.edge_cache.get(inst_key)
        if m is None:
            m = {}
            n = self.facts.inst.get(inst_key)
            if n:
                for c in n["calls"]:
                    m[c["bb"]] = c
            self.edge_cache[inst_key] = m
        return m.get(bb)

    def call(self, inst_key, fn, bb, t, env, state):
        """returns list of (ret_av, env, state)"""
        where = (inst_key, fn, bb)
        args = [self.operand(env, a) for a in t["args"]]
        e = self.edge(inst_key, bb)
        c = t.get("callee", {})
        cdef = None
        target = None
        if e is not None:
            cdef = e.get("to_def") or e.get("def")
            if "to" in e and e.get("walked"):
                target = e["to"]
        if cdef is None:
            cdef = c.get("res") or c.get("def") or ""
        if e is not None and "fn_item" in e:
            # a fn item called through FnOnce::call_once(f, (args,)): behave like a direct call of the item
            if e.get("via") != "fn_item":
                cdef = e["fn_item"]
            tup = args[1] if len(args) > 1 else TOP
            args = list(tup[1]) if tup[0] == "t" else [TOP]
            t = dict(t, args=[])
        n = norm(cdef)
        if e is not None and "ctor_adt" in e:
            adt = e["ctor_adt"]
            if adt in SHAPE_ADTS and e.get("ctor_variant"):
                return [(enum(adt, [(e["ctor_variant"], args[0] if args else None)], None), env, state)]
            return [(TOP, env, state)]
        # 0. per-analysis primitives (typestate plug-ins may treat further functions as events)
        xp = getattr(self.auto, "extra_prims", None)
        if xp:
            h = xp.get(n)
            if h is not None:
                return h(self, fn, bb, t, env, state, args, where, n)
        if getattr(self.auto, "wants_calls", False):
            state = self.auto.event(state, ("call", n, tuple(args)), where)
        # 1. primitives and models
        h = PRIMS.get(n)
        if h is not None:
            return h(self, fn, bb, t, env, state, args, where, n)
        sdef = norm(c.get("def", ""))
        h = MODELS.get(n) or MODELS.get(sdef)
        if h is not None:
            return h(self, fn, bb, t, env, state, args, where)
        # 2. analysed callee
        if target is not None and target in self.facts.inst and self.facts.inst[target]["has_mir"]:
            cfn = self.facts.fns.get(self.facts.inst[target]["def"])
            if cfn is not None:
                fargs = self.bind_args(cfn, e, env, args)
                # the look-ahead memo describes the reader, not the frame: it travels through calls
                memo_in = tuple(sorted((l, v) for l, v in env.items() if -1000 < l < 0))
                res = self._summary3(target, state, fargs, memo_in)
                env2 = self.havoc(env, args)
                env2 = {l: v for l, v in env2.items() if l >= 0}
                out = []
                for (r, s, memo_out) in res:
                    e3 = env2
                    if memo_out:
                        e3 = dict(env2)
                        for l, v in memo_out:
                            e3[l] = v
                    out.append((r, e3, s))
                return out
        # 3. opaque closure parameter (generic F: FnOnce) -> oracle
        if self.closure_oracle is not None and "call_once" in n:
            r = self.closure_oracle(self, fn, bb, t, env, state, args, where)
            if r is not None:
                return r
        # 4. unknown
        self.stats["unknown_callees"][n] = self.stats["unknown_callees"].get(n, 0) + 1
        state = self.auto.event(state, ("unknown_call", n, tuple(args)), where)
        env2 = self.havoc(env, args)
        return [(TOP, env2, state)]

    def bind_args(self, cfn, e, env, args):
        fargs = [self.freeze(env, a) for a in args]
        if cfn.kind == "Closure":
            # callee params: _1 = env (by value or by reference), _2.. = untupled arguments
            envav = fargs[0] if fargs else TOP
            wants_ref = cfn.locals[1].get("refs", 0) > 0
            if wants_ref and envav[0] != "cell":
                envav = ("cell", envav)
            if not wants_ref and envav[0] == "cell":
                envav = envav[1]
            rest = []
            tup = fargs[1] if len(fargs) > 1 else TOP
            for i in range(cfn.argc - 1):
                if tup[0] == "t" and i < len(tup[1]):
                    rest.append(tup[1][i])
                else:
                    rest.append(TOP)
            return tuple([envav] + rest)
        return tuple(fargs[: cfn.argc] + [TOP] * max(0, cfn.argc - len(fargs)))

    def invoke(self, f, argavs, env, state, where):
        """call a callable *value* (closure, fn item, enum constructor) from inside a model of a std combinator;
        returns [(result, env, state)]"""
        if f[0] in ("cell",):
            f = f[1]
        if f[0] == "ref":
            f = self.read(env, f[1], f[2])
        target = None
        cfn = None
        if f[0] == "clo":
            cfn = self.facts.fns.get(f[1])
            ks = [k for k, n in self.facts.inst.items() if n["def"] == f[1] and n.get("has_mir")]
            target = sorted(ks)[0] if ks else None
            call_args = [f, ("t", tuple(argavs))]
        elif f[0] == "fn":
            path = norm(f[1])
            parent, _, vname = path.rpartition("::")
            adt = self.facts.adts.get(parent)
            if adt is not None and adt.get("kind") == "enum" and any(v["name"] == vname for v in adt["variants"]):
                if parent in SHAPE_ADTS or self.track_all_adts:
                    return [(enum(parent, [(vname, argavs[0] if argavs else None)], None), env, state)]
                return [(TOP, env, state)]
            ks = [k for k, n in self.facts.inst.items() if norm(n["def"]) == path and n.get("has_mir")]
            if ks:
                target = sorted(ks)[0]
                cfn = self.facts.fns.get(self.facts.inst[target]["def"])
                call_args = list(argavs)
        if target is None or cfn is None:
            self.stats["unknown_callees"]["<callable value>"] = self.stats["unknown_callees"].get("<callable value>", 0) + 1
            state = self.auto.event(state, ("unknown_call", "<callable value>", tuple(argavs)), where)
            return [(TOP, self.havoc(env, list(argavs)), state)]
        fargs = self.bind_args(cfn, None, env, call_args)
        memo_in = tuple(sorted((l, v) for l, v in env.items() if -1000 < l < 0))
        res = self._summary3(target, state, fargs, memo_in)
        env2 = self.havoc(env, call_args)
        env2 = {l: v for l, v in env2.items() if l >= 0}
        out = []
        for (r, s2, memo_out) in res:
            e3 = env2
            if memo_out:
                e3 = dict(env2)
                for l, v in memo_out:
                    e3[l] = v
            out.append((r, e3, s2))
        return out

    # ---- summaries -------------------------------------------------------------------------
    def summary(self, inst_key, state, fargs):
        return frozenset((r, s) for (r, s, m) in self._summary3(inst_key, state, fargs, ()))

    def _summary3(self, inst_key, state, fargs, memo):
        key = (inst_key, self.auto.key(state), fargs, memo)
        r = self.memo.get(key)
        if r is not None:
            return r
        if key in self.inprog or inst_key in [k[0] for k in self.inprog]:
            raise Recursion(inst_key)
        self.inprog.add(key)
        self.stack.append(inst_key)
        try:
            r = self.run_body(inst_key, state, fargs, memo)
        finally:
            self.inprog.discard(key)
            self.stack.pop()
        self.memo[key] = r
        self.stats["summaries"] += 1
        self.stats["instances"].add(inst_key)
        return r

    def run_body(self, inst_key, state, fargs, memo=()):
        node = self.facts.inst[inst_key]
        fn = self.facts.fns[node["def"]]
        env0 = {}
        for i, a in enumerate(fargs):
            env0[i + 1] = a
        for l, v in memo:
            env0[l] = v
        seen = {}
        work = [(0, env0, state)]
        rets = {}
        nconf = 0
        lv = self.live_cache.get(fn.id)
        if lv is None:
            lv = liveness(fn)
            self.live_cache[fn.id] = lv
        live_in, addr = lv
        skey = self.auto.key
        while work:
            bb, env, st = work.pop()
            start_at = 0
            if isinstance(bb, tuple):
                _, bb, start_at = bb
                li = None
            else:
                li = live_in[bb]
                keep = set()
                if any(l <= ALIAS_BASE for l in env):
                    # a look-ahead answer stays while a live local is an unmodified copy of its byte
                    ch = True
                    while ch:
                        ch = False
                        for l, v in env.items():
                            if l <= ALIAS_BASE and ((ALIAS_BASE - l) in li or (ALIAS_BASE - l) in keep) and v[1] not in keep:
                                keep.add(v[1])
                                ch = True
                env = {l: v for l, v in env.items() if (l < 0 and (l > ALIAS_BASE or (ALIAS_BASE - l) in li or (ALIAS_BASE - l) in keep)) or l in li or l in addr or l in keep}
            fe = (tuple(sorted(env.items(), key=lambda kv: kv[0])), skey(st))
            sb = seen.setdefault((bb, start_at), set())
            if fe in sb:
                continue
            sb.add(fe)
            nconf += 1
            if nconf > CONFIG_CAP * 20 or len(sb) > CONFIG_CAP:
                self.stats["imprecise"].append(inst_key)
                if DEBUG_BLOWUP:
                    import sys
                    print("BLOWUP in", inst_key, "bb", bb, "configs", len(sb), file=sys.stderr)
                    prev = None
                    for cfg_ in list(sb)[:6]:
                        print("   ", {l: show(v) for l, v in cfg_[0] if v[0] != "top"}, cfg_[1], file=sys.stderr)
                raise Imprecise(inst_key)
            b = fn.blocks[bb]
            forked = False
            for si, s in enumerate(b["stmts"]):
                if si < start_at:
                    continue
                k = s["k"]
                if k == "assign":
                    lhs = s["lhs"]
                    rv = s["rv"]
                    if rv["k"] == "cast" and rv["ck"] == "IntToInt" and rv["from"] == "bool":
                        a = self.operand(env, rv["a"])
                        if a[0] == "b" and a[1] is None and (a[2] or a[3]):
                            # the numeric value of an undecided test: decide it (two configurations)
                            pl = self.operand_place(env, rv["a"])
                            for truth in (True, False):
                                r2 = self.apply_refs(env, st, a[2] if truth else a[3], (inst_key, fn, bb))
                                if r2 is None or pl is None:
                                    continue
                                env2 = self.write(r2[0], pl[0], pl[1], ("b", truth, (), ()))
                                work.append((("mid", bb, si), env2, r2[1]))
                            if pl is not None:
                                forked = True
                                break
                    av = self.rvalue(fn, env, rv, lhs["l"])
                    r = self.resolve(env, lhs)
                    if r == (0, ()) and av[0] == "b" and av[1] is None and (av[2] or av[3]) and fn.locals[0].get("prim") == "bool":
                        # an undecided test becomes the return value: decide it here, while the places it speaks
                        # about are alive (the caller sees two outcomes, each with what it implies)
                        for truth in (True, False):
                            r2 = self.apply_refs(env, st, av[2] if truth else av[3], (inst_key, fn, bb))
                            if r2 is None:
                                continue
                            env2 = self.write(r2[0], 0, (), ("b", truth, (), ()))
                            work.append((("mid", bb, si + 1), env2, r2[1]))
                        forked = True
                        break
                    if r is not None:
                        env = self.write(env, r[0], r[1], av)
                        if -(1000 + r[0]) in env:
                            del env[-(1000 + r[0])]
                        if rv["k"] == "use" and av[0] in ("top", "i", "ge") and not r[1] and "c" not in rv["a"] and fn.locals[r[0]].get("prim", "").startswith(("u", "i")) and r[0] not in fn.vars:
                            src = self.resolve(env, rv["a"].get("cp") or rv["a"].get("mv"))
                            if src is not None and not src[1] and src[0] != r[0] and src[0] in fn.vars:
                                env[ALIAS_BASE - r[0]] = ("alias", src[0], ())  # a temporary copy of a named integer variable
                        if rv["k"] == "use" and av[0] == "byte" and not r[1] and "c" not in rv["a"]:
                            src = self.resolve(env, rv["a"].get("cp") or rv["a"].get("mv"))
                            if src is not None and src[0] != r[0]:
                                if src[1] and any(x[0] == "e" and x[3] for x in (self.read(env, src[0], src[1][:i]) for i in range(len(src[1])))):
                                    env[ALIAS_BASE - r[0]] = ("alias", src[0], src[1])
                                elif not src[1] and (ALIAS_BASE - src[0]) in env:
                                    env[ALIAS_BASE - r[0]] = ("alias", src[0], ())  # copy of a copy
                elif k == "dead":
                    if s["l"] in env:
                        env = dict(env)
                        del env[s["l"]]
                elif k == "setdiscr":
                    r = self.resolve(env, s["lhs"])
                    if r is not None:
                        env = self.write(env, r[0], r[1], TOP)
            if forked:
                continue
            t = b["term"]
            k = t["k"]
            if k == "goto":
                work.append((t["target"], env, st))
            elif k == "return":
                r0 = env.get(0, TOP)
                outs = [(env, st)]
                if r0[0] == "b" and r0[1] is None and (r0[2] or r0[3]) and fn.locals[0].get("prim") == "bool":
                    # an undecided test is the return value (it was the destination of a call): decide it here
                    outs = []
                    for truth in (True, False):
                        r2 = self.apply_refs(env, st, r0[2] if truth else r0[3], (inst_key, fn, bb))
                        if r2 is not None:
                            outs.append((self.write(r2[0], 0, (), ("b", truth, (), ())), r2[1]))
                for env_r, st_r in outs:
                    memo_out = tuple(sorted((l, v) for l, v in env_r.items() if -1000 < l < 0))
                    rets.setdefault((self.freeze(env_r, env_r.get(0, TOP)), skey(st_r), memo_out), st_r)
                    if self.trace_returns is not None:
                        self.trace_returns(inst_key, fn, bb, env_r, st_r)
            elif k == "switch":
                for tgt, env2, st2 in self.switch(inst_key, fn, bb, t, env, st):
                    work.append((tgt, env2, st2))
            elif k == "call":
                for ret, env2, st2 in self.call(inst_key, fn, bb, t, env, st):
                    if t["target"] is None:
                        continue
                    r = self.resolve(env2, t["dest"])
                    if r == (0, ()) and ret[0] == "b" and ret[1] is None and (ret[2] or ret[3]) and fn.locals[0].get("prim") == "bool":
                        # an undecided test lands in the return place: decide it now, while the places it speaks about are alive
                        for truth in (True, False):
                            r2 = self.apply_refs(env2, st2, ret[2] if truth else ret[3], (inst_key, fn, bb))
                            if r2 is not None:
                                work.append((t["target"], self.write(r2[0], 0, (), ("b", truth, (), ())), r2[1]))
                        continue
                    if r is not None:
                        env2 = self.write(env2, r[0], r[1], ret)
                    work.append((t["target"], env2, st2))
            elif k in ("assert", "drop"):
                work.append((t["target"], env, st))
            elif k == "tailcall":
                for ret, env2, st2 in self.call(inst_key, fn, bb, t, env, st):
                    memo_out = tuple(sorted((l, v) for l, v in env2.items() if -1000 < l < 0))
                    rets.setdefault((self.freeze(env2, ret), skey(st2), memo_out), st2)
            # unreachable / resume / other: path ends
        self.stats["configs"] += nconf
        return frozenset((k[0], v, k[2]) for k, v in rets.items())

    def apply_refs(self, env, state, refs, where):
        for r in refs:
            if r[0] == "set":
                if r[3] is None:
                    return None
                env, state = self.refine(env, state, r[1], r[2], r[3], where)
            elif r[0] == "ev":
                state = self.auto.event(state, r[1], where)
        return env, state

    def switch(self, inst_key, fn, bb, t, env, state):
        where = (inst_key, fn, bb)
        d = self.operand(env, t["discr"])
        arms = t["arms"]
        other = t["otherwise"]
        out = []
        if d[0] == "b":
            # arms are [[0, false_bb]] otherwise true_bb (or the reverse)
            for val, tgt in arms:
                truth = bool(val)
                if d[1] is not None and d[1] != truth:
                    continue
                r = self.apply_refs(env, state, d[2] if truth else d[3], where)
                if r is not None:
                    out.append((tgt, r[0], r[1]))
            armvals = set(bool(v) for v, _ in arms)
            for truth in (True, False):
                if truth in armvals:
                    continue
                if d[1] is not None and d[1] != truth:
                    continue
                r = self.apply_refs(env, state, d[2] if truth else d[3], where)
                if r is not None:
                    out.append((other, r[0], r[1]))
            return out
        if d[0] == "d":
            l, path, adt = d[1], d[2], d[3]
            cur = self.read(env, l, path)
            ex = self.expand(cur, adt) if cur[0] in ("top", "e") else None
            vs = self.variants(adt)
            if ex is None or vs is None:
                return [(tgt, env, state) for _, tgt in arms] + [(other, env, state)]
            by_discr = {v["discr"]: v["name"] for v in vs}
            present = dict(ex[2])
            taken = set()
            for val, tgt in arms:
                name = by_discr.get(val)
                if name is None or name not in present:
                    continue
                taken.add(name)
                new = ("e", ex[1], frozenset([(name, present[name])]), ex[3])
                env2, st2 = self.refine(env, state, l, path, new, where)
                out.append((tgt, env2, st2))
            rest = [(n, p) for n, p in ex[2] if n not in taken]
            # the otherwise edge is feasible only for variants without an arm
            armnames = set(by_discr.get(v) for v, _ in arms)
            rest = [(n, p) for n, p in rest if n not in armnames]
            if rest:
                new = ("e", ex[1], frozenset(rest), ex[3])
                env2, st2 = self.refine(env, state, l, path, new, where)
                out.append((other, env2, st2))
            return out
        # integer / byte valued place
        pl = self.operand_place(env, t["discr"])
        if d[0] == "byte":
            rest = d[1]
            for val, tgt in arms:
                if (d[1] >> val) & 1:
                    if pl is not None:
                        env2, st2 = self.refine(env, state, pl[0], pl[1], ("byte", 1 << val), where)
                    else:
                        env2, st2 = env, state
                    out.append((tgt, env2, st2))
                rest &= ~(1 << val)
            if rest:
                if pl is not None:
                    env2, st2 = self.refine(env, state, pl[0], pl[1], ("byte", rest), where)
                else:
                    env2, st2 = env, state
                out.append((other, env2, st2))
            return out
        if d[0] == "i":
            for val, tgt in arms:
                if val == d[1]:
                    return [(tgt, env, state)]
            return [(other, env, state)]
        if d[0] == "top" and t["ty"] == "u8" and pl is not None:
            # unknown byte: materialise
            env = self.write(env, pl[0], pl[1], ("byte", ALL))
            return self.switch(inst_key, fn, bb, t, env, state)
        res = []
        unsigned = t["ty"].startswith("u")
        for val, tgt in arms:
            if d[0] == "ge" and val < d[1]:
                continue
            env2 = env
            if pl is not None:
                env2 = self.write(env, pl[0], pl[1], ("i", val))
            res.append((tgt, env2, state))
        env2 = env
        if pl is not None and unsigned and len(arms) == 1 and arms[0][0] == 0:
            nv = self.cmp_refine("Ne", d, 0, True)
            if nv is not None:
                env2 = self.write(env, pl[0], pl[1], nv)
        res.append((other, env2, state))
        return res


# ------------------------------------------------------------------------------------------
# primitives of the reader / line reader: never descended into; they are the event alphabet
DR = "flussab::deferred_reader::DeferredReader::"
LR = "flussab::text::LineReader::"


def _prim_event(name):
    def h(eng, fn, bb, t, env, state, args, where, n):
        state = eng.auto.event(state, ("prim", name, tuple(args)), where)
        return [(TOP, env, state)]

    return h


def _prim_look(eng, fn, bb, t, env, state, args, where, n):
    off = args[1] if len(args) > 1 else ("i", 0)
    # memo keyed by the variable holding the offset (same variable, not reassigned, nothing consumed)
    vkey = None
    if off[0] != "i" and len(t.get("args", [])) > 1:
        from .sym import sym as _sym
        oe = _sym(fn).operand(t["args"][1])
        if oe[0] == "l":
            vkey = -(1000 + oe[1])
    # the tag the answer will carry (narrowing events name it): automata that care which look-ahead was the most
    # recent one compare it with the tag of a later narrowing
    ltag = "look@%d" % (-vkey) if vkey is not None else ("look@%d" % off[1] if off[0] == "i" and 0 <= off[1] < 64 else "look")
    state = eng.auto.event(state, ("prim", "look", (args[0] if args else TOP, off), ltag), where)
    if vkey is not None:
        if vkey in env:
            state = eng.auto.event(state, ("narrow", "look", env[vkey]), where)
            return [(env[vkey], env, state)]
        av = enum(OPTION, [("None", None), ("Some", ("byte", ALL))], "look@%d" % (-vkey))
        env = {l: v for l, v in env.items() if l >= 0}
        env[vkey] = av
        return [(av, env, state)]
    if off[0] == "i" and 0 <= off[1] < 64:
        key = -(off[1] + 1)
        if key in env:
            # same offset as the previous look-ahead, nothing consumed in between: same answer
            state = eng.auto.event(state, ("narrow", "look", env[key]), where)
            return [(env[key], env, state)]
        av = enum(OPTION, [("None", None), ("Some", ("byte", ALL))], "look@%d" % off[1])
        # only the most recent look-ahead is memoised (enough for the re-look idiom, keeps the state small)
        env = {l: v for l, v in env.items() if l >= 0}
        env[key] = av
        return [(av, env, state)]
    env = {l: v for l, v in env.items() if l >= 0}
    return [(opt_look(), env, state)]


def _prim_advance(eng, fn, bb, t, env, state, args, where, n):
    state = eng.auto.event(state, ("prim", "advance", tuple(args)), where)
    env = {l: v for l, v in env.items() if l >= 0}
    return [(TOP, env, state)]


def _prim_io_error(eng, fn, bb, t, env, state, args, where, n):
    state = eng.auto.event(state, ("prim", "io_error", tuple(args)), where)
    return [(enum(OPTION, [("None", None), ("Some", TOP)], "ioerr"), env, state)]


def _prim_check_io(eng, fn, bb, t, env, state, args, where, n):
    state = eng.auto.event(state, ("prim", "check_io_error", tuple(args)), where)
    return [(enum(RESULT, [("Ok", TOP), ("Err", TOP)], "iochk"), env, state)]


def _prim_bool(name):
    def h(eng, fn, bb, t, env, state, args, where, n):
        state = eng.auto.event(state, ("prim", name, tuple(args)), where)
        return [(("b", None, (("ev", ("bool", name, True)),), (("ev", ("bool", name, False)),)), env, state)]

    return h


PRIMS = {
    DR + "request_byte_at_offset": _prim_look,
    DR + "request_byte": _prim_look,
    DR + "request_byte_at_offset_cold": _prim_look,
    DR + "request": _prim_event("request"),
    DR + "request_more": _prim_event("request_more"),
    DR + "is_at_end": _prim_bool("is_at_end"),
    DR + "is_complete": _prim_bool("is_complete"),
    DR + "advance": _prim_advance,
    DR + "advance_with_buf": _prim_advance,
    DR + "advance_unchecked": _prim_advance,
    DR + "set_mark": _prim_event("set_mark"),
    DR + "set_mark_to_position": _prim_event("set_mark"),
    DR + "mark": _prim_event("mark"),
    DR + "position": _prim_event("position"),
    DR + "buf": _prim_event("buf"),
    DR + "buf_len": _prim_event("buf_len"),
    DR + "buf_ptr": _prim_event("buf_ptr"),
    DR + "io_error": _prim_io_error,
    DR + "check_io_error": _prim_check_io,
    DR + "set_chunk_size": _prim_event("set_chunk_size"),
    LR + "line_at_offset": _prim_event("line_at_offset"),
    LR + "give_up": _prim_event("give_up"),
    LR + "give_up_at": _prim_event("give_up_at"),
    LR + "give_up_at_cold": _prim_event("give_up_at"),
    LR + "reader": _prim_event("reader"),
}


# models of std functions the analysis must see through ---------------------------------
def _arg_place(eng, env, t, i):
    a = t["args"][i]
    av = eng.operand(env, a)
    if av[0] == "ref":
        return (av[1], av[2])
    return None


def _restrict(eng, av, adt, names):
    ex = eng.expand(av, adt) if av[0] in ("top", "e") else None
    if ex is None:
        return TOP
    vs = [(n, p) for n, p in ex[2] if n in names]
    if not vs:
        return None
    return ("e", ex[1], frozenset(vs), ex[3])


def _is_variant(adt, yes, no):
    def h(eng, fn, bb, t, env, state, args, where):
        pl = _arg_place(eng, env, t, 0)
        if pl is None:
            a = args[0]
            if a[0] == "cell":
                ex = eng.expand(a[1], adt) if a[1][0] in ("top", "e") else None
                if ex is not None:
                    names = set(n for n, _ in ex[2])
                    if names <= set(yes):
                        return [(("b", True, (), ()), env, state)]
                    if names <= set(no):
                        return [(("b", False, (), ()), env, state)]
            return [(("b", None, (), ()), env, state)]
        cur = eng.read(env, pl[0], pl[1])
        ty = _restrict(eng, cur, adt, yes)
        tn = _restrict(eng, cur, adt, no)
        if ty is None:
            return [(("b", False, (), (("set", pl[0], pl[1], tn),)), env, state)]
        if tn is None:
            return [(("b", True, (("set", pl[0], pl[1], ty),), ()), env, state)]
        return [(("b", None, (("set", pl[0], pl[1], ty),), (("set", pl[0], pl[1], tn),)), env, state)]

    return h


def _result_branch(eng, fn, bb, t, env, state, args, where):
    a = args[0]
    ex = eng.expand(a, RESULT) if a[0] in ("top", "e") else None
    if ex is None:
        return [(TOP, env, state)]
    out = []
    for n, p in ex[2]:
        st = state
        if ex[3]:
            # branching on a tagged value decides it: fire the narrowing event on each outcome
            st = eng.auto.event(state, ("narrow", ex[3], ("e", ex[1], frozenset([(n, p)]), ex[3])), where)
        if n == "Ok":
            v = ("Continue", p)
        else:
            v = ("Break", enum(RESULT, [("Err", p)], None))
        out.append((enum(CFLOW, [v], None), env, st))
    return out


def _result_from_residual(eng, fn, bb, t, env, state, args, where):
    a = args[0]
    payload = TOP
    if a[0] == "e":
        for n, p in a[2]:
            if n == "Err" and p is not None:
                payload = ("top", p[1]) if p[0] == "top" else TOP
    return [(enum(RESULT, [("Err", payload)], None), env, state)]


def _option_branch(eng, fn, bb, t, env, state, args, where):
    a = args[0]
    ex = eng.expand(a, OPTION) if a[0] in ("top", "e") else None
    if ex is None:
        return [(TOP, env, state)]
    out = []
    for n, p in ex[2]:
        if n == "Some":
            out.append((enum(CFLOW, [("Continue", p)], None), env, state))
        else:
            out.append((enum(CFLOW, [("Break", enum(OPTION, [("None", None)], None))], None), env, state))
    return out


def _option_from_residual(eng, fn, bb, t, env, state, args, where):
    return [(enum(OPTION, [("None", None)], None), env, state)]


def _unwrap(adt, good):
    def h(eng, fn, bb, t, env, state, args, where):
        a = args[0]
        if a[0] == "e":
            for n, p in a[2]:
                if n == good and p is not None:
                    return [(p, env, state)]
        return [(TOP, env, state)]

    return h


def _opt_eq(negate):
    def h(eng, fn, bb, t, env, state, args, where):
        # PartialEq::eq/ne on two references; interesting when one side is a look-ahead result
        pa = _arg_place(eng, env, t, 0)
        pb = _arg_place(eng, env, t, 1)
        if pa is None or pb is None:
            env = eng.havoc(env, args)
            return [(("b", None, (), ()), env, state)]
        a = eng.read(env, pa[0], pa[1])
        b = eng.read(env, pb[0], pb[1])
        for (x, px, y) in ((a, pa, b), (b, pb, a)):
            if x[0] == "e" and x[1] == OPTION and y[0] == "e" and y[1] == OPTION and len(y[2]) == 1:
                (yn, yp), = tuple(y[2])
                xs = dict(x[2])
                if yn == "Some" and yp is not None and yp[0] == "byte" and bin(yp[1]).count("1") == 1:
                    # equal edge: x is Some(that byte); unequal edge: None or Some(other byte)
                    eqv = None
                    if "Some" in xs and xs["Some"] is not None and xs["Some"][0] == "byte" and (xs["Some"][1] & yp[1]):
                        eqv = ("e", OPTION, frozenset([("Some", ("byte", yp[1]))]), x[3])
                    nev = []
                    if "None" in xs:
                        nev.append(("None", None))
                    if "Some" in xs and xs["Some"] is not None and xs["Some"][0] == "byte":
                        m = xs["Some"][1] & ~yp[1]
                        if m:
                            nev.append(("Some", ("byte", m)))
                    nev = ("e", OPTION, frozenset(nev), x[3]) if nev else None
                    eq_refs = (("set", px[0], px[1], eqv),)
                    ne_refs = (("set", px[0], px[1], nev),)
                    val = None
                    if eqv is None:
                        val = False
                    elif nev is None:
                        val = True
                    if negate:
                        return [(("b", None if val is None else (not val), ne_refs, eq_refs), env, state)]
                    return [(("b", val, eq_refs, ne_refs), env, state)]
                if yn == "None":
                    eqv = _restrict(eng, x, OPTION, ["None"])
                    nev = _restrict(eng, x, OPTION, ["Some"])
                    eq_refs = (("set", px[0], px[1], eqv),)
                    ne_refs = (("set", px[0], px[1], nev),)
                    if negate:
                        return [(("b", None, ne_refs, eq_refs), env, state)]
                    return [(("b", None, eq_refs, ne_refs), env, state)]
        return [(("b", None, (), ()), env, state)]

    return h


def _identity(eng, fn, bb, t, env, state, args, where):
    return [(args[0] if args else TOP, env, state)]


def _option_take(eng, fn, bb, t, env, state, args, where):
    pl = _arg_place(eng, env, t, 0)
    if pl is None:
        return [(TOP, eng.havoc(env, args), state)]
    cur = eng.read(env, pl[0], pl[1])
    env = eng.write(env, pl[0], pl[1], enum(OPTION, [("None", None)], None))
    return [(cur, env, state)]


def _pure_top(eng, fn, bb, t, env, state, args, where):
    return [(TOP, env, state)]


def _u8_class(mask):
    def h(eng, fn, bb, t, env, state, args, where):
        pl = _arg_place(eng, env, t, 0)
        a = args[0]
        cur = None
        if pl is not None:
            cur = eng.read(env, pl[0], pl[1])
        elif a[0] == "cell":
            cur = a[1]
        elif a[0] == "byte":
            cur = a
        if cur is None or cur[0] not in ("byte", "top"):
            return [(("b", None, (), ()), env, state)]
        m = cur[1] if cur[0] == "byte" else ALL
        yes, no = m & mask, m & ~mask
        if pl is None:
            val = True if not no else False if not yes else None
            return [(("b", val, (), ()), env, state)]
        if not yes:
            return [(("b", False, (), (("set", pl[0], pl[1], ("byte", no)),)), env, state)]
        if not no:
            return [(("b", True, (("set", pl[0], pl[1], ("byte", yes)),), ()), env, state)]
        return [(("b", None, (("set", pl[0], pl[1], ("byte", yes)),), (("set", pl[0], pl[1], ("byte", no)),)), env, state)]

    return h


U8_CLASSES = {
    "is_ascii_digit": mask_of(range(48, 58)),
    "is_ascii_hexdigit": mask_of(list(range(48, 58)) + list(range(65, 71)) + list(range(97, 103))),
    "is_ascii_lowercase": mask_of(range(97, 123)),
    "is_ascii_uppercase": mask_of(range(65, 91)),
    "is_ascii_alphabetic": mask_of(list(range(65, 91)) + list(range(97, 123))),
    "is_ascii_alphanumeric": mask_of(list(range(48, 58)) + list(range(65, 91)) + list(range(97, 123))),
    "is_ascii_whitespace": mask_of([9, 10, 12, 13, 32]),
    "is_ascii": mask_of(range(0, 128)),
}

def _then_some(eng, fn, bb, t, env, state, args, where):
    c = args[0] if args else TOP
    v = eng.freeze(env, args[1]) if len(args) > 1 else TOP
    if c[0] == "b" and c[1] is not None:
        return [(enum(OPTION, [("Some", v)] if c[1] else [("None", None)]), env, state)]
    return [(enum(OPTION, [("None", None), ("Some", v)]), env, state)]


def _hof(adt, on, wrap):
    """std combinator that runs its callable on the payload of variant `on` only; `wrap`: the variant its result is
    wrapped in (None: the callable's own result is the result)"""
    def h(eng, fn, bb, t, env, state, args, where):
        recv = args[0] if args else TOP
        if recv[0] in ("cell",):
            recv = recv[1]
        f = args[1] if len(args) > 1 else TOP
        ex = eng.expand(recv, adt) if recv[0] in ("top", "e") else None
        if ex is None:
            return [(TOP, eng.havoc(env, args), state)]
        out = []
        for n, p in ex[2]:
            if n != on:
                out.append((enum(adt, [(n, p)]), env, state))
                continue
            for r, env2, st2 in eng.invoke(f, [p if p is not None else TOP], env, state, where):
                out.append((enum(adt, [(wrap, r)]) if wrap else r, env2, st2))
        return out
    return h


MODELS = {
    "core::result::Result::map": _hof(RESULT, "Ok", "Ok"),
    "core::result::Result::map_err": _hof(RESULT, "Err", "Err"),
    "core::result::Result::and_then": _hof(RESULT, "Ok", None),
    "core::result::Result::or_else": _hof(RESULT, "Err", None),
    "core::option::Option::map": _hof(OPTION, "Some", "Some"),
    "core::option::Option::and_then": _hof(OPTION, "Some", None),
    "core::bool::then_some": _then_some,
    "core::bool::<impl bool>::then_some": _then_some,
    "core::option::Option::is_none": _is_variant(OPTION, ["None"], ["Some"]),
    "core::option::Option::is_some": _is_variant(OPTION, ["Some"], ["None"]),
    "core::result::Result::is_ok": _is_variant(RESULT, ["Ok"], ["Err"]),
    "core::result::Result::is_err": _is_variant(RESULT, ["Err"], ["Ok"]),
    "<core::result::Result<T, E> as core::ops::try_trait::Try>::branch": _result_branch,
    "<core::result::Result<T, F> as core::ops::try_trait::FromResidual<core::result::Result<core::convert::Infallible, E>>>::from_residual": _result_from_residual,
    "<core::option::Option<T> as core::ops::try_trait::Try>::branch": _option_branch,
    "<core::option::Option<T> as core::ops::try_trait::FromResidual<core::option::Option<core::convert::Infallible>>>::from_residual": _option_from_residual,
    "core::option::Option::unwrap": _unwrap(OPTION, "Some"),
    "core::option::Option::expect": _unwrap(OPTION, "Some"),
    "core::result::Result::unwrap": _unwrap(RESULT, "Ok"),
    "core::result::Result::expect": _unwrap(RESULT, "Ok"),
    "core::cmp::PartialEq::ne": _opt_eq(True),
    "core::cmp::PartialEq::eq": _opt_eq(False),
    "<core::option::Option<T> as core::cmp::PartialEq>::eq": _opt_eq(False),
    "core::option::Option::take": _option_take,
    "core::hint::must_use": _identity,
}

for _n, _m in U8_CLASSES.items():
    MODELS["core::num::" + _n] = _u8_class(_m)
    MODELS["core::num::<impl u8>::" + _n] = _u8_class(_m)
