"""C03 — writing a value and parsing it back is the identity.

Equality of arbitrary values after a round trip is value-level and not decided.  Decided is the clause
"the writer's and the reader's tables agree" - a necessary condition (a disagreement is a value that does
not round trip):
R1 BTOR2 keyword bijection (writer name()/write_into constants vs. node_token/sort_token + token translation)
R2 BTOR2 constant validators accept exactly the characters the scanners accept
R3 AIGER symbol table: prefix <-> target agree in writer and reader (both files), and each alternative's
   index limit is the count it tests
R4 binary varint: the reader accepts at least as many 7-bit groups as the writer can emit
R5 AIGER header field order and the optional tail (writer keeps >= 5 fields)
R6 latch reset forms
R7 DIMACS framing words
"""
from . import table, util, guards, scan
from . import absint as A
from .absint import TOP, mask_of
from .cfg import cfg
from .common import norm
from .sym import sym, short, mentions, subexprs
from .c10 import strip_bb

B2 = "flussab_btor2::btor2::"
TK = "flussab_btor2::token::"


def fnn(facts, name):
    ids = [i for i in facts.fns if norm(i) == name]
    if not ids:
        from .facts import FactError
        raise FactError("anchor missing: " + name)
    return facts.fns[ids[0]]


def fns_prefix(facts, prefix):
    return [f for i, f in facts.fns.items() if norm(i).startswith(prefix)]


def ceval(e):
    """constant folding of a sym expression (None if not constant)"""
    if e[0] == "c" and isinstance(e[1], int):
        return e[1]
    if e[0] == "cast":
        return ceval(e[2])
    if e[0] == "bin":
        a, b = ceval(e[2]), ceval(e[3])
        if a is None or b is None:
            return None
        op = e[1]
        if op == "Add":
            return a + b
        if op == "Sub":
            return a - b
        if op == "Mul":
            return a * b
        if op == "Div" and b:
            return a // b
    return None


# ---- R1 ---------------------------------------------------------------------------------------
PUBLIC = ("UnaryOp", "BinaryOp", "TernaryOp", "AssignmentKind", "SingleValueOutputKind", "Const", "ValueVariant", "Sort", "Output", "NodeVariant")


def writer_keywords(facts, rule):
    w = {}

    def put(kw, key, where):
        kw = kw.decode() if isinstance(kw, bytes) else kw
        if kw in w and w[kw] != key:
            rule.bad("writer/ambiguous/%s" % kw, "keyword %r is written for both %s and %s" % (kw, w[kw], key), where)
        w[kw] = key

    for en in ("UnaryOp", "BinaryOp", "TernaryOp"):
        f = fnn(facts, B2 + en + "::name")
        t, adt = table.variant_table(facts, f)
        for v, (e, bb) in t.items():
            if e is not None and e[0] == "cb":
                put(e[1], "%s::%s" % (en, v), f.loc(bb))
            else:
                rule.bad("writer/%s::%s/no-name" % (en, v), "%s::%s has no constant name" % (en, v), f.loc())
        a = facts.adts.get(B2 + en)
        for v in a["variants"]:
            if v["name"] not in t:
                rule.bad("writer/%s::%s/missing" % (en, v["name"]), "%s::name has no arm for %s" % (en, v["name"]), f.loc())
    for en in ("Sort", "Value", "Assignment", "SingleValueOutput", "Output"):
        for f in fns_prefix(facts, B2 + en + "::write_into"):
            if f.kind == "Closure":
                continue
            for bb, b in table.const_bytes_calls(f, "write_all_defer_err"):
                words = [x for x in b.decode("latin1").split(" ") if x]
                if not words or not all(x.isalpha() for x in words):
                    continue
                ctx = [c for c in table.variant_context(facts, f, bb) if c[0] in PUBLIC]
                if not ctx:
                    rule.bad("writer/%s/%s/no-context" % (en, words[-1]), "keyword %r is written outside a variant arm" % b, f.loc(bb), kind="unmodelled-idiom")
                    continue
                key = "%s::%s" % ctx[-1]
                if en == "Sort" and len(words) == 2:
                    put(words[0], "NodeVariant::Sort", f.loc(bb))
                    put(words[1], key, f.loc(bb))
                else:
                    put(words[-1], key, f.loc(bb))
    return w


def reader_keywords(facts, rule):
    r = {}
    # translation tables of the token-only enums
    trans = {}
    for tok in ("NodeValueUnaryOpToken", "NodeValueExtOpToken"):
        f = fnn(facts, TK + tok + "::unary_op")
        t, adt = table.variant_table(facts, f)
        for v, (e, bb) in t.items():
            p = table.agg_path(e) if e else []
            if p:
                trans[(tok, v)] = "%s::%s" % p[-1]
    # try_node: public aggregates under a token context
    clos = [f for i, f in facts.fns.items() if norm(i).startswith("flussab_btor2::parser::Parser::try_node::{closure#0}") and norm(i).count("closure") == 1]
    for f in clos:
        for bi, b in enumerate(f.blocks):
            for s in b["stmts"]:
                if s["k"] == "assign" and s["rv"]["k"] == "agg" and s["rv"].get("ak") == "adt":
                    ad = table.short_adt(s["rv"]["adt"])
                    if ad not in ("Const", "ValueVariant", "Sort", "Output", "UnaryOp", "NodeVariant"):
                        continue
                    if ad == "ValueVariant" and s["rv"]["variant"] in ("Const", "Op"):
                        continue
                    if ad == "NodeVariant" and s["rv"]["variant"] != "Sort":
                        continue
                    if ad == "Output" and s["rv"]["variant"] != "Justice":
                        continue
                    ctx = [c for c in table.variant_context(facts, f, bi) if c[0] in ("NodeToken", "NodeValueToken", "SortToken")]
                    if not ctx:
                        continue
                    key = "%s::%s" % (ad, s["rv"]["variant"])
                    tk = ctx[-1]
                    if ad == "NodeVariant":
                        tk = [c for c in ctx if c[0] == "NodeToken"][-1]
                    if tk in trans and trans[tk] != key and ad != "NodeVariant":
                        rule.bad("reader/%s::%s/ambiguous" % tk, "token %s::%s is translated to both %s and %s" % (tk[0], tk[1], trans[tk], key), f.loc(bi))
                    if ad == "NodeVariant" or tk not in trans:
                        trans[tk] = key
    for fname in ("node_token", "sort_token"):
        f = fnn(facts, TK + fname)
        for kw, val, bb in table.str_match_table(facts, f):
            p = table.agg_path(val) if val else []
            if not p:
                rule.bad("reader/%s/no-token" % kw.decode(), "keyword %r does not construct a token" % kw, f.loc(bb), kind="unmodelled-idiom")
                continue
            leaf = p[-1]
            if leaf[0] in PUBLIC:
                key = "%s::%s" % leaf
            elif leaf in trans:
                key = trans[leaf]
            else:
                rule.bad("reader/%s/untranslated" % kw.decode(), "token %s::%s (keyword %r) is never turned into a public value" % (leaf[0], leaf[1], kw), f.loc(bb))
                continue
            k = kw.decode()
            if k in r and r[k] != key:
                rule.bad("reader/ambiguous/%s" % k, "keyword %r parses to both %s and %s" % (k, r[k], key), f.loc(bb))
            r[k] = key
    return r


def run_r1(ctx, rule):
    facts = ctx.facts
    w = writer_keywords(facts, rule)
    r = reader_keywords(facts, rule)
    for kw in sorted(set(w) | set(r)):
        a, b = w.get(kw), r.get(kw)
        rule.check(a == b, "keyword/%s" % kw, "keyword %r: written for %s, parsed as %s" % (kw, a, b))
    # coverage of the public enums
    want = []
    for en in ("UnaryOp", "BinaryOp", "TernaryOp", "AssignmentKind", "SingleValueOutputKind", "Const"):
        for v in facts.adts[B2 + en]["variants"]:
            want.append("%s::%s" % (en, v["name"]))
    want += ["ValueVariant::Input", "ValueVariant::State", "Sort::BitVec", "Sort::Array", "Output::Justice", "NodeVariant::Sort"]
    wk = set(w.values())
    rk = set(r.values())
    for k in want:
        rule.check(k in wk and k in rk, "coverage/%s" % k, "%s has a keyword on both sides (writer: %s, reader: %s)" % (k, k in wk, k in rk))
    # bijection: no two keywords for one value
    for side, m in (("writer", w), ("reader", r)):
        inv = {}
        for kw, key in m.items():
            inv.setdefault(key, []).append(kw)
        for key, kws in inv.items():
            if len(kws) > 1:
                rule.bad("%s/two-keywords/%s" % (side, key), "%s has several keywords on the %s side: %s" % (key, side, kws))
    rule.note("keywords", len(w))


# ---- R2 ---------------------------------------------------------------------------------------
CHAR_CLASSES = {
    "core::char::methods::is_ascii_hexdigit": mask_of(list(range(48, 58)) + list(range(97, 103)) + list(range(65, 71))),
    "core::char::methods::is_ascii_digit": mask_of(range(48, 58)),
    "core::char::methods::is_ascii_alphanumeric": mask_of(list(range(48, 58)) + list(range(97, 123)) + list(range(65, 91))),
}


def validator_class(facts, f, rule):
    """union of the character classes a TryFrom<&str> constructor lets through (position-insensitive)"""
    m = 0
    found = False
    # the predicate may sit in a closure of the constructor (`chars().find(|c| !valid(c))`, `all(..)`)
    bodies = [f] + [g for i, g in facts.fns.items() if g.kind == "Closure" and i.startswith(f.id + "::{closure")]
    for g in bodies:
        for bb, t in g.calls():
            cn = norm(t["callee"].get("res") or t["callee"].get("def") or "")
            if cn in CHAR_CLASSES:
                m |= CHAR_CLASSES[cn]
                found = True
            elif cn.startswith("core::char::methods::is_"):
                rule.bad("%s/unknown-predicate" % norm(f.id), "unknown character predicate %s" % cn, g.loc(bb), kind="unmodelled-idiom")
    for bi, b in ((bi, b) for g in bodies for bi, b in enumerate(g.blocks)):
        t = b["term"]
        if t["k"] == "switch" and t["ty"] == "char":
            for val, tgt in t["arms"]:
                if val < 256:
                    m |= 1 << val
                    found = True
        for s in b["stmts"]:
            if s["k"] == "assign" and s["rv"]["k"] == "bin" and s["rv"]["op"] in ("Eq", "Ne") and s["rv"]["ty"] == "char":
                for side in ("a", "b"):
                    c = s["rv"][side].get("c")
                    if c and "int" in c and c["int"] < 256:
                        m |= 1 << c["int"]
                        found = True
    return m if found else None


# ---- validator / scanner automata (position-sensitive part of R2) -----------------------------------
class _CharsAuto(scan.Behaviour):
    """behaviour of a `for c in value.chars()` validator: nodes are the calls of Chars::next, named by the values of
    the boolean flags of the frame at that moment (a `first` flag makes two nodes)"""
    name = "validator"

    def event(self, state, ev, where):
        if ev[0] == "prim" and ev[1] == "next":
            src, g = state
            dst = "next[%s]" % ev[2]
            self.transitions.add((src, g, dst))
            return (dst, (True, A.ALL))
        return scan.Behaviour.event(self, state, ev, where)


def _prim_chars_next(eng, fn, bb, t, env, state, args, where, n):
    flags = []
    for l, v in sorted(env.items()):
        if l >= 0 and v[0] == "b" and v[1] is not None and l in fn.vars:
            flags.append("%s=%s" % (fn.vars[l], "T" if v[1] else "F"))
    state = eng.auto.event(state, ("prim", "next", ",".join(flags)), where)
    return [(A.enum(A.OPTION, [("None", None), ("Some", ("byte", A.ALL))], "look"), env, state)]


def _prim_mem_take(eng, fn, bb, t, env, state, args, where, n):
    a = args[0] if args else TOP
    if a[0] == "ref":
        cur = eng.read(env, a[1], a[2])
        if cur[0] == "b" and cur[1] is not None:
            env = eng.write(env, a[1], a[2], ("b", False, (), ()), narrow=True)
            return [(("b", cur[1], (), ()), env, state)]
    return [(TOP, eng.havoc(env, args), state)]


_CharsAuto.extra_prims = {
    "<core::str::iter::Chars as core::iter::traits::iterator::Iterator>::next": _prim_chars_next,
    "core::mem::take": _prim_mem_take,
}


def validator_automaton(facts, f):
    """{node: [(byte mask, next node | 'Ok' | 'Err', may_end)]} or None when the validator is not a loop over chars()
    the interpreter can follow"""
    auto = _CharsAuto()
    eng = A.Engine(facts, auto)
    saved = dict(A.MODELS)
    for nme, m in A.U8_CLASSES.items():
        A.MODELS["core::char::methods::<impl char>::" + nme] = A._u8_class(m)
        A.MODELS["core::char::methods::" + nme] = A._u8_class(m)
    try:
        key = [k for k, n in facts.inst.items() if n["def"] == f.id and n.get("has_mir")]
        if not key:
            return None
        res = eng.summary(key[0], auto.initial(), tuple(TOP for _ in range(f.argc)))
    except (A.Recursion, A.Imprecise):
        return None
    finally:
        A.MODELS.clear()
        A.MODELS.update(saved)
    for av, st in res:
        names = set(n for n, _ in av[2]) if av[0] == "e" else set()
        auto.transitions.add((st[0], st[1], "ret:" + ("Ok" if names == {"Ok"} else "Err" if names == {"Err"} else "?")))
    nodes = {}
    starts = sorted(set(dst for src, g, dst in auto.transitions if not src.startswith("next[") and dst.startswith("next[")))
    for src, g, dst in auto.transitions:
        if not src.startswith("next["):
            continue
        if g is None or dst.endswith("?"):
            return None
        nodes.setdefault(src, []).append((g[1], dst[4:] if dst.startswith("ret:") else dst, g[0]))
    if not nodes or not starts:
        return None
    # only a deterministic result is believed: the classes leaving a node must be pairwise disjoint (an imprecise
    # run -- e.g. through Iterator::find and its closure plumbing -- shows up as overlapping guards)
    for outs in nodes.values():
        acc = 0
        for mask, dst, end in outs:
            if mask & acc:
                return None
            acc |= mask
    nodes["<start>"] = starts
    return nodes


def scanner_positions(facts, sf):
    """(class consumed at the first position, class consumed at later positions) of a prefix scanner"""
    auto = scan.Behaviour()
    eng = A.Engine(facts, auto)
    eng.summary(scan.root_key(facts, sf.id), auto.initial(), (TOP, ("i", 0)))
    first = later = 0
    for s0, g0, d0 in auto.transitions:
        if s0.startswith("look@") and d0.startswith("look@") and g0 is not None:
            a, b = s0[5:], d0[5:]
            if a == b:
                continue
            if a == "0":
                first |= g0[1]
            else:
                later |= g0[1]
    return first, later


def run_r2(ctx, rule):
    facts = ctx.facts
    for cname, scanner in (("BinaryConst", "binary_string"), ("HexConst", "hex_string"), ("DecimalConst", "decimal_string")):
        fs = [f for i, f in facts.fns.items() if "TryFrom" in i and cname in i and i.endswith("try_from") and f.crate == "flussab_btor2"]
        if not fs:
            rule.bad("%s/no-validator" % cname, "anchor missing: TryFrom<&str> for %s" % cname, kind="anchor-missing")
            continue
        vm = validator_class(facts, fs[0], rule)
        sf = fnn(facts, TK + scanner)
        auto = scan.Behaviour()
        eng = A.Engine(facts, auto)
        eng.summary(scan.root_key(facts, sf.id), auto.initial(), (TOP, ("i", 0)))
        sm = 0
        for s0, g0, d0 in auto.transitions:
            if s0.startswith("look@") and d0.startswith("look@") and g0 is not None:
                a, b = s0[5:], d0[5:]
                if a.isdigit() and b.isdigit() and a == b:
                    continue
                sm |= g0[1]
        # position-sensitive: every string the validator lets through is consumed completely by the scanner
        # (language inclusion over the product of the validator's flag states and the scanner's position)
        va = validator_automaton(facts, fs[0])
        if va is None:
            rule.note("%s/automaton" % cname, "validator is not a chars() loop the interpreter follows: only the position-insensitive class comparison applies")
        else:
            c0, c1 = scanner_positions(facts, sf)
            start = va.pop("<start>")
            seen = set()
            work = [(n, 0) for n in start]
            bad = None
            while work and bad is None:
                node, pos = work.pop()
                if (node, pos) in seen:
                    continue
                seen.add((node, pos))
                for mask, dst, _end in va.get(node, []):
                    if dst == "Err":
                        continue
                    allowed = c0 if pos == 0 else c1
                    if mask & ~allowed:
                        bad = "in validator state %s the characters %s are accepted at %s position, where the scanner stops" % (node, A.show_mask(mask & ~allowed), "the first" if pos == 0 else "a later")
                        break
                    if dst != "Ok":
                        work.append((dst, 1))
            rule.check(bad is None, "%s/language" % cname, "%s::try_from accepts only strings %s consumes completely (%d validator states)%s" % (cname, scanner, len(va), "" if bad is None else " -- " + bad), fs[0].loc())
        ok = vm is not None and vm == sm
        rule.check(ok, "%s/class" % cname, "%s::try_from accepts exactly the characters %s scans (validator %s, scanner %s)" % (cname, scanner, A.show_mask(vm) if vm is not None else "?", A.show_mask(sm)), fs[0].loc())
        # the tuple field is not public: values can only be made through the validating constructor
        a = facts.adts.get(B2 + cname)
        priv = a is not None and all(not fl["pub"] for v in a["variants"] for fl in v["fields"])
        rule.check(priv, "%s/field-private" % cname, "%s's field is not public (construction only through try_from)" % cname)


# ---- R3 ---------------------------------------------------------------------------------------
def upvar_field(facts, cfn, e, depth=0):
    """resolve an expression inside a closure body to the struct field it denotes: either a direct field
    access, or a captured reference `_1.<k>` whose capture site names the field"""
    if depth > 4 or not isinstance(e, tuple):
        return None
    if e[0] == "f" and e[1] == ("l", 1) and e[2].isdigit() and cfn.kind == "Closure":
        k = int(e[2])
        for f in facts.fns.values():
            for b in f.blocks:
                for s in b["stmts"]:
                    if s["k"] == "assign" and s["rv"]["k"] == "agg" and s["rv"].get("closure") == cfn.id and k < len(s["rv"]["ops"]):
                        pe = sym(f).operand(s["rv"]["ops"][k])
                        r = upvar_field(facts, f, pe, depth + 1)
                        if r:
                            return r
        return None
    if e[0] == "f" and not e[2].isdigit():
        return e[2]
    if e[0] == "l" and cfn.kind != "Closure" and 1 <= e[1] <= cfn.argc and not cfn.j.get("pub"):
        # a parameter of a private helper: the field every call site passes (all must agree)
        nid = norm(cfn.id)
        got = set()
        for f in facts.fns.values():
            if f.crate in ("ext", "promoted"):
                continue
            for bb, t in f.calls():
                if norm(util.cname(t)) == nid and len(t["args"]) >= e[1]:
                    got.add(upvar_field(facts, f, sym(f).operand(t["args"][e[1] - 1]), depth + 1))
        if len(got) == 1:
            return got.pop()
    return None


def symbol_tables(facts, mod, rule):
    """(writer {variant: prefix}, reader rows [(prefix, guard field, limit field, variant, where)])"""
    wf = [f for i, f in facts.fns.items() if norm(i) == "flussab_aiger::%s::Writer::write_symbol" % mod][0]
    sy = sym(wf)
    wt = {}
    # `let (prefix, index) = match symbol.target { V(index) => (b"i", index), ..}`
    for bi, b in enumerate(wf.blocks):
        t = b["term"]
        if t["k"] == "switch":
            d = sy.operand(t["discr"])
            if d[0] == "discr" and d[2].endswith("SymbolTarget"):
                adt = facts.adts[d[2]]
                by = {v["discr"]: v["name"] for v in adt["variants"]}
                for val, tgt in t["arms"]:
                    # find the tuple aggregate in the arm
                    blk = wf.blocks[tgt]
                    for s in blk["stmts"]:
                        if s["k"] == "assign" and s["rv"]["k"] == "agg" and s["rv"]["ak"] == "tuple":
                            e = sy.rvalue(s["rv"])
                            for o in e[3]:
                                for x in subexprs(o):
                                    if x[0] == "cb":
                                        wt[by[val]] = x[1]
    rows = []
    fns = [f for i, f in facts.fns.items() if norm(i).startswith("flussab_aiger::%s::ParseSymbols::next_symbol" % mod)]
    for f in fns:
        sy = sym(f)
        for bb, t in f.calls():
            cn = norm(util.cname(t))
            if cn != "flussab::parser::Parsed::and_then":
                continue
            # receiver: a local assigned in two arms (token call / Fallthrough)
            recv = t["args"][0].get("mv") or t["args"][0].get("cp")
            clo = t["args"][1].get("mv") or t["args"][1].get("cp")
            if recv is None or clo is None or "closure" not in f.locals[clo["l"]]:
                continue
            prefix = None
            gfield = None
            for d in sy.defs.get(recv["l"], []):
                if d[0] == "call":
                    tt = d[2]
                    cn2 = norm(util.cname(tt))
                    if cn2.startswith("flussab_aiger::token::fixed"):
                        for a in tt["args"]:
                            e = sy.operand(a)
                            for x in subexprs(e):
                                if x[0] == "cb":
                                    prefix = x[1]
                        g = guards.holds(f, d[1], lambda fa: fa[0] == "cmp" and fa[1] in ("Gt", "Ne") and ("c", 0) in (fa[2], fa[3]))
                        if g:
                            other = g[1][2] if g[1][3] == ("c", 0) else g[1][3]
                            gfield = upvar_field(facts, f, other) or "?" + sy.show(other)
            cdef = f.locals[clo["l"]]["closure"]
            cf = facts.fns.get(cdef)
            lfield = None
            variant = None
            if cf is not None:
                cs = sym(cf)
                for b2, t2 in cf.calls():
                    c2 = norm(util.cname(t2))
                    if c2 == "flussab_aiger::token::symbol_index":
                        lim = cs.operand(t2["args"][2])
                        if lim[0] == "bin" and lim[1] == "Sub" and lim[3] == ("c", 1):
                            lfield = upvar_field(facts, cf, lim[2]) or "?" + cs.show(lim)
                        else:
                            lfield = "?" + cs.show(lim)
                    if c2.endswith("::map"):
                        e = cs.operand(t2["args"][1])
                        if e[0] == "cfn":
                            variant = e[1].rsplit("::", 1)[-1]
            rows.append((prefix, gfield, lfield, variant, f.loc(bb), cdef))
    return wt, rows


def run_r3(ctx, rule):
    facts = ctx.facts
    for mod in ("ascii", "binary"):
        wt, rows = symbol_tables(facts, mod, rule)
        if len(wt) != 7 or len(rows) != 7:
            rule.bad("%s/symbol-table-size" % mod, "expected 7 symbol kinds on both sides (writer %d, reader %d)" % (len(wt), len(rows)), kind="anchor-missing")
        for prefix, gfield, lfield, variant, where, _cd in rows:
            k = "%s/symbol/%s" % (mod, variant)
            rule.check(variant in wt and wt[variant] == prefix, k + "/prefix", "%s: symbol %s is read with prefix %r and written with %r" % (mod, variant, prefix, wt.get(variant)), where)
            rule.check(gfield is not None and gfield == lfield, k + "/limit", "%s: the index limit of %s symbols is the count that is tested (> 0 test on %s, limit %s - 1)" % (mod, variant, gfield, lfield), where)
        inv = {}
        for prefix, gfield, lfield, variant, where, _cd in rows:
            inv.setdefault(prefix, []).append(variant)
        for p, vs in inv.items():
            if len(vs) > 1:
                rule.bad("%s/symbol/prefix-%s-ambiguous" % (mod, p), "prefix %r selects several symbol kinds: %s" % (p, vs))


# ---- R4 ---------------------------------------------------------------------------------------
def run_r4(ctx, rule):
    facts = ctx.facts
    wf = [f for i, f in facts.fns.items() if norm(i) == "flussab_aiger::binary::Writer::write_binary_uint"]
    rf = fnn(facts, "flussab_aiger::token::binary_uint")
    if not wf:
        rule.bad("varint/writer-missing", "anchor missing: write_binary_uint", kind="anchor-missing")
        return
    wf = wf[0]
    wmax = None
    for l in wf.locals:
        if l.get("array") == "u8" and "len" in l and l.get("refs", 0) == 0:
            wmax = l["len"]
    sy = sym(rf)
    rlim = None
    # the variable that is used as look-ahead offset counts the groups read so far
    offs = set()
    for bb, t in rf.calls():
        if norm(util.cname(t)).endswith("request_byte_at_offset") and len(t["args"]) > 1:
            e = sy.operand(t["args"][1])
            if e[0] == "l":
                offs.add(e[1])
    for bi, b in enumerate(rf.blocks):
        for s in b["stmts"]:
            if s["k"] == "assign" and s["rv"]["k"] == "bin" and s["rv"]["op"] in ("Eq", "Ge", "Gt"):
                e = sy.rvalue(s["rv"])
                for side, other in ((e[2], e[3]), (e[3], e[2])):
                    v = ceval(other)
                    if v is not None and v > 1 and side[0] == "l" and side[1] in offs:
                        rlim = v if e[1] != "Gt" else v + 1
    rule.check(wmax is not None and wmax * 7 >= 64, "varint/writer-covers-usize", "the writer's group buffer (%s groups of 7 bits) covers usize" % wmax, wf.loc())
    rule.check(rlim is not None and wmax is not None and rlim >= wmax, "varint/reader-accepts-writer", "the reader accepts at least as many 7-bit groups (%s) as the writer can emit (%s)" % (rlim, wmax), rf.loc())


def run_r4b(ctx, rule):
    """the continuation-bit protocol of the 7-bit groups: writer and reader use the same constants, and the
    writer's last group provably has the continuation bit clear"""
    facts = ctx.facts
    wf = [f for i, f in facts.fns.items() if norm(i) == "flussab_aiger::binary::Writer::write_binary_uint"]
    rf = fnn(facts, "flussab_aiger::token::binary_uint")
    if not wf:
        rule.bad("varint/writer-missing", "anchor missing: write_binary_uint", kind="anchor-missing")
        return
    wf = wf[0]
    sy = sym(wf)
    arrays = set(i for i, l in enumerate(wf.locals) if l.get("array") == "u8" and l.get("refs", 0) == 0)
    n_cont = n_last = 0
    final_vals = []
    for bi, b in enumerate(wf.blocks):
        for s in b["stmts"]:
            if s["k"] != "assign" or s["lhs"]["l"] not in arrays or not any(isinstance(q, dict) and ("index" in q or "cidx" in q) for q in s["lhs"]["p"]):
                continue
            e = sy.rvalue(s["rv"])
            if e[0] == "bin" and e[1] == "BitOr" and ("c", 128) in (e[2], e[3]):
                n_cont += 1
                continue
            if e[0] == "bin" and e[1] == "BitAnd" and ("c", 127) in (e[2], e[3]):
                n_last += 1
                rule.ok("write_binary_uint: the last group is masked with 0x7f", wf.loc(bi))
                continue
            v = e[2] if e[0] == "cast" else e
            final_vals.append((bi, v))
            g = guards.holds(wf, bi, lambda fa: fa[0] == "cmp" and (fa[1] == "Lt" and fa[3] == ("c", 128) and strip_bb(fa[2]) == strip_bb(v) or fa[1] == "Le" and fa[3] == ("c", 127) and strip_bb(fa[2]) == strip_bb(v) or fa[1] == "Gt" and fa[2] == ("c", 128) and strip_bb(fa[3]) == strip_bb(v) or fa[1] == "Ge" and fa[2] == ("c", 127) and strip_bb(fa[3]) == strip_bb(v)))
            n_last += 1
            rule.check(bool(g), "varint/last-group-clear", "write_binary_uint: a group written without the continuation bit holds a value known to be < 0x80 (%s)" % (guards.show_fact(wf, g[1]) if g else "no dominating fact value < 0x80 for %s" % sy.show(v)), wf.loc(bi))
    # completeness: when the bytes are handed to the writer nothing of the value is left over -- either the
    # remaining value is known to be zero, or the final group is the remaining value itself (then < 0x80, above)
    shifted = set()
    shift_blocks = {}
    for bi, b in enumerate(wf.blocks):
        for s in b["stmts"]:
            if s["k"] == "assign" and not s["lhs"]["p"] and s["rv"]["k"] == "bin" and s["rv"]["op"].replace("Unchecked", "") == "Shr":
                shifted.add(s["lhs"]["l"])
                shift_blocks.setdefault(s["lhs"]["l"], set()).add(bi)
    outs = [bb for bb, t in wf.calls() if norm(util.cname(t)).endswith("DeferredWriter::write_all_defer_err")]
    c = cfg(wf)
    for bb in outs:
        how = None
        for l in shifted:
            g = guards.holds(wf, bb, lambda fa: fa[0] == "cmp" and fa[1] == "Eq" and fa[2] == ("l", l) and fa[3] == ("c", 0))
            if not g:
                # the exit test through a flag (`more = code != 0; while more {..}`): on the exit edge the flag can only
                # come from a definition that compares the remaining value with zero, made after the shift
                def flag_fact(fa):
                    if fa[0] != "bool" or fa[1][0] != "l":
                        return False
                    informative = 0
                    for d in sy.defs.get(fa[1][1], []):
                        if d[0] != "stmt":
                            return False
                        e = sy.rvalue(d[3], 1)
                        if e[0] == "c":
                            if bool(e[1]) == fa[2]:
                                return False  # a constant definition could take this edge: nothing known
                            continue
                        zero = e[0] == "bin" and e[2] == ("l", l) and e[3] == ("c", 0) and ((e[1] == "Ne" and fa[2] is False) or (e[1] == "Eq" and fa[2] is True))
                        after_shift = any(c.dominates(sb, d[1]) for sb in shift_blocks.get(l, ()))
                        if not (zero and after_shift):
                            return False
                        informative += 1
                    return informative > 0
                g = guards.holds(wf, bb, flag_fact)
                if g:
                    how = "remaining value == 0 on exit (through the loop flag %s)" % guards.show_fact(wf, g[1])
            elif g:
                # the guard still describes `l` at bb: no assignment to l in a block strictly between (dominated by the guard, reaching bb)
                redefs = [d[1] for d in sy.defs.get(l, []) if d[1] != g[0] and c.dominates(g[0], d[1]) and c.dominates(d[1], bb)]
                if not redefs:
                    how = "remaining value == 0 on exit (%s)" % guards.show_fact(wf, g[1])
            for fb in final_vals:
                if fb[1] == ("l", l) and c.dominates(fb[0], bb) and not [d for d in sy.defs.get(l, []) if d[1] != fb[0] and c.dominates(fb[0], d[1]) and c.dominates(d[1], bb)]:
                    how = "the final group is the remaining value itself"
        rule.check(how is not None, "varint/complete", "write_binary_uint: every bit of the value has been emitted when the groups are written out (%s)" % (how or "no exit fact `remaining == 0` and the final group is not the remaining value"), wf.loc(bb))
    if not outs or not shifted:
        rule.bad("varint/complete-anchor", "anchor missing: shifted value / write_all_defer_err in write_binary_uint", kind="anchor-missing")
    rule.check(n_cont >= 1 and n_last >= 1, "varint/group-forms", "write_binary_uint emits continuation groups (| 0x80) and a final group with the bit clear (%d / %d stores)" % (n_cont, n_last), wf.loc())
    # shift by 7 on both sides, reader tests bit 0x80 and keeps 0x7f
    def consts(f, op):
        out = set()
        sf = sym(f)
        for b in f.blocks:
            for s in b["stmts"]:
                if s["k"] == "assign" and s["rv"]["k"] == "bin" and s["rv"]["op"].replace("Unchecked", "") == op:
                    e = sf.rvalue(s["rv"])
                    for x in (e[2], e[3]):
                        v = ceval(x)
                        if v is None and x[0] == "l":
                            x = sf.origin(x)  # `let shift = 7 * i;`
                        if v is not None:
                            out.add(v)
                        elif x[0] == "bin" and x[1] in ("Mul", "MulUnchecked"):
                            # `<< (7 * i)`: the i-th group has weight 7 bits per group, the same protocol
                            for y in (x[2], x[3]):
                                w = ceval(y)
                                if w is not None:
                                    out.add(w)
        # operator traits on references (`&u8 & 0x7f`) are calls
        for bb, t in f.calls():
            cn = norm(util.cname(t))
            if cn.rsplit("::", 1)[-1] == {"BitAnd": "bitand", "Shl": "shl", "Shr": "shr"}.get(op, "?"):
                for a in t["args"]:
                    v = ceval(sf.operand(a))
                    if v is not None:
                        out.add(v)
        return out
    rule.check(7 in consts(wf, "Shr") and 7 in consts(rf, "Shl"), "varint/shift", "writer shifts right by 7 per group, reader shifts left by 7 per group", wf.loc())
    rule.check(128 in consts(rf, "BitAnd") and 127 in consts(rf, "BitAnd"), "varint/reader-masks", "the reader tests the continuation bit 0x80 and keeps the low 7 bits", rf.loc())


# ---- R5 ---------------------------------------------------------------------------------------
def run_r5(ctx, rule):
    facts = ctx.facts
    for mod in ("ascii", "binary"):
        pf = [f for i, f in facts.fns.items() if norm(i) == "flussab_aiger::%s::Header::parse" % mod]
        wf = [f for i, f in facts.fns.items() if norm(i) == "flussab_aiger::%s::Writer::write_header" % mod]
        if not pf or not wf:
            rule.bad("%s/header-anchors" % mod, "anchor missing: Header::parse / write_header", kind="anchor-missing")
            continue
        pf, wf = pf[0], wf[0]
        sy = sym(wf)
        worder = None
        for b in wf.blocks:
            for s in b["stmts"]:
                if s["k"] == "assign" and s["rv"]["k"] == "agg" and s["rv"]["ak"] == "array" and len(s["rv"]["ops"]) == 9:
                    e = sy.rvalue(s["rv"])
                    worder = [o[2] if o[0] == "f" else "?" for o in e[3]]
        # reader: order in which the header_field results are produced, by dominance of their call sites
        ps = sym(pf)
        c = cfg(pf)
        calls = [(bb, t) for bb, t in pf.calls() if norm(util.cname(t)) == "flussab_aiger::token::header_field"]
        # which Header field each call feeds: Header aggregate operands
        feeds = {}
        for b in pf.blocks:
            for s in b["stmts"]:
                if s["k"] == "assign" and s["rv"]["k"] == "agg" and s["rv"].get("adt", "").endswith("::Header"):
                    names = s["rv"]["fields"]
                    for nm, o in zip(names, s["rv"]["ops"]):
                        p = o.get("mv") or o.get("cp")
                        if p is not None:
                            feeds[p["l"]] = nm
        order = []
        for bb, t in sorted(calls, key=lambda x: len(c.dom().get(x[0], ()))):
            nm = ps.operand(t["args"][1])
            order.append((bb, nm[1].decode() if nm[0] == "cb" else "?"))
        # the Header aggregate: which header_field call feeds which field
        call_pos = {bb: i for i, (bb, nm) in enumerate(order)}
        field_pos = {}
        for b in pf.blocks:
            for s in b["stmts"]:
                if s["k"] == "assign" and s["rv"]["k"] == "agg" and s["rv"].get("adt", "").endswith("::Header"):
                    for nm, o in zip(s["rv"]["fields"], s["rv"]["ops"]):
                        e = ps.operand(o)
                        cands = [e]
                        if e[0] == "l":
                            cands = []
                            for d in ps.defs.get(e[1], []):
                                if d[0] == "stmt":
                                    cands.append(ps.rvalue(d[3]))
                                else:
                                    cands.append(ps.origin(("l", e[1])))
                        more = []
                        for ce in cands:
                            if ce[0] == "l":
                                more.append(ps.origin(ce))
                        for ce in cands + more:
                            for x in subexprs(ce):
                                if x[0] == "call" and norm(x[2]) == "flussab_aiger::token::header_field" and x[1] in call_pos:
                                    field_pos[nm] = call_pos[x[1]]
        rorder = [nm for nm, _ in sorted(field_pos.items(), key=lambda kv: kv[1])]
        rule.check(worder is not None and rorder == worder, "%s/header-order" % mod, "%s: header fields are parsed in the order they are written (written %s, parsed %s)" % (mod, worder, rorder), pf.loc())
        # writer keeps at least 5 fields
        # every test of a field count against a constant lower bound (`rest.len() >= 5`, `len > 5`) leaves 5 or more
        keep = []
        flip = {"Le": "Ge", "Lt": "Gt"}
        for b in wf.blocks:
            for s in b["stmts"]:
                if s["k"] == "assign" and s["rv"]["k"] == "bin" and s["rv"]["op"] in ("Ge", "Gt", "Lt", "Le"):
                    e = sy.rvalue(s["rv"])
                    if e[1] in ("Ge", "Gt") and e[3][0] == "c" and e[2][0] != "c" and 1 <= e[3][1] <= 9:
                        keep.append((e[1], e[3][1]))
                    elif e[1] in ("Le", "Lt") and e[2][0] == "c" and e[3][0] != "c" and 1 <= e[2][1] <= 9:
                        keep.append((flip[e[1]], e[2][1]))
        # or the kept length is computed as max(.., 5) / defaults to 5 (`rposition(..).map_or(5, |i| (i + 1).max(5))`)
        for g2 in [wf] + [g for i, g in facts.fns.items() if g.kind == "Closure" and i.startswith(wf.id + "::{closure")]:
            s2 = sym(g2)
            for bb, t in g2.calls():
                cn = norm(util.cname(t))
                if cn.endswith(("Ord::max", "::max")) and len(t["args"]) == 2:
                    for a in t["args"]:
                        v = s2.operand(a)
                        if v[0] == "c" and 1 <= v[1] <= 9:
                            keep.append(("Ge", v[1]))
                if cn.endswith("Option::map_or") and t["args"]:
                    v = s2.operand(t["args"][1]) if len(t["args"]) > 1 else ("?",)
                    if v[0] == "c" and 1 <= v[1] <= 9:
                        keep.append(("Ge", v[1]))
        okk = bool(keep) and all((op == "Ge" and k >= 5) or (op == "Gt" and k >= 4) for op, k in keep)
        if not okk:
            # the same decided at the statements that shorten what will be written (`fields = rest`, `used -= 1`):
            # each is dominated by a test that five or more remain (a slice pattern's own `len >= 1` is beside the point)
            cwf = cfg(wf)
            loops_w = cwf.loops()
            shrinks = []
            for bi, b in enumerate(wf.blocks):
                if not any(bi in body for body in loops_w.values()):
                    continue
                for st in b["stmts"]:
                    if st["k"] == "assign" and not st["lhs"]["p"] and st["lhs"]["l"] in sy.multi and st["lhs"]["l"] in wf.vars:
                        shrinks.append(bi)
            def five_remain(fa):
                if fa[0] != "cmp":
                    return False
                op, a, b = fa[1], fa[2], fa[3]
                if b[0] == "c" and a[0] != "c":
                    return (op == "Ge" and b[1] >= 5) or (op == "Gt" and b[1] >= 4)
                if a[0] == "c" and b[0] != "c":
                    return (op == "Le" and a[1] >= 5) or (op == "Lt" and a[1] >= 4)
                return False
            if shrinks and all(guards.holds(wf, bi, five_remain) for bi in shrinks):
                okk = True
                keep = keep + [("shrink-guarded", len(shrinks))]
        rule.check(okk, "%s/header-min-fields" % mod, "%s: the writer drops trailing zero fields only while at least 5 remain (%s)" % (mod, keep), wf.loc())
        # the parser requires 5 fields before the first optional end of line
        first_opt = [bb for bb, t in pf.calls() if norm(util.cname(t)) == "flussab_aiger::token::required_newline_or_space"]
        n_before = 0
        if first_opt:
            fo = sorted(first_opt, key=lambda x: len(c.dom().get(x, ())))[0]
            n_before = len([1 for bb, t in calls if c.dominates(bb, fo)])
        rule.check(n_before == 5, "%s/header-required-fields" % mod, "%s: the parser requires exactly 5 fields before the line may end (found %d)" % (mod, n_before), pf.loc())


# ---- R6 / R7 ----------------------------------------------------------------------------------
def run_r6(ctx, rule):
    facts = ctx.facts
    for mod in ("ascii", "binary"):
        wf = [f for i, f in facts.fns.items() if norm(i) == "flussab_aiger::%s::Writer::write_latch" % mod]
        rf = [f for i, f in facts.fns.items() if norm(i) == "flussab_aiger::%s::ParseLatches::next_latch" % mod]
        if not wf or not rf:
            rule.bad("%s/latch-anchors" % mod, "anchor missing: write_latch / next_latch", kind="anchor-missing")
            continue
        wf, rf = wf[0], rf[0]
        # writer: Some(true) -> " 1\n", Some(false) -> "\n", None -> " " + own literal
        forms = {}
        for bb, b in table.const_bytes_calls(wf, "write_all_defer_err"):
            ctxv = table.variant_context(facts, wf, bb)
            facts_here = guards.facts_at(wf, bb)
            forms.setdefault(b, []).append((ctxv, facts_here))
        ok_w = b" 1\n" in forms and any(("Option", "Some") in c for c, _ in forms.get(b" 1\n", []))
        rule.check(ok_w, "%s/latch-writer-one" % mod, "%s: initialisation Some(true) is written as ' 1'" % mod, wf.loc())
        # reader: code < 2 -> Some(code != 0); code == state code -> None; absent -> Some(false)
        sy = sym(rf)
        has_lt2 = False
        has_eq_state = False
        for b in rf.blocks:
            for s in b["stmts"]:
                if s["k"] == "assign" and s["rv"]["k"] == "bin":
                    e = sy.rvalue(s["rv"])
                    if e[1] == "Lt" and ("c", 2) in (e[2], e[3]):
                        has_lt2 = True
                    if e[1] == "Eq" and e[2][0] != "c" and e[3][0] != "c" and any(mentions(x, lambda y: y[0] == "call" and norm(y[2]) == "flussab_aiger::token::lit") or x[0] == "l" for x in (e[2], e[3])):
                        has_eq_state = True
        for bi, b in enumerate(rf.blocks):
            t = b["term"]
            if not b["cleanup"] and t["k"] == "switch" and t["ty"] != "bool" and sy.operand(t["discr"])[0] != "discr":
                if {0, 1} <= set(v for v, _ in t["arms"]):
                    has_lt2 = True  # `match code { 0 => .., 1 => .., .. }`
            for s in b["stmts"]:
                if s["k"] == "assign" and s["rv"]["k"] == "bin":
                    e = sy.rvalue(s["rv"])
                    if (e[1] == "Le" and e[3] == ("c", 1)) or (e[1] == "Ge" and e[2] == ("c", 1)) or (e[1] == "Gt" and e[2] == ("c", 2)):
                        has_lt2 = True
        rule.check(has_lt2 and has_eq_state, "%s/latch-reader-forms" % mod, "%s: the reader distinguishes 0/1 (< 2) and the latch's own literal" % mod, rf.loc())


def run_r7(ctx, rule):
    facts = ctx.facts
    for mod, word in (("cnf", b"cnf"), ("wcnf", b"wcnf"), ("gcnf", b"gcnf")):
        wf = [f for i, f in facts.fns.items() if norm(i) == "flussab_cnf::%s::write_header" % mod]
        pf = [f for i, f in facts.fns.items() if norm(i).startswith("flussab_cnf::%s::Parser::parse_header" % mod)]
        if not wf or not pf:
            rule.bad("%s/framing-anchors" % mod, "anchor missing", kind="anchor-missing")
            continue
        # writer: a constant containing "p <word> "
        found_w = False
        for f in wf:
            sw = sym(f)
            for bb, t in f.calls():
                for a in t["args"]:
                    for x in subexprs(sw.operand(a)):
                        if x[0] == "cb" and (b"p " + word + b" ") in x[1]:
                            found_w = True
        # reader: word(b"p") and word(b"<word>")
        words = set()
        for f in pf:
            for bb, b in table.const_bytes_calls(f, "token::word"):
                words.add(b)
        rule.check(found_w and b"p" in words and word in words, "%s/framing" % mod, "%s: the header is written as 'p %s ..' and parsed as the words 'p', '%s' (reader words %s)" % (mod, word.decode(), word.decode(), sorted(words)), wf[0].loc())


# ---- R8: sibling agreement of the two whole-file builders ------------------------------------------------
def run_r8(ctx, rule):
    """ascii::Parser::parse and binary::Parser::parse assemble the same Aig from the same sequence of sections; the
    writers emit what either of them must read back.  Cross-check (the two are independent implementations of one
    interface): same section calls at the same loop nesting, same number of loops per nesting depth -- e.g. the
    distribution of justice literals over the declared property sizes needs the inner `skip full properties` loop in both."""
    facts = ctx.facts
    sigs = {}
    for mod in ("ascii", "binary"):
        fs = [f for i, f in facts.fns.items() if norm(i) == "flussab_aiger::%s::Parser::parse" % mod]
        if not fs:
            rule.bad("%s/parse-anchor" % mod, "anchor missing: %s::Parser::parse" % mod, kind="anchor-missing")
            return
        f = fs[0]
        c = cfg(f)
        loops = c.loops()
        depth = lambda bb: sum(1 for body in loops.values() if bb in body)
        calls = []
        for bb, t in f.calls():
            cn = norm(util.cname(t))
            if cn.startswith("flussab_aiger::%s::" % mod):
                calls.append((depth(bb), cn[len("flussab_aiger::%s::" % mod):]))
        # and_gates of the binary format are delta encoded, the ascii section carries explicit outputs: same role
        # (the loop over the explicit input section exists in the ascii format only, see below)
        own = lambda body: any(norm(util.cname(t)).endswith("ParseInputs::next_input") for bb, t in f.calls() if bb in body)
        sigs[mod] = (sorted(calls), sorted(depth(h) for h, body in loops.items() if not own(body)))
    (ca, la), (cb, lb) = sigs["ascii"], sigs["binary"]
    # the one legitimate difference (frozen, confirmed by reading): the ascii format lists its inputs explicitly, the
    # binary format implies them -- one more section loop and its three calls on the ascii side, a direct step to the
    # latch section on the binary side
    ASCII_ONLY = [(0, "ParseInputs::latches"), (0, "Parser::inputs"), (1, "ParseInputs::next_input")]
    BINARY_ONLY = [(0, "Parser::latches")]
    for x in ASCII_ONLY:
        if x in ca:
            ca.remove(x)
    for x in BINARY_ONLY:
        if x in cb:
            cb.remove(x)

    rule.check(la == lb, "parse/loop-nesting", "ascii and binary Parser::parse have the same loops at the same nesting depth (ascii %s, binary %s)" % (la, lb))
    only_a = [x for x in ca if x not in cb]
    only_b = [x for x in cb if x not in ca]
    rule.check(not only_a and not only_b, "parse/section-calls", "ascii and binary Parser::parse call the same section iterators at the same loop depth (only ascii: %s; only binary: %s)" % (only_a[:4], only_b[:4]))
    rule.note("section_calls", len(ca))

# ---- R10 ----------------------------------------------------------------------------------------
def run_r10(ctx, rule):
    """Free text (symbol names, comments, constants) is handed out verbatim: what a text token returns is the
    buffer slice its scan delimited, through identity conversions only, and a terminator that is cut off is
    exactly the one byte the cursor moves further.  A token that trims or strips what it read returns a name
    the writer never wrote."""
    facts = ctx.facts
    identity = ("core::convert::Into::into", "core::convert::From::from", "core::str::converts::from_utf8_unchecked", "core::ops::index::Index::index", "core::slice::index::index", "bstr::bstr::BStr::new", "core::convert::AsRef::as_ref")
    n = 0
    for f in sorted(facts.fns.values(), key=lambda x: x.id):
        if f.crate not in ("flussab_aiger", "flussab_btor2"):
            continue
        sy = sym(f)
        for bb, t in f.calls():
            if norm(util.cname(t)) != A.DR + "advance_with_buf":
                continue
            n += 1
            nid = norm(f.id)
            amount = strip_bb(sy.operand(t["args"][1]))
            bad = None
            cut = "nothing"
            for b2, t2 in f.calls():
                if b2 == bb:
                    continue
                es = [sy.operand(a) for a in t2["args"]]
                if not any(mentions(e, lambda x: x[0] == "call" and x[1] == bb) for e in es):
                    continue
                cn = norm(util.cname(t2))
                if not (cn in identity or cn.rsplit("::", 1)[-1] in ("index", "into", "from", "from_utf8_unchecked", "as_ref")):
                    bad = "its result is passed through %s" % short(cn)
                    break
                if cn.endswith("::index") and len(es) > 1 and es[0][0] == "call" and es[0][1] == bb:
                    r = strip_bb(es[1])
                    if not (r[0] == "agg" and r[1].endswith("RangeTo") and len(r[3]) == 1):
                        bad = "it is sliced by %s" % sy.show(es[1])
                        break
                    end = r[3][0]
                    if end[0] == "l" and amount == ("bin", "Add", end, ("c", 1)):
                        cut = "the one terminator byte"
                    elif end == amount:
                        cut = "nothing"
                    elif end[0] == "call" and end[2].endswith("saturating_sub") and end[3][1] == ("c", 1) and amount[0] == "call" and amount[2].endswith("buf_len"):
                        cut = "the final line feed of the file"
                    else:
                        bad = "the slice handed out ends at %s while the cursor moves by %s" % (sy.show(es[1]), sy.show(sy.operand(t["args"][1])))
                        break
            rule.check(bad is None, "%s/verbatim" % nid, "%s hands out the consumed text verbatim (cut off: %s)%s" % (short(nid), cut, "" if bad is None else " -- but " + bad), f.loc(bb))
    rule.note("text_tokens", n)

# ---- R11: whole-file writers and parsers agree on the sections ------------------------------------------------
def _places(o, out):
    if isinstance(o, dict):
        if "l" in o and "p" in o and isinstance(o["p"], list):
            out.append(o)
        for v in o.values():
            _places(v, out)
    elif isinstance(o, list):
        for v in o:
            _places(v, out)


AIG_ADTS = ("flussab_aiger::aig::Aig", "flussab_aiger::aig::OrderedAig")


def section_sequence(facts, fn, mode):
    """the fields of the circuit value in the order the function works through them: for a writer the fields it
    reads behind the header, for a parser the fields it fills.  A field touched inside a loop stands at the
    place of its outermost loop; places are ordered by dominance (the sections follow each other)."""
    c = cfg(fn)
    loops = c.loops()
    dom = c.dom()
    sy = sym(fn)
    names = set(fl["name"] for a in AIG_ADTS if a in facts.adts for v in facts.adts[a]["variants"] for fl in v["fields"])
    hdr = [bb for bb, t in fn.calls() if norm(util.cname(t)).endswith("write_header")]

    def key(b):
        hs = [h for h, body in loops.items() if b in body]
        if not hs:
            return b
        hs.sort(key=lambda h: len(dom[h]))
        return hs[0]

    occ = []
    for bi, b in enumerate(fn.blocks):
        if b["cleanup"] or bi not in c.reach:
            continue
        if mode == "w" and not (hdr and hdr[0] in dom[bi] and bi != hdr[0]):
            continue
        items = []
        for s in b["stmts"]:
            if s["k"] != "assign":
                continue
            ps = []
            _places(s if mode == "w" else {"lhs": s["lhs"]}, ps)
            items += ps
        t = b["term"]
        if t["k"] == "call":
            cn = norm(util.cname(t))
            if mode == "w":
                ps = []
                _places(t["args"], ps)
                items += ps
            else:
                if cn.rsplit("::", 1)[-1] in ("push", "insert", "extend", "extend_from_slice", "push_str"):
                    e = sy.operand(t["args"][0])
                    for x in subexprs(e):
                        if x[0] == "f" and x[2] in names:
                            occ.append((key(bi), x[2]))
                            break
                ps = []
                _places(t["dest"], ps)
                items += ps
        for p in items:
            for pr in p["p"]:
                if isinstance(pr, dict) and pr.get("of") in AIG_ADTS:
                    occ.append((key(bi), pr["name"]))
                    break
    keys = sorted(set(k for k, _ in occ), key=lambda k: (len(dom[k]), k))
    out = []
    for k in keys:
        for kk, n in occ:
            if kk == k and (not out or out[-1] != n):
                out.append(n)
    return out, bool(hdr)


def _stem(s):
    if s.endswith("_count"):
        s = s[: -len("_count")]
    if s.endswith("ies"):
        return s[:-3] + "y"
    if s.endswith("ches"):
        return s[:-2]
    if s.endswith("s"):
        return s[:-1]
    return s


def run_r11(ctx, rule):
    """What `write_aig` / `write_ordered_aig` emit must be what `Parser::parse` of the same format reads back.  Two
    structural necessary conditions, extracted from both sides: (a) the writer works through the fields of the
    circuit in exactly the order in which the parser fills them (inputs are implied in the ordered form and in the
    binary format); (b) every count in the header the writer builds is taken from the field of the same name."""
    facts = ctx.facts
    n = 0
    for mod in ("ascii", "binary"):
        ps = [f for i, f in facts.fns.items() if norm(i) == "flussab_aiger::%s::Parser::parse" % mod]
        if not ps:
            rule.bad("%s/parse-anchor" % mod, "anchor missing: %s::Parser::parse" % mod, kind="anchor-missing")
            continue
        pseq, _ = section_sequence(facts, ps[0], "p")
        pseq = [x for x in pseq if x not in ("max_var_index", "input_count")]
        for w in ("write_aig", "write_ordered_aig"):
            ws = [f for i, f in facts.fns.items() if norm(i) == "flussab_aiger::%s::Writer::%s" % (mod, w)]
            if not ws:
                continue
            f = ws[0]
            n += 1
            wseq, has_hdr = section_sequence(facts, f, "w")
            if not has_hdr:
                rule.bad("%s::%s/header" % (mod, w), "%s::Writer::%s does not call write_header" % (mod, w), f.loc(), kind="anchor-missing")
                continue
            wseq = ["inputs" if x == "input_count" else x for x in wseq if x != "max_var_index"]
            want = list(pseq)
            if "inputs" not in want and "inputs" in wseq:
                want = ["inputs"] + want
            if "inputs" in want and "inputs" not in wseq:
                want = [x for x in want if x != "inputs"]
            rule.check(wseq == want, "%s::%s/section-order" % (mod, w), "%s::Writer::%s emits the sections in the order %s::Parser::parse fills them (writer: %s; parser: %s)" % (mod, w, mod, " ".join(wseq), " ".join(want)), f.loc())
            # (b) header counts
            sy = sym(f)
            found = False
            for bi, b in enumerate(f.blocks):
                for s in b["stmts"]:
                    if s["k"] == "assign" and s["rv"]["k"] == "agg" and (s["rv"].get("adt") or "").endswith("::Header"):
                        found = True
                        adt = facts.adts.get(s["rv"]["adt"])
                        fields = [fl["name"] for fl in adt["variants"][0]["fields"]] if adt else []
                        for name, o in zip(fields, s["rv"]["ops"]):
                            e = sy.operand(o)
                            src = [x[2] for x in subexprs(e) if x[0] == "f" and not x[2].isdigit()]
                            ok = len(src) == 1 and _stem(src[0]) == _stem(name)
                            rule.check(ok, "%s::%s/header/%s" % (mod, w, name), "%s::Writer::%s: header field %s is taken from the field of the same name (%s)" % (mod, w, name, sy.show(e)[:60]), f.loc(bi))
            if not found:
                rule.bad("%s::%s/header-value" % (mod, w), "no Header value is built in %s::Writer::%s" % (mod, w), f.loc(), kind="anchor-missing")
    if n < 3:
        rule.bad("writers", "only %d whole-file writers found (3 counted)" % n, kind="anchor-missing")

# ---- R5b: only trailing zero counts are left out of the header ---------------------------------------------
BACKWARD = ("split_last", "last", "next_back", "rposition", "rfind", "rev", "rsplit", "pop", "strip_suffix", "trim_end_matches", "rsplitn")
FORWARD = ("next", "split_first", "first", "position", "find", "any", "all", "take_while", "skip_while", "find_map", "map_while", "strip_prefix", "index", "get", "get_unchecked")


def _derivation_calls(fn, e, depth=0, seen=None, stop=()):
    """last path segments of the calls an expression's value is derived from (through named snapshots); what the
    arguments of a call named in `stop` are derived from is not followed"""
    sy = sym(fn)
    seen = seen if seen is not None else set()
    out = set()
    if depth > 8 or not isinstance(e, tuple):
        return out
    if e and e[0] == "call" and norm(e[2]).rsplit("::", 1)[-1] in stop:
        return {norm(e[2]).rsplit("::", 1)[-1]}
    if stop and e and isinstance(e[0], str) and e[0] != "call":
        for x in e[1:]:
            if isinstance(x, tuple):
                out |= _derivation_calls(fn, x, depth + 1, seen, stop)
        if e[0] == "l" and e[1] not in seen:
            seen.add(e[1])
            for d in sy.defs.get(e[1], []):
                if d[0] == "stmt":
                    out |= _derivation_calls(fn, sy.rvalue(d[3]), depth + 1, seen, stop)
                else:
                    t = d[2]
                    nm = norm(util.cname(t)).rsplit("::", 1)[-1]
                    out.add(nm)
                    if nm not in stop:
                        for a in t["args"]:
                            out |= _derivation_calls(fn, sy.operand(a), depth + 1, seen, stop)
        return out
    if stop and e and e[0] == "call":
        out.add(norm(e[2]).rsplit("::", 1)[-1])
        for a in e[3]:
            out |= _derivation_calls(fn, a, depth + 1, seen, stop)
        return out
    for x in subexprs(e):
        if x[0] == "call":
            out.add(norm(x[2]).rsplit("::", 1)[-1])
        if x[0] == "l" and x[1] not in seen:
            seen.add(x[1])
            for d in sy.defs.get(x[1], []):
                if d[0] == "stmt":
                    out |= _derivation_calls(fn, sy.rvalue(d[3]), depth + 1, seen)
                else:
                    t = d[2]
                    out.add(norm(util.cname(t)).rsplit("::", 1)[-1])
                    for a in t["args"]:
                        out |= _derivation_calls(fn, sy.operand(a), depth + 1, seen)
    return out


def _reach_within(c, start, body):
    seen, st = set(), [start]
    while st:
        x = st.pop()
        if x in seen or x not in body:
            continue
        seen.add(x)
        st.extend(c.succ[x])
    return seen


def run_r5b(ctx, rule):
    """The AIGER 1.9 counts behind the first five header fields may be left out only as a *suffix* of zeros: the
    parser fills the fields in order, so a zero count that is followed by a non-zero one must be written.  Decided
    from the direction in which `write_header` examines the fields: a test `field == 0` / `!= 0` may decide where
    the written part ends only in a traversal from the back (split_last, rposition, rev ..); in a traversal from
    the front such a test must not end the loop (and must not be the predicate of position / take_while ..)."""
    facts = ctx.facts
    n = 0
    for mod in ("ascii", "binary"):
        wf = [f for i, f in facts.fns.items() if norm(i) == "flussab_aiger::%s::Writer::write_header" % mod]
        if not wf:
            rule.bad("%s/write_header" % mod, "anchor missing: %s::Writer::write_header" % mod, kind="anchor-missing")
            continue
        wf = wf[0]
        bodies = [(wf, None)]
        for bi, b in enumerate(wf.blocks):
            for st in b["stmts"]:
                if st["k"] == "assign" and st["rv"]["k"] == "agg" and st["rv"].get("closure") in facts.fns:
                    # the combinator the closure is handed to
                    hof = None
                    lhs = st["lhs"]["l"]
                    for bb, t in wf.calls():
                        if any((a.get("mv") or a.get("cp") or {}).get("l") == lhs for a in t["args"]):
                            hof = (norm(util.cname(t)).rsplit("::", 1)[-1], _derivation_calls(wf, sym(wf).operand(t["args"][0])))
                    bodies.append((facts.fns[st["rv"]["closure"]], hof))
        for f, hof in bodies:
            sy = sym(f)
            c = cfg(f)
            loops = c.loops()
            for s_bb in sorted(c.reach):
                if f.term(s_bb)["k"] != "switch":
                    continue
                for tgt, fa in guards.switch_edges(f, s_bb):
                    x = None
                    if fa[0] == "cmp" and fa[1] in ("Eq", "Ne") and ("c", 0) in (fa[2], fa[3]):
                        x = fa[3] if fa[2] == ("c", 0) else fa[2]
                    elif fa[0] in ("eq",) and fa[2] == 0 and fa[1][0] != "discr":
                        x = fa[1]
                    if x is None:
                        continue
                    names = _derivation_calls(f, x)
                    if hof is not None:
                        # inside a predicate closure: the element is the closure's parameter
                        if not mentions(x, lambda y: y[0] == "l" and sy.is_arg(y[1])) and not names:
                            continue
                        direction = "backward" if (hof[0] in BACKWARD or hof[1] & set(BACKWARD)) else "forward" if hof[0] in FORWARD else None
                        where = "predicate of %s" % hof[0]
                        exits = True
                    else:
                        if names & {"len", "count", "trailing_zeros"} and not names & (set(BACKWARD) | set(FORWARD)):
                            continue  # a test of a length, not of a field
                        direction = "backward" if names & set(BACKWARD) else "forward" if names & set(FORWARD) else None
                        inl = [h for h, body in loops.items() if s_bb in body]
                        if not inl:
                            continue
                        h = sorted(inl, key=lambda hh: len(loops[hh]))[0]
                        # does either outcome of the test leave the traversal?
                        exits = any(t2 not in loops[h] or h not in _reach_within(c, t2, loops[h]) for t2 in c.succ[s_bb])
                        where = "loop"
                    if direction is None:
                        continue
                    n += 1
                    key = "%s/write_header/%s-%s" % (mod, where.split()[0], guards.show_fact(f, fa)[:24].replace(" ", ""))
                    if direction == "backward":
                        rule.ok("%s::write_header decides on a zero field in a traversal from the back (%s)" % (mod, where), f.loc(s_bb))
                    elif exits:
                        rule.bad(key + "/front-to-back", "%s::write_header ends the written fields at a zero test made front to back (%s): a zero count followed by a non-zero one would cut the later fields off, and the parser fills them in order" % (mod, where), f.loc(s_bb))
                    else:
                        rule.ok("%s::write_header tests a field for zero front to back without ending the traversal there" % mod, f.loc(s_bb))
    if n == 0:
        rule.bad("write_header/zero-tests", "no zero test of a header field found in the ascii header writer (the omission of trailing zero counts was confirmed by hand)", kind="anchor-missing")

# ---- R12: fields are written in the order in which they are parsed ------------------------------------------
def _field_key(place):
    """(adt, variant, field, element) named by the last field projection of a place (with the element index if an
    array element of that field is meant), or None"""
    pr = place["p"]
    last = None
    for i, x in enumerate(pr):
        if isinstance(x, dict) and "f" in x and x.get("of"):
            vn = None
            if i > 0 and isinstance(pr[i - 1], dict) and "downcast" in pr[i - 1]:
                vn = pr[i - 1].get("vname")
            elem = None
            if i + 1 < len(pr) and isinstance(pr[i + 1], dict) and "cidx" in pr[i + 1]:
                elem = pr[i + 1]["cidx"]
            last = (x["of"], vn, x["name"], elem)
    return last


def _resolve_local_place(fn, l, depth=0):
    """the place a temporary was copied / borrowed from (single definition), following reborrows"""
    if depth > 6:
        return None
    defs = []
    for b in fn.blocks:
        for st in b["stmts"]:
            if st["k"] == "assign" and st["lhs"] == {"l": l, "p": []}:
                defs.append(st["rv"])
    if len(defs) != 1:
        return None
    rv = defs[0]
    p = None
    if rv["k"] == "use":
        p = rv["a"].get("cp") or rv["a"].get("mv")
    elif rv["k"] in ("ref", "rawptr"):
        p = rv["p"]
    if p is None:
        return None
    if _field_key(p) is not None:
        return p
    if p["p"] in ([], ["*"]):
        return _resolve_local_place(fn, p["l"], depth + 1)
    return None


def writer_field_orders(facts, fn):
    """{(adt, variant): [field keys in the order of the calls that emit them]} for one writer function"""
    c = cfg(fn)
    dom = c.dom()
    seq = []
    for bb, t in fn.calls():
        if bb not in c.reach:
            continue
        for a in t["args"]:
            p = a.get("cp") or a.get("mv")
            if p is None:
                continue
            k = _field_key(p)
            if k is None and not p["p"]:
                q = _resolve_local_place(fn, p["l"])
                k = _field_key(q) if q is not None else None
            if k is not None:
                seq.append((len(dom[bb]), bb, k))
    out = {}
    for _, bb, k in sorted(seq):
        lst = out.setdefault((k[0], k[1]), [])
        if (k[2], k[3]) not in lst:
            lst.append((k[2], k[3]))
    return out


def parser_field_orders(facts, fn):
    """{(adt, variant): [field keys in the order of the token calls that produce them]} for one parser function"""
    c = cfg(fn)
    dom = c.dom()
    sy = sym(fn)

    def pos(e):
        ps = set(x[1] for x in subexprs(e) if x[0] == "call" and "::token::" in norm(x[2]))
        if len(ps) != 1:
            return None  # no token behind it, or built from several tokens (`ext_op.unary_op(pad)`): no single place
        return max((len(dom[b]) for b in ps if b in dom), default=None)

    out = {}
    for bi, b in enumerate(fn.blocks):
        if bi not in c.reach:
            continue
        for st in b["stmts"]:
            if st["k"] != "assign" or st["rv"]["k"] != "agg" or not st["rv"].get("adt"):
                continue
            rv = st["rv"]
            adt = facts.adts.get(rv["adt"])
            if adt is None:
                continue
            vname = rv.get("variant") if adt.get("kind") == "enum" else None
            vs = [v for v in adt["variants"] if adt.get("kind") != "enum" or v["name"] == vname]
            if not vs:
                continue
            names = [fl["name"] for fl in vs[0]["fields"]]
            items = []
            for nm, o in zip(names, rv["ops"]):
                e = sy.operand(o)
                if e[0] == "agg" and e[1] == "array":
                    for j, el in enumerate(e[3]):
                        pp = pos(el)
                        if pp is not None:
                            items.append((pp, (nm, j)))
                else:
                    pp = pos(e)
                    if pp is not None:
                        items.append((pp, (nm, None)))
            if len(items) >= 2:
                out.setdefault((rv["adt"], vname), []).append([k for _, k in sorted(items)])
    return out


def run_r12(ctx, rule):
    """A value is written field by field and parsed token by token; the two orders must agree or the value read back
    has its fields exchanged (`next <sort> <state> <value>`, the operands of a binary operator, `slice <u> <l>`).
    Extracted on both sides: the parser builds a struct or variant from the results of token calls -- the order of
    those calls; a writer hands fields of the same struct or variant to emitting calls -- the order of those calls.
    Compared per struct / variant on the fields both sides mention."""
    facts = ctx.facts
    worders = {}
    for f in facts.fns.values():
        if f.crate not in ("flussab_btor2", "flussab_aiger", "flussab_cnf") or f.kind == "Closure":
            continue
        nm = norm(f.id).rsplit("::", 1)[-1]
        if not nm.startswith("write"):
            continue
        for k, v in writer_field_orders(facts, f).items():
            if len(v) >= 2:
                worders.setdefault(k, []).append((f, v))
    n = 0
    for f in sorted(facts.fns.values(), key=lambda x: x.id):
        if f.crate not in ("flussab_btor2", "flussab_aiger", "flussab_cnf"):
            continue
        for k, lists in parser_field_orders(facts, f).items():
            if k not in worders:
                continue
            for plist in lists:
                for wf, wlist in worders[k]:
                    common = [x for x in plist if x in wlist]
                    if len(common) < 2:
                        continue
                    n += 1
                    wcommon = [x for x in wlist if x in common]
                    show = lambda l: " ".join("%s%s" % (a, "" if b is None else "[%d]" % b) for a, b in l)
                    what = "%s%s" % (k[0].rsplit("::", 1)[-1], "::" + k[1] if k[1] else "")
                    rule.check(common == wcommon, "%s/field-order/%s" % (what, short(norm(wf.id))), "%s: parsed as (%s) in %s, written as (%s) in %s" % (what, show(common), short(norm(f.id)), show(wcommon), short(norm(wf.id))), wf.loc())
    if n < 4:
        rule.bad("field-order/sites", "only %d struct / variant orders compared between parsers and writers (at least 4 counted by hand: Assignment, Array, Binary, Ternary)" % n, kind="anchor-missing")
    rule.note("compared", n)

# ---- R13: the binary and-gate deltas form the same chain on both sides -------------------------------------
def run_r13(ctx, rule):
    """binary AIGER and gates: the writer emits `code - in0` and then `in0 - in1` (in0 the larger input), the reader
    takes the first delta from the running code and the second from the first result, and both step the running code
    by 2.  Decided on the expressions: the writer's two deltas are subtractions that chain (the second minuend is the
    first subtrahend, the first minuend is the running code); the reader's two references chain the same way and the
    two results become inputs[0], inputs[1] in that order."""
    facts = ctx.facts
    ws = [g for i, g in facts.fns.items() if norm(i) == "flussab_aiger::binary::Writer::write_and_gate"]
    rs = [g for i, g in facts.fns.items() if norm(i) == "flussab_aiger::binary::ParseAndGates::next_and_gate"]
    if not ws or not rs:
        rule.bad("and-gate/anchors", "anchor missing: binary write_and_gate / next_and_gate", kind="anchor-missing")
        return
    w, r = ws[0], rs[0]

    def expand(sy, e, n=4):
        for _ in range(n):
            if e[0] == "l":
                e2 = sy.origin(e)
                if e2 == e:
                    break
                e = e2
        return e

    def is_sub(e):
        return e[0] in ("bin", "ovf") and e[1].startswith("Sub")

    sw = sym(w)
    cw = cfg(w)
    wcalls = sorted([(len(cw.dom()[bb]), bb, t) for bb, t in w.calls() if norm(util.cname(t)).endswith("write_binary_uint")])
    if len(wcalls) != 2:
        rule.bad("and-gate/writer-deltas", "write_and_gate emits %d varints (2 expected)" % len(wcalls), w.loc(), kind="anchor-missing")
    else:
        d0 = expand(sw, sw.operand(wcalls[0][2]["args"][1]))
        d1 = expand(sw, sw.operand(wcalls[1][2]["args"][1]))
        ok = is_sub(d0) and is_sub(d1)
        chain = ok and strip_bb(expand(sw, d0[3])) == strip_bb(expand(sw, d1[2]))
        from_code = ok and strip_bb(expand(sw, d0[2])) == ("f", ("l", 1), "code")
        rule.check(bool(chain and from_code), "and-gate/writer-chain", "the writer emits code - in0, then in0 - in1 (first %s, second %s)" % (sw.show(d0)[:50], sw.show(d1)[:50]), w.loc(wcalls[0][1]))
    sr = sym(r)
    cr = cfg(r)
    rcalls = sorted([(len(cr.dom()[bb]), bb, t) for bb, t in r.calls() if norm(util.cname(t)).endswith("token::delta_code")])
    if len(rcalls) != 2:
        rule.bad("and-gate/reader-deltas", "next_and_gate reads %d deltas (2 expected)" % len(rcalls), r.loc(), kind="anchor-missing")
        return
    ref0 = expand(sr, sr.operand(rcalls[0][2]["args"][1]))
    ref1 = expand(sr, sr.operand(rcalls[1][2]["args"][1]))
    first_from_code = strip_bb(ref0) in (("f", ("f", ("l", 1), "parser"), "code"), ("f", ("l", 1), "code"))
    second_from_first = mentions(ref1, lambda x: x[0] == "call" and x[1] == rcalls[0][1])
    rule.check(first_from_code and second_from_first, "and-gate/reader-chain", "the reader takes the first delta from the running code and the second from the first input (references %s, %s)" % (sr.show(ref0)[:40], sr.show(ref1)[:60]), r.loc(rcalls[0][1]))
    arr = None
    for b in r.blocks:
        for st in b["stmts"]:
            if st["k"] == "assign" and st["rv"]["k"] == "agg" and st["rv"].get("ak") == "array" and len(st["rv"]["ops"]) == 2:
                arr = sr.rvalue(st["rv"])
    ok_arr = arr is not None and mentions(arr[3][0], lambda x: x[0] == "call" and x[1] == rcalls[0][1]) and not mentions(arr[3][0], lambda x: x[0] == "call" and x[1] == rcalls[1][1]) and mentions(arr[3][1], lambda x: x[0] == "call" and x[1] == rcalls[1][1])
    rule.check(bool(ok_arr), "and-gate/reader-inputs-order", "the first result becomes inputs[0], the second inputs[1]", r.loc())
    # both sides step the running code by 2
    for side, f, sy in (("writer", w, sw), ("reader", r, sr)):
        steps = []
        for ff, bi, si, name in util.field_stores(facts, None) if False else []:
            pass
        for bi, b in enumerate(f.blocks):
            for st in b["stmts"]:
                if st["k"] == "assign" and any(isinstance(x, dict) and x.get("name") == "code" for x in st["lhs"]["p"]):
                    steps.append(sy.rvalue(st["rv"]))
            t = b["term"]
            if t["k"] == "call" and any(isinstance(x, dict) and x.get("name") == "code" for x in t["dest"]["p"]):
                steps.append(("call", bi, util.cname(t), tuple(sy.operand(a) for a in t["args"])))
        ok_step = any(mentions(e, lambda x: x == ("c", 2)) for e in steps)
        rule.check(ok_step, "and-gate/%s-step" % side, "the %s advances the running code by 2 per gate" % side, f.loc())

# ---- R14: BTOR2 placeholders are filled from the buffer that was filled for them ---------------------------------
def run_r14(ctx, rule):
    """The BTOR2 parser builds a line with placeholders (`BinaryConst("")`, `Justice(&[])`, an empty symbol) while the
    text goes into its per-line buffers, and `Line::update_bufs` points the placeholders at the buffers before the
    line is handed out.  Decided: every variant the parser builds with an empty placeholder has a store in
    `update_bufs` on the same variant; each store takes the parameter whose argument at the call site is the buffer the
    parser filled for that kind (constants: const_buf, justice conditions: node_buf, symbol: symbol_buf)."""
    facts = ctx.facts
    ub = [g for i, g in facts.fns.items() if norm(i) == "flussab_btor2::btor2::Line::update_bufs"]
    if not ub:
        rule.bad("update_bufs/anchor", "anchor missing: Line::update_bufs", kind="anchor-missing")
        return
    ub = ub[0]
    # stores through a reference into the line: variant path -> parameter
    def variants_of(place):
        return tuple(x.get("vname") for x in place["p"] if isinstance(x, dict) and "downcast" in x) + tuple(x["name"] for x in place["p"] if isinstance(x, dict) and "f" in x and not x["name"].isdigit())

    def param_of(f, operand, depth=0):
        p = operand.get("cp") or operand.get("mv")
        if p is None or depth > 4:
            return None
        if 1 <= p["l"] <= f.argc:
            return p["l"]
        for b in f.blocks:
            for st in b["stmts"]:
                if st["k"] == "assign" and st["lhs"] == {"l": p["l"], "p": []}:
                    rv = st["rv"]
                    if rv["k"] in ("ref", "rawptr"):
                        return rv["p"]["l"] if 1 <= rv["p"]["l"] <= f.argc else None
                    if rv["k"] == "use":
                        return param_of(f, rv["a"], depth + 1)
        return None

    stores = {}
    for b in ub.blocks:
        for st in b["stmts"]:
            if st["k"] != "assign" or st["lhs"]["p"] != ["*"]:
                continue
            tgt = st["lhs"]["l"]
            par = param_of(ub, st["rv"]["a"]) if st["rv"]["k"] == "use" else None
            # every definition of the reference that is stored through
            for b2 in ub.blocks:
                for s2 in b2["stmts"]:
                    if s2["k"] == "assign" and s2["lhs"] == {"l": tgt, "p": []} and s2["rv"]["k"] in ("ref", "rawptr"):
                        vs = variants_of(s2["rv"]["p"])
                        kind = "justice" if "Justice" in vs else "const:" + [v for v in vs if v in ("Binary", "Hex", "Decimal")][0] if any(v in vs for v in ("Binary", "Hex", "Decimal")) else "symbol" if "Some" in vs or "symbol" in vs else "?"
                        stores[kind] = par
    # the call site: which buffer feeds which parameter
    feeds = {}
    n_calls = 0
    for f, bb, t in util.calls_to(facts, lambda x: x == "flussab_btor2::btor2::Line::update_bufs"):
        n_calls += 1
        sy = sym(f)
        for k, a in enumerate(t["args"]):
            e = sy.operand(a)
            for x in subexprs(e):
                if x[0] == "f" and x[2] in ("const_buf", "symbol_buf", "node_buf"):
                    feeds[k + 1] = x[2]
    if n_calls == 0:
        rule.bad("update_bufs/call", "update_bufs is never called: placeholders would be handed out", kind="anchor-missing")
    # placeholders the parser builds
    wanted = {}
    for f in facts.fns.values():
        if f.crate != "flussab_btor2" or "::parser::" not in norm(f.id):
            continue
        sy = sym(f)
        for bi, b in enumerate(f.blocks):
            for st in b["stmts"]:
                if st["k"] == "assign" and st["rv"]["k"] == "agg" and st["rv"].get("adt"):
                    rv = st["rv"]
                    es = [sy.operand(o) for o in rv["ops"]]
                    empty = any(e == ("cb", b"") or (e[0] in ("promoted", "c?", "cast") and True and rv.get("variant") == "Justice") for e in es)
                    a = rv["adt"].rsplit("::", 1)[-1]
                    if a in ("BinaryConst", "HexConst", "DecimalConst") and any(e == ("cb", b"") for e in es):
                        wanted["const:" + a[: -len("Const")]] = f.loc(bi)
                    if rv.get("variant") == "Justice":
                        wanted["justice"] = f.loc(bi)
    want_buf = {"justice": "node_buf", "symbol": "symbol_buf"}
    for k in sorted(set(wanted) | {"symbol"}):
        par = stores.get(k)
        buf = feeds.get(par)
        need = want_buf.get(k, "const_buf")
        rule.check(par is not None and buf == need, "update_bufs/%s" % k, "the %s placeholder is pointed at %s before the line is handed out (store from parameter %s, fed by %s)" % (k, need, par, buf), wanted.get(k, ub.loc()))
    if len(wanted) < 4:
        rule.bad("placeholders/sites", "only %d kinds of placeholders found in the parser (3 constant kinds and the justice conditions counted)" % len(wanted), kind="anchor-missing")

# ---- R16: two numbers are never written back to back ---------------------------------------------------------
def run_r16(ctx, rule):
    """Text writers emit numbers (`ascii_digits`) and constant byte strings.  If two numbers -- or a number and a
    constant piece that starts with a digit or a minus sign, like the terminating `0` -- can follow each other
    without a separating byte on some path (also around a loop), the text reads back as one longer number.
    Decided by a forward dataflow over each writer function: state = does the text written so far end in a digit."""
    facts = ctx.facts
    n = 0

    def is_text_writer(nid):
        if nid.startswith("flussab_cnf::") and nid.rsplit("::", 1)[-1] in ("write_clause", "write_header"):
            return True
        if nid.startswith("flussab_aiger::ascii::Writer::"):
            return True
        if nid.startswith("flussab_btor2::btor2::") and "write" in nid.rsplit("::", 1)[-1]:
            return True
        return False

    for f in sorted(facts.fns.values(), key=lambda x: x.id):
        nid = norm(f.id)
        if f.kind == "Closure" or f.crate in ("ext", "promoted") or not is_text_writer(nid):
            continue
        sy = sym(f)
        c = cfg(f)
        ev = {}
        for bb, t in f.calls():
            cn = norm(util.cname(t))
            if cn.endswith("write::text::ascii_digits"):
                ev[bb] = ("D",)
            elif cn.endswith("DeferredWriter::write_all_defer_err") and len(t["args"]) > 1:
                e = sy.operand(t["args"][1])
                while e[0] == "cast":
                    e = e[2]
                if e[0] == "cb":
                    if e[1]:
                        ev[bb] = ("S", e[1])
                else:
                    ev[bb] = ("T",)
            elif cn.startswith(("flussab_aiger::", "flussab_btor2::", "flussab_cnf::")) and "write" in cn.rsplit("::", 1)[-1]:
                ev[bb] = ("T",)
        if not any(v[0] == "D" for v in ev.values()):
            continue
        n += 1
        # state at block entry: set of {"digit", "other"}
        inn = {0: {"other"}}
        work = [0]
        bad = None
        while work:
            b = work.pop()
            out = set()
            for st in inn[b]:
                e = ev.get(b)
                if e is None:
                    out.add(st)
                elif e[0] == "D":
                    if st == "digit" and bad is None:
                        bad = (b, "a number is written directly behind a digit")
                    out.add("digit")
                elif e[0] == "S":
                    first, last = e[1][0], e[1][-1]
                    if st == "digit" and (48 <= first <= 57 or first == 45) and bad is None:
                        bad = (b, "the constant %r is written directly behind a number" % e[1])
                    out.add("digit" if 48 <= last <= 57 else "other")
                else:
                    out.add("other")
            for nx in c.succ[b]:
                old = inn.get(nx, set())
                if not out <= old:
                    inn[nx] = old | out
                    work.append(nx)
        rule.check(bad is None, "%s/numbers-separated" % nid, "%s never writes two numbers (or a number and a constant starting with a digit) back to back%s" % (short(nid), "" if bad is None else ": " + bad[1]), f.loc(bad[0]) if bad else f.loc())
    if n < 6:
        rule.bad("text-writers/sites", "only %d text writers that emit numbers found (at least 6 counted)" % n, kind="anchor-missing")

# ---- R17: the header read is the header handed out ---------------------------------------------------------------
def run_r17(ctx, rule):
    """`Parser::header()` hands out what `parse_header` read; `ignore_header` only says that its counts are not
    enforced.  Decided in the three DIMACS `Parser::new`: the value stored into the `header` field is the result of
    `parse_header` (through `?` only -- no filter or other combinator in between), and the store does not depend on
    the configuration."""
    facts = ctx.facts
    n = 0
    for mod in ("cnf", "wcnf", "gcnf"):
        fs = [g for i, g in facts.fns.items() if norm(i) == "flussab_cnf::%s::Parser::new" % mod]
        if not fs:
            rule.bad("%s/new-anchor" % mod, "anchor missing: %s::Parser::new" % mod, kind="anchor-missing")
            continue
        f = fs[0]
        sy = sym(f)
        stores = [(bi, si) for ff, bi, si, name in util.field_stores(facts, "flussab_cnf::%s::Parser" % mod) if ff is f and name == "header" and si is not None]
        stores = [(bi, si) for bi, si in stores if not (f.blocks[bi]["stmts"][si]["rv"]["k"] == "agg" and f.blocks[bi]["stmts"][si]["rv"].get("variant") == "None")]
        if not stores:
            rule.bad("%s/header-store" % mod, "%s::Parser::new never stores the parsed header" % mod, f.loc(), kind="anchor-missing")
            continue
        for bi, si in stores:
            n += 1
            e = sy.rvalue(f.blocks[bi]["stmts"][si]["rv"])
            via = _derivation_calls(f, e, stop=("parse_header",)) - {"branch", "parse_header", "from_residual"}
            cond = [guards.show_fact(f, fa)[:50] for _s, fa in guards.facts_at(f, bi) if mentions(fa, lambda x: isinstance(x, tuple) and x and x[0] == "f" and x[2] == "ignore_header")]
            rule.check(not via and not cond, "%s/header-stored-as-read" % mod, "%s::Parser::new stores the header as parse_header returned it, whatever the configuration%s%s" % (mod, "" if not via else " -- but through %s" % sorted(via), "" if not cond else " -- but only under %s" % cond[0]), f.loc(bi))
    if n < 3:
        rule.bad("header-store/sites", "fewer than 3 header stores found (cnf, wcnf, gcnf counted)", kind="anchor-missing")


def run_r21(ctx, rule):
    """The comment section is framed the same way by both writers and unframed by one parser: `c`, line feed, the text,
    one line feed - the parser cuts exactly one final line feed off.  The writers must emit that frame unconditionally:
    a terminator that is left out when the text already ends in a line feed makes the parser cut a line feed of the
    text itself."""
    facts = ctx.facts
    seqs = {}
    for mod in ("ascii", "binary"):
        ids = [i for i in facts.fns if norm(i) == "flussab_aiger::%s::Writer::write_comment" % mod]
        if not ids:
            rule.bad("%s/write_comment/missing" % mod, "anchor missing: %s::Writer::write_comment" % mod, kind="anchor-missing")
            continue
        f = facts.fns[ids[0]]
        sy = sym(f)
        c = cfg(f)
        paths = [p for p, cut in c.paths(limit=200) if f.term(p[-1])["k"] == "return"]
        forms = set()
        for p in paths:
            seq = []
            for bb in p:
                t = f.term(bb)
                if t["k"] != "call":
                    continue
                cn = norm(util.cname(t))
                if cn.endswith(("write_all_defer_err", "Write::write_all", "Write>::write_all")) and len(t["args"]) > 1:
                    a = sy.operand(t["args"][1])
                    while a[0] == "cast":
                        a = a[2]
                    seq.append(a[1] if a[0] == "cb" else "<text>")
            forms.add(tuple(seq))
        seqs[mod] = forms
        want = (b"c\n", "<text>", b"\n")
        rule.check(forms == {want}, "%s/write_comment/frame" % mod, "%s: the comment is written as `c` LF, the text, LF on every path  [%s]" % (mod, sorted(forms, key=str)[:3]), f.loc())
    if len(seqs) == 2:
        rule.check(seqs["ascii"] == seqs["binary"], "write_comment/siblings", "the ascii and the binary writer frame the comment alike")


def run(ctx):
    r1 = ctx.rule("C03-R1", "BTOR2 keywords: writer and reader tables are the same bijection and cover every variant", floor=130)
    run_r1(ctx, r1)
    r2 = ctx.rule("C03-R2", "BTOR2 constant validators accept exactly the characters the scanners accept; fields not public", floor=6)
    run_r2(ctx, r2)
    r3 = ctx.rule("C03-R3", "AIGER symbol prefixes agree between writer and reader; each index limit is the tested count", floor=28)
    run_r3(ctx, r3)
    r4 = ctx.rule("C03-R4", "binary varint: the reader accepts every length the writer can emit", floor=2)
    run_r4(ctx, r4)
    r4b = ctx.rule("C03-R4b", "binary varint: continuation-bit protocol (writer's last group < 0x80, all bits emitted, same shift and masks as the reader)", floor=5)
    run_r4b(ctx, r4b)
    r17 = ctx.rule("C03-R17", "the DIMACS parsers hand out the header as it was read, whatever the configuration", floor=3)
    run_r17(ctx, r17)
    r16 = ctx.rule("C03-R16", "text writers never emit two numbers (or a number and a constant starting with a digit) back to back", floor=6)
    run_r16(ctx, r16)
    # R15: what a line's placeholders are pointed at is that line's text only if the per-line buffers were emptied for
    # the line: the reset discipline of C10-R1, run here too
    from .c10 import run_r1 as c10_r1
    r15 = ctx.rule("C03-R15", "per-item buffers are cleared before they are filled, so an item carries its own text and conditions only (shared with C10-R1)", floor=9)
    c10_r1(ctx, r15)
    r14 = ctx.rule("C03-R14", "BTOR2 placeholders (constants, justice conditions, symbol) are pointed at the buffer the parser filled for them", floor=5)
    run_r14(ctx, r14)
    r13 = ctx.rule("C03-R13", "binary and gates: writer and reader chain the two deltas the same way and step the running code by 2", floor=5)
    run_r13(ctx, r13)
    # R18: every decimal number a writer emits (itoap: canonical decimal text of any length up to the type's maximum) is
    # passed over in full by the scanners, wherever the token starts its look-ahead (`{group}` starts at offset 1): the
    # fast paths hand over to the byte-wise continuation at the caller's offset + 8, and scanning is +1 per digit (C13-R3/R4)
    from . import c13
    r18 = ctx.rule("C03-R18", "numbers of every length the writers emit are scanned in full at any look-ahead offset: digit class, +1 per digit, fast paths continue at offset + 8 (shared with C13-R3/R4)", floor=60)
    c13.run_r3(ctx, r18)
    c13.run_r4(ctx, r18)
    # R19: what a writer produced is parsed back however it arrives (a pipe delivers it in pieces): no token decides on the
    # raw buffered slice where it has to ask the reader (C01-R1's classification of every buf / buf_len / is_at_end use)
    from .c01 import run_r1 as c01_r1
    r19 = ctx.rule("C03-R19", "the parsers read the writers' output through look-ahead requests, not through whatever happens to be buffered (shared with C01-R1)", floor=25)
    c01_r1(ctx, r19)
    # R20: the DIMACS writers emit clauses without knowing what the reader will be told; the reader may refuse only what a
    # declared count or the literal type itself excludes - limits are installed exactly when the header asks, and the
    # defaults (literal limit = the type's maximum, no clause limit, group limit usize::MAX) accept everything else (C06-R2)
    from .c06 import run_r2 as c06_r2
    r20 = ctx.rule("C03-R20", "DIMACS readers refuse only what a declared count or the literal type excludes: default limits accept everything the writers can emit (shared with C06-R2)", floor=20)
    c06_r2(ctx, r20)
    r21 = ctx.rule("C03-R21", "AIGER comment section: both writers emit `c` LF, the text and one LF unconditionally (the parser cuts exactly one final line feed)", floor=3)
    run_r21(ctx, r21)
    from .c06 import run_r6 as c06_r6
    r13b = ctx.rule("C03-R13b", "the reader accepts every delta the writer can emit: a delta equal to its reference code (the constant 0 as a gate input) is not rejected (shared with C06-R6)", floor=1)
    c06_r6(ctx, r13b, inclusive_only=True)
    r12 = ctx.rule("C03-R12", "fields of a struct or variant are written in the order in which they are parsed", floor=4)
    run_r12(ctx, r12)
    r5b = ctx.rule("C03-R5b", "only trailing zero counts are left out of the AIGER header (zero tests decide from the back)", floor=1)
    run_r5b(ctx, r5b)
    r11 = ctx.rule("C03-R11", "whole-file AIGER writers emit the sections in the order the parsers fill them; header counts come from the fields of the same name", floor=27)
    run_r11(ctx, r11)
    r10 = ctx.rule("C03-R10", "free text is handed out verbatim: identity conversions only, and only the terminator byte is cut off", floor=5)
    run_r10(ctx, r10)
    # what the writers emit reaches the sink complete: the Write impl every formatted number and header goes through
    # neither fails nor writes short (C11-R4, run here too)
    from .c11 import run_r4 as c11_r4
    r9 = ctx.rule("C03-R9", "formatted output is not truncated on the way to the buffer: Write::write / write_all take the whole input and cannot fail (shared with C11-R4)", floor=8)
    c11_r4(ctx, r9)
    r8 = ctx.rule("C03-R8", "sibling agreement: the ascii and the binary whole-file parser have the same section / loop structure", floor=2)
    run_r8(ctx, r8)
    r5 = ctx.rule("C03-R5", "AIGER header: fields parsed in the written order; optional tail agrees (5 required fields)", floor=6)
    run_r5(ctx, r5)
    r6 = ctx.rule("C03-R6", "latch reset forms agree", floor=4)
    run_r6(ctx, r6)
    r7 = ctx.rule("C03-R7", "DIMACS framing words agree", floor=3)
    run_r7(ctx, r7)
    ctx.assume("value-dependent encodings (numerals, delta codes, names, comments) are not decided")
    return "other", "agreement of the writer's and the reader's constant tables, extracted from MIR on every run", {}
