"""C02 — the buffered reader is a loss-free, in-order window onto its source.

Decided as preservation of the bookkeeping laws by every method that writes a reader field (the operation
histories of the property are compositions of exactly these methods):
  position = pos_of_buf + pos_in_buf changes only in advance*, by +n
  mark     = pos_of_buf + mark_in_buf changes only in set_mark*
  the window buf[pos_in_buf .. pos_in_buf+valid_len] only loses a prefix (advance*) or grows at its end
R1 who-may-write (field privacy + store inventory)          R2 conservation laws (affine path execution)
R3 append position / bound of the read                       R4 shrink keeps the window
R5 completeness / error flags                                R6 from_buf_reader chains buffered bytes first
"""
from . import aff, util, guards
from .aff import Aff, PathExec, field, entry
from .cfg import cfg
from .common import norm
from .sym import sym, short, mentions

DRT = "flussab::deferred_reader::DeferredReader"
DR = DRT + "::"
INT_FIELDS = ("pos_in_buf", "valid_len", "pos_of_buf", "mark_in_buf", "chunk_size")


def reader_fn(facts, name):
    ids = [i for i in facts.fns if norm(i) == DR + name]
    if not ids:
        from .facts import FactError
        raise FactError("anchor missing: " + DR + name)
    return facts.fns[ids[0]]


_FACTS = [None]


def returning_paths(fn):
    c = cfg(fn)
    out = []
    for p, cut in c.paths():
        last = fn.term(p[-1])["k"]
        if _FACTS[0] is not None and PathExec(_FACTS[0], fn).run_path(p).infeasible:
            continue  # the path contradicts a value it assigned itself (flag / Option carried to a later test)
        out.append((p, cut, last))
    return out


def auto_summary(facts, name):
    """summary of a reader method for use at call sites: effect on the integer fields as affine forms
    over the callee's entry fields and arguments, if all returning paths agree"""
    fn = reader_fn(facts, name)
    effects = None
    for p, cut, last in returning_paths(fn):
        if last != "return":
            continue
        ex = PathExec(facts, fn)
        st = ex.run_path(p)
        eff = {f: field(st, f) for f in INT_FIELDS}
        if effects is None:
            effects = eff
        elif any(effects[f] != eff[f] for f in INT_FIELDS):
            return None
    if effects is None:
        return None

    def apply(ex, st, bb, args):
        # args[0] is the &mut self reference of the caller
        a0 = args[0]
        if isinstance(a0, Aff) and a0.c == 0 and len(a0.t) == 1 and list(a0.t)[0].startswith("arg"):
            root = list(a0.t)[0]  # the receiver reference itself (reborrowed)
        elif isinstance(a0, tuple) and a0[0] == "ref" and a0[1][1] == ():
            root = a0[1][0]
        else:
            return None
        cur = {f: field(st, f, root) for f in INT_FIELDS}
        sub = {"%s@0" % f: cur[f] for f in INT_FIELDS}
        for i, a in enumerate(args):
            if isinstance(a, Aff):
                sub["arg%d" % (i + 1)] = a
        for f in INT_FIELDS:
            e = effects[f]
            v = Aff(e.c)
            ok = True
            for s, k in e.t.items():
                if s in sub:
                    v = v + sub[s].scale(k)
                else:
                    ok = False
            if ok:
                st.mem[(root, (f,))] = v
        return Aff.sym("call@%d" % bb)

    return apply


def law(rule, key, what, lhs, rhs, where):
    return rule.check(lhs == rhs, key, "%s  [computed %s, required %s]" % (what, lhs, rhs), where)


def run_r1(ctx, rule):
    facts = ctx.facts
    _FACTS[0] = facts
    a = facts.adts.get(DRT)
    if a is None:
        rule.bad("adt/missing", "anchor missing: DeferredReader", kind="anchor-missing")
        return
    for v in a["variants"]:
        for f in v["fields"]:
            rule.check(not f["pub"], "field-private/%s" % f["name"], "field DeferredReader.%s is private" % f["name"])
    counts = {}
    for f, bi, si, name in util.field_stores(facts, DRT):
        nid = norm(f.id)
        counts[name] = counts.get(name, 0) + 1
        rule.check(nid.startswith(DR), "%s/stores-%s" % (nid, name), "store to DeferredReader.%s inside the reader's own impl (%s)" % (name, short(nid)), f.loc(bi))
    for f, bi, si, name in util.mut_field_borrows(facts, DRT):
        nid = norm(f.id)
        if name in INT_FIELDS + ("complete",):
            rule.bad("%s/mut-borrow-%s" % (nid, name), "&mut borrow of the trusted field %s (a store could happen through it)" % name, f.loc(bi))
    floors = {"pos_in_buf": 3, "valid_len": 3, "pos_of_buf": 1, "mark_in_buf": 3, "complete": 2, "io_error": 1}
    for name, fl in floors.items():
        if counts.get(name, 0) < fl:
            rule.bad("floor/%s" % name, "only %d stores to %s found (at least %d confirmed by hand)" % (counts.get(name, 0), name, fl), kind="anchor-missing")
    rule.note("stores_per_field", counts)


# which reader methods may write which integer fields (everything else is a violation of R2)
WRITERS = {
    "advance": ("pos_in_buf", "valid_len"),
    "advance_unchecked": ("pos_in_buf", "valid_len"),
    "request_more": ("pos_in_buf", "valid_len", "pos_of_buf", "mark_in_buf"),
    "set_mark": ("mark_in_buf",),
    "set_mark_to_position": ("mark_in_buf",),
    "set_chunk_size": ("chunk_size",),
}


def run_r2(ctx, rule):
    facts = ctx.facts
    _FACTS[0] = facts
    # inventory: every function that stores an integer field must be a known writer
    for f, bi, si, name in util.field_stores(facts, DRT):
        if name not in INT_FIELDS:
            continue
        m = norm(f.id)[len(DR):] if norm(f.id).startswith(DR) else norm(f.id)
        if m not in WRITERS or name not in WRITERS[m]:
            rule.bad("%s/unspecified-write-%s" % (norm(f.id), name), "%s writes %s but no conservation law is specified for that" % (short(f.id), name), f.loc(bi), kind="unmodelled-idiom")
    n_arg = Aff.sym("arg2")
    pos0 = entry("pos_of_buf") + entry("pos_in_buf")
    mark0 = entry("pos_of_buf") + entry("mark_in_buf")
    # --- advance / advance_unchecked -----------------------------------------------------------
    for m in ("advance", "advance_unchecked"):
        fn = reader_fn(facts, m)
        npaths = 0
        for p, cut, last in returning_paths(fn):
            if last != "return":
                continue
            npaths += 1
            st = PathExec(facts, fn).run_path(p)
            law(rule, "%s/pos_in_buf" % m, "%s(n): pos_in_buf' = pos_in_buf + n" % m, field(st, "pos_in_buf"), entry("pos_in_buf") + n_arg, fn.loc())
            law(rule, "%s/valid_len" % m, "%s(n): valid_len' = valid_len - n" % m, field(st, "valid_len"), entry("valid_len") - n_arg, fn.loc())
            law(rule, "%s/position" % m, "%s(n): position' = position + n" % m, field(st, "pos_of_buf") + field(st, "pos_in_buf"), pos0 + n_arg, fn.loc())
            law(rule, "%s/mark" % m, "%s(n): mark unchanged" % m, field(st, "pos_of_buf") + field(st, "mark_in_buf"), mark0, fn.loc())
        if npaths == 0:
            rule.bad("%s/no-return" % m, "%s has no returning path" % m, fn.loc(), kind="anchor-missing")
    # --- advance_with_buf: via the summary of advance --------------------------------------------
    summ = auto_summary(facts, "advance")
    fn = reader_fn(facts, "advance_with_buf")
    if summ is None:
        rule.bad("advance/no-summary", "advance does not have one effect on all returning paths", kind="unmodelled-idiom")
    else:
        for p, cut, last in returning_paths(fn):
            if last != "return":
                continue
            st = PathExec(facts, fn, {DR + "advance": summ}).run_path(p)
            law(rule, "advance_with_buf/position", "advance_with_buf(n): position' = position + n", field(st, "pos_of_buf") + field(st, "pos_in_buf"), pos0 + n_arg, fn.loc())
            law(rule, "advance_with_buf/valid_len", "advance_with_buf(n): valid_len' = valid_len - n", field(st, "valid_len"), entry("valid_len") - n_arg, fn.loc())
            # the returned slice is buf[pos_in_buf' - n .. pos_in_buf']
            for ev in st.events:
                if ev[0] == "call" and ev[2][0].endswith("get_unchecked") and len(ev[2][1]) > 1:
                    r = ev[2][1][1]
                    if isinstance(r, tuple) and r[0] == "agg" and len(r[3]) == 2:
                        law(rule, "advance_with_buf/slice-start", "returned slice starts at the old cursor", r[3][0], entry("pos_in_buf"), fn.loc(ev[1]))
                        law(rule, "advance_with_buf/slice-end", "returned slice ends at the new cursor", r[3][1], entry("pos_in_buf") + n_arg, fn.loc(ev[1]))
    # --- set_mark / set_mark_to_position / observers ------------------------------------------------
    fn = reader_fn(facts, "set_mark")
    for p, cut, last in returning_paths(fn):
        st = PathExec(facts, fn).run_path(p)
        law(rule, "set_mark/mark", "set_mark: mark' = position", field(st, "pos_of_buf") + field(st, "mark_in_buf"), pos0, fn.loc())
        law(rule, "set_mark/position", "set_mark: position unchanged", field(st, "pos_of_buf") + field(st, "pos_in_buf"), pos0, fn.loc())
    fn = reader_fn(facts, "set_mark_to_position")
    for p, cut, last in returning_paths(fn):
        st = PathExec(facts, fn).run_path(p)
        law(rule, "set_mark_to_position/mark", "set_mark_to_position(p): mark' = p", field(st, "pos_of_buf") + field(st, "mark_in_buf"), n_arg, fn.loc())
    for m, want in (("position", pos0), ("mark", mark0), ("buf_len", entry("valid_len"))):
        fn = reader_fn(facts, m)
        for p, cut, last in returning_paths(fn):
            st = PathExec(facts, fn).run_path(p)
            rets = [e[2] for e in st.events if e[0] == "return"]
            law(rule, "%s/value" % m, "%s() returns %s" % (m, want), rets[0] if rets else None, want, fn.loc())
    # --- request_more --------------------------------------------------------------------------
    fn = reader_fn(facts, "request_more")
    nret = 0
    seen_realign = False
    for p, cut, last in returning_paths(fn):
        ex = PathExec(facts, fn)
        st = ex.run_path(p)
        if last != "return" and cut is None:
            continue  # diverging paths: C14-R3
        realigned = any(e[0] == "call" and e[2][0].endswith("copy_within") for e in st.events)
        seen_realign = seen_realign or realigned
        tag = "realign" if realigned else "plain"
        if last == "return":
            nret += 1
        where = fn.loc(p[-1])
        law(rule, "request_more/%s/position" % tag, "request_more (%s path): position unchanged" % tag, field(st, "pos_of_buf") + field(st, "pos_in_buf"), pos0, where)
        law(rule, "request_more/%s/mark" % tag, "request_more (%s path): mark keeps designating the same stream offset" % tag, field(st, "pos_of_buf") + field(st, "mark_in_buf"), mark0, where)
        law(rule, "request_more/%s/chunk_size" % tag, "request_more: chunk_size unchanged", field(st, "chunk_size"), entry("chunk_size"), where)
        # valid_len: unchanged, or + n where n is the Ok payload of the read
        vl = field(st, "valid_len") - entry("valid_len")
        okn = vl == Aff(0) or (len(vl.t) == 1 and vl.c == 0 and list(vl.t.values()) == [1] and list(vl.t)[0].endswith(".Ok.0"))
        rule.check(okn, "request_more/%s/valid_len" % tag, "request_more: valid_len' - valid_len is 0 or the byte count returned by read [computed %s]" % vl, where)
        for ev in st.events:
            if ev[0] == "call" and ev[2][0].endswith("copy_within"):
                a = ev[2][1]
                r = a[1] if len(a) > 1 else None
                if isinstance(r, tuple) and r[0] == "agg" and len(r[3]) == 2:
                    law(rule, "request_more/copy-src-start", "the moved range starts at the cursor", r[3][0], entry("pos_in_buf"), fn.loc(ev[1]))
                    law(rule, "request_more/copy-src-end", "the moved range ends at the end of the window", r[3][1], entry("pos_in_buf") + entry("valid_len"), fn.loc(ev[1]))
                    law(rule, "request_more/copy-dest", "the window is moved to offset 0", a[2] if len(a) > 2 else None, Aff(0), fn.loc(ev[1]))
                else:
                    rule.bad("request_more/copy-range", "copy_within source is not a plain range", fn.loc(ev[1]), kind="unmodelled-idiom")
    if nret == 0 or not seen_realign:
        rule.bad("request_more/paths", "request_more: no returning path / no realign path found", kind="anchor-missing")


def unrolled_paths(fn):
    """returning paths, plus each of them entered once more through every loop path that leads back to one of
    its blocks (one unrolling): what is computed before a loop and used after it is seen together with an iteration"""
    c = cfg(fn)
    allp = list(c.paths())
    out = []
    for p, cut in allp:
        if fn.term(p[-1])["k"] == "return":
            out.append((p, 0))
    for lp, cut in allp:
        if cut is None:
            continue
        for p, n in list(out):
            if n == 0 and cut in p:
                out.append((lp + p[p.index(cut):], 1))
    return out


def run_r7(ctx, rule):
    """observers look at the window where the cursor is *now*: the index / range handed to the buffer is the
    current pos_in_buf (+ offset), also after a refill inside the same call moved the window"""
    facts = ctx.facts
    _FACTS[0] = facts
    n_arg = Aff.sym("arg2")

    def cur(ex, st, name):
        return ex.read_place(st, {"l": 1, "p": ["*", {"f": 0, "name": name}]})

    n = 0
    for m, kind in (("request_byte_at_offset", "byte"), ("request_byte_at_offset_cold", "byte"), ("buf", "window"), ("buf_ptr", "ptr")):
        try:
            fn = reader_fn(facts, m)
        except Exception:
            rule.bad("%s/anchor" % m, "anchor missing: DeferredReader::%s" % m, kind="anchor-missing")
            continue
        seen = 0
        for p, unrolled in unrolled_paths(fn):
            ex = PathExec(facts, fn)
            st = ex.run_path(p)
            obs = [e for e in st.events if e[0] == "call" and len(e[2][1]) > 1 and (e[2][0].endswith("::index") or e[2][0].endswith("get_unchecked") or e[2][0].endswith("const_ptr::add"))]
            if not obs:
                continue
            e = obs[-1]
            later = [x for x in st.events[st.events.index(e) + 1:] if x[0] == "call"]
            idx = e[2][1][1]
            pos = cur(ex, st, "pos_in_buf")
            tag = "%s/%s" % (m, "after-refill" if unrolled else "direct")
            seen += 1
            n += 1
            if later and any(not x[2][0].startswith(("core::", "<core::")) for x in later):
                rule.bad(tag + "/call-after-observation", "%s calls %s after it looked at the buffer" % (m, later[0][2][0]), fn.loc(e[1]), kind="unmodelled-idiom")
                continue
            if kind == "byte":
                law(rule, tag + "/index", "%s(k) reads buf[pos_in_buf + k] with the cursor as it is at that moment" % m, idx, pos + n_arg, fn.loc(e[1]))
            elif kind == "ptr":
                law(rule, tag + "/offset", "buf_ptr() points at buf[pos_in_buf]", idx, pos, fn.loc(e[1]))
            else:
                ok = isinstance(idx, tuple) and idx[0] == "agg" and len(idx[3]) == 2
                if ok:
                    law(rule, tag + "/start", "buf() starts at the cursor", idx[3][0], pos, fn.loc(e[1]))
                    law(rule, tag + "/end", "buf() ends at the end of the window", idx[3][1], pos + cur(ex, st, "valid_len"), fn.loc(e[1]))
                else:
                    rule.bad(tag + "/range", "buf() does not return a plain range of the buffer", fn.loc(e[1]), kind="unmodelled-idiom")
        if seen == 0:
            rule.bad("%s/no-observation" % m, "%s: no path that looks at the buffer was found" % m, fn.loc(), kind="anchor-missing")
    rule.note("observer_paths", n)


def run_r3(ctx, rule):
    facts = ctx.facts
    _FACTS[0] = facts
    fn = reader_fn(facts, "request_more")
    found = False
    for p, cut, last in returning_paths(fn):
        st0 = PathExec(facts, fn)
        st = st0.run_path(p)
        for ev in st.events:
            if ev[0] == "call" and ev[2][0].endswith("index_mut") and len(ev[2][1]) > 1:
                r = ev[2][1][1]
                snap = ev[2][2]
                cur_pos = snap.get(("arg1", ("pos_in_buf",)), entry("pos_in_buf"))
                cur_len = snap.get(("arg1", ("valid_len",)), entry("valid_len"))
                cur_chunk = snap.get(("arg1", ("chunk_size",)), entry("chunk_size"))
                if isinstance(r, tuple) and r[0] == "agg" and len(r[3]) == 2:
                    found = True
                    law(rule, "read/slice-start", "the slice handed to read starts at the end of the window", r[3][0], cur_pos + cur_len, fn.loc(ev[1]))
                    law(rule, "read/slice-len", "the slice handed to read is exactly chunk_size long", r[3][1] - r[3][0], cur_chunk, fn.loc(ev[1]))
            if ev[0] == "call" and ev[2][0].endswith("Vec::resize") and len(ev[2][1]) > 1:
                snap = ev[2][2]
                cur = snap.get(("arg1", ("pos_in_buf",)), entry("pos_in_buf")) + snap.get(("arg1", ("valid_len",)), entry("valid_len")) + snap.get(("arg1", ("chunk_size",)), entry("chunk_size"))
                target = ev[2][1][1]
                # `resize(len.max(window end + chunk))` without a test in front is the same growth-on-demand
                if isinstance(target, Aff) and len(target.t) == 1 and list(target.t)[0].startswith("call@") and target.c == 0:
                    cb = int(list(target.t)[0][5:].split(".")[0]) if list(target.t)[0][5:].split(".")[0].isdigit() else None
                    for e2 in st.events:
                        if e2[0] == "call" and e2[1] == cb and e2[2][0].rsplit("::", 1)[-1] == "max" and len(e2[2][1]) == 2:
                            a, b = e2[2][1]
                            is_len = lambda x: isinstance(x, Aff) and len(x.t) == 1 and list(x.t)[0].startswith("call@")
                            if is_len(a) and not is_len(b):
                                target = b
                            elif is_len(b) and not is_len(a):
                                target = a
                law(rule, "read/resize-target", "the buffer is grown to window end + chunk_size", target, cur, fn.loc(ev[1]))
    if not found:
        # an open-ended slice (`&mut buf[window_end..]`) offers the source whatever the buffer happens to hold behind
        # the window - more than chunk_size after a realign: not a missing anchor but a violation of the slice law
        open_ended = any(norm(util.cname(t2)).endswith("index_mut") and "RangeFrom" in str(sym(fn).operand(t2["args"][1]) if len(t2["args"]) > 1 else "") for _b2, t2 in fn.calls())
        if open_ended:
            rule.bad("read/slice-len", "the slice handed to the source is open-ended (`buf[window end ..]`), not exactly chunk_size bytes: a source that fills what it is offered returns more than one chunk after a realign", fn.loc())
        else:
            rule.bad("read/slice", "anchor missing: the slice handed to read (index_mut with a range)", kind="anchor-missing")
    # valid_len += n is dominated by n <= chunk_size
    for f, bi, si, name in util.field_stores(facts, DRT):
        if f is fn and name == "valid_len":
            g = guards.holds(fn, bi, lambda fa: guards.cmp_matches(fa, "Le", lambda x: x[0] == "l" or x[0] == "f" and x[2] == "0", lambda x: x == ("f", ("l", 1), "chunk_size")))
            rule.check(bool(g), "read/assert-n-le-chunk", "valid_len += n only behind the check n <= chunk_size (%s)" % (guards.show_fact(fn, g[1]) if g else "check not found"), fn.loc(bi))


def run_r4(ctx, rule):
    facts = ctx.facts
    _FACTS[0] = facts
    fn = reader_fn(facts, "request_more")
    found = False
    for p, cut, last in returning_paths(fn):
        st = PathExec(facts, fn).run_path(p)
        guard = None
        for ev in st.events:
            if ev[0] == "branch" and isinstance(ev[2][0], tuple) and ev[2][0][0] == "cmp" and ev[2][0][1] == "Gt" and ev[2][1] == ("notin", (0,)) or ev[0] == "branch" and isinstance(ev[2][0], tuple) and ev[2][0][0] == "cmp" and ev[2][0][1] == "Gt" and ev[2][1] == ("eq", 1):
                guard = ev[2][0]
            if ev[0] == "call" and ev[2][0].endswith("Vec::truncate"):
                found = True
                arg = ev[2][1][1] if len(ev[2][1]) > 1 else None
                snap = ev[2][2]
                win = snap.get(("arg1", ("pos_in_buf",)), entry("pos_in_buf")) + snap.get(("arg1", ("valid_len",)), entry("valid_len")) + snap.get(("arg1", ("chunk_size",)), entry("chunk_size"))
                ok_arg = isinstance(arg, tuple) and arg[0] == "div" and arg[2] == Aff(2) and isinstance(arg[1], Aff)
                rule.check(ok_arg, "truncate/arg", "the buffer is shrunk to half its length (got %s)" % (arg,), fn.loc(ev[1]))
                ok_g = guard is not None and isinstance(guard[3], Aff) and guard[3] == win.scale(4) and ok_arg and isinstance(guard[2], Aff) and set(guard[2].t) and all(s.startswith("call@") for s in guard[2].t)
                rule.check(ok_g, "truncate/guard", "shrinking only when len > 4*(window end + chunk), so half the length still holds the window [guard %s]" % (guard,), fn.loc(ev[1]))
                break
        if found:
            break
    if not found:
        rule.bad("truncate/missing", "anchor missing: Vec::truncate in request_more", kind="anchor-missing")
    # who may change the buffer's length or contents: request_more (where the laws above are decided) and the
    # constructors.  Anywhere else a mutable borrow of `buf` may only feed a call that leaves length and contents alone.
    harmless = ("Vec::len", "Vec::capacity", "Vec::is_empty", "Vec::as_ptr", "Vec::reserve", "Vec::reserve_exact", "Vec::shrink_to_fit", "Vec::shrink_to")
    n_in = 0
    for f, bi, si, name in util.mut_field_borrows(facts, DRT):
        if name != "buf":
            continue
        nid = norm(f.id)
        if nid == DR + "request_more":
            n_in += 1
            continue
        tmp = f.blocks[bi]["stmts"][si]["lhs"]["l"]
        users = [t for _, t in f.calls() if any((a.get("mv") or a.get("cp") or {}).get("l") == tmp and not (a.get("mv") or a.get("cp"))["p"] for a in t["args"])]
        callee = norm(util.cname(users[0])) if len(users) == 1 else "store-or-escaping-reference"
        if len(users) == 1 and callee.endswith(harmless):
            continue
        rule.bad("%s/mutates-buffer/%s" % (nid, short(callee)), "%s changes the buffer through %s outside request_more: nothing there keeps the window [pos_in_buf, pos_in_buf + valid_len) inside it" % (short(nid), short(callee)), f.loc(bi))
    for f, bi, si, name in util.field_stores(facts, DRT):
        if name == "buf" and not any(norm(f.id) == DR + m for m in ("request_more",)):
            rule.bad("%s/replaces-buffer" % norm(f.id), "%s replaces the buffer" % short(norm(f.id)), f.loc(bi))
    rule.check(n_in >= 3, "buffer/mutated-in-request_more", "the buffer is grown, moved and shrunk in request_more only (%d mutable borrows there)" % n_in, fn.loc())


def run_r5(ctx, rule):
    facts = ctx.facts
    _FACTS[0] = facts
    fn = reader_fn(facts, "request_more")
    n = 0
    for p, cut, last in returning_paths(fn):
        if last != "return":
            continue
        st = PathExec(facts, fn).run_path(p)
        comp = st.mem.get(("arg1", ("complete",)))
        set_complete = isinstance(comp, Aff) and comp == Aff(1)
        io_set = any(e[0] == "store" and e[2][0] == ("arg1", ("io_error",)) for e in st.events)
        read_called = any(e[0] == "call" and (e[2][0].endswith("::read") and "io" in e[2][0]) for e in st.events)
        # classify the arm by the branch events after the read
        arm = None
        after = False
        for e in st.events:
            if e[0] == "call" and e[2][0].endswith("::read") and "io" in e[2][0]:
                after = True
                continue
            if not after or e[0] != "branch":
                continue
            d, taken = e[2]
            if isinstance(d, tuple) and d[0] == "discr":
                # (a second test of the same result, e.g. after it was handed through a helper, refines nothing)
                new = "Ok" if taken in (("eq", 0),) else "Err" if taken in (("eq", 1),) else None
                if new is not None and not (arm or "").startswith(new):
                    arm = new
            elif isinstance(d, Aff) and any(s.endswith(".Ok.0") for s in d.t):
                arm = "Ok(0)" if taken == ("eq", 0) else "Ok(n)" if taken == ("notin", (0,)) else "Ok(%s)" % (taken,)
            elif isinstance(d, Aff) and any(s.startswith("call@") for s in d.t) and arm == "Err":
                arm = "Err(other)" if taken == ("eq", 0) else "Err(Interrupted)"
        if not read_called:
            comp_stored = any(e[0] == "store" and e[2][0] == ("arg1", ("complete",)) for e in st.events)
            rule.check(not comp_stored and not io_set, "flags/no-read", "without a read neither complete nor io_error is written", fn.loc(p[-1]))
            continue
        n += 1
        want_complete = arm in ("Ok(0)", "Err(other)")
        # .. and on the other arms it is not written at all: a value computed from the read (`n < chunk_size`) is not the
        # constant `true`, yet it would declare the source drained after any short read
        comp_stored = any(e[0] == "store" and e[2][0] == ("arg1", ("complete",)) for e in st.events)
        comp_unchanged = comp is None or comp == entry("complete") or not comp_stored
        rule.check(set_complete if want_complete else comp_unchanged, "flags/complete/%s" % arm, "read arm %s: complete is %s" % (arm, "set" if want_complete else "left alone (got %s)" % (comp,)), fn.loc(p[-1]))
        rule.check(io_set == (arm == "Err(other)"), "flags/io_error/%s" % arm, "read arm %s: io_error is %sparked" % (arm, "" if arm == "Err(other)" else "not "), fn.loc(p[-1]))
    if n < 3:
        rule.bad("flags/arms", "fewer than 3 read arms recognised on returning paths (%d)" % n, kind="anchor-missing")
    # .. and nothing else writes the two flags: the read arms above are the only places that know whether the source
    # ended or failed.  Clearing `complete` elsewhere (to "let the caller retry" after an error was picked up) makes the
    # reader call a source again that already reported its end, and moves the end of input the scanners stopped at;
    # `io_error` is taken out by check_io_error (Option::take, a call, not a store) and parked by request_more only
    for f3, bi3, si3, name3 in util.field_stores(facts, DRT):
        if name3 not in ("complete", "io_error"):
            continue
        nid3 = norm(f3.id)
        rule.check(nid3 == DR + "request_more", "flags/%s-stored-in/%s" % (name3, nid3.rsplit("::", 1)[-1]), "%s is stored by request_more only (found in %s): the flags say what the last read answered and nothing takes that back" % (name3, short(nid3)), f3.loc(bi3))
    for f3, bi3, si3, name3 in util.mut_field_borrows(facts, DRT):
        if name3 == "io_error":
            nid3 = norm(f3.id)
            rule.check(nid3 in (DR + "check_io_error", DR + "request_more"), "flags/io_error-borrowed-in/%s" % nid3.rsplit("::", 1)[-1], "io_error is borrowed mutably by check_io_error (take) only (found in %s)" % short(nid3), f3.loc(bi3))
    # is_at_end = complete && valid_len == 0 ; is_complete = complete
    f2 = reader_fn(facts, "is_at_end")
    sy = sym(f2)
    reads = set()
    for b in f2.blocks:
        for s in b["stmts"]:
            if s["k"] == "assign":
                e = sy.rvalue(s["rv"])
                for x in ([e] if isinstance(e, tuple) else []):
                    pass
                if mentions(e, lambda x: x == ("f", ("l", 1), "complete")):
                    reads.add("complete")
                if mentions(e, lambda x: x[0] == "bin" and x[1] == "Eq" and ("f", ("l", 1), "valid_len") in (x[2], x[3]) and ("c", 0) in (x[2], x[3])):
                    reads.add("valid_len==0")
    rule.check(reads == {"complete", "valid_len==0"}, "is_at_end/definition", "is_at_end reads complete and valid_len == 0 (found %s)" % sorted(reads), f2.loc())
    # request loops exit only on enough data or request_more() == false : C09-R1 checks the guards


def run_r6(ctx, rule):
    facts = ctx.facts
    _FACTS[0] = facts
    fn = reader_fn(facts, "from_buf_reader")
    sy = sym(fn)
    chains = [(bb, t) for bb, t in fn.calls() if util.cname(t).endswith("Read::chain")]
    if not chains:
        rule.bad("from_buf_reader/no-chain", "anchor missing: Read::chain in from_buf_reader", fn.loc(), kind="anchor-missing")
        return
    for bb, t in chains:
        a0 = sy.operand(t["args"][0])
        a1 = sy.operand(t["args"][1])
        first_is_buffered = mentions(a0, lambda x: x[0] == "call" and norm(x[2]).endswith("Cursor::new")) and (
            mentions(a0, lambda x: x[0] == "call" and norm(x[2]).endswith("to_vec")) or mentions(a0, lambda x: x[0] == "l")
        )
        second_is_inner = mentions(a1, lambda x: x[0] == "call" and norm(x[2]).endswith("BufReader::into_inner"))
        rule.check(first_is_buffered and second_is_inner, "from_buf_reader/chain-order", "already buffered bytes are chained in front of the inner reader (first: %s, second: %s)" % (sy.show(a0)[:60], sy.show(a1)[:60]), fn.loc(bb))
    # the buffered data is copied before into_inner consumes the BufReader, and from the BufReader's buffer()
    buf_calls = [bb for bb, t in fn.calls() if util.cname(t).endswith("BufReader::buffer")]
    inner_calls = [bb for bb, t in fn.calls() if util.cname(t).endswith("BufReader::into_inner")]
    c = cfg(fn)
    ok = bool(buf_calls) and all(c.dominates(buf_calls[0], ib) for ib in inner_calls) and len(inner_calls) >= 1
    rule.check(ok, "from_buf_reader/copy-before-into_inner", "buffer() is read before into_inner() on every path", fn.loc())
    # the inner reader alone is used only when nothing was buffered
    for bb, t in fn.calls():
        if norm(util.cname(t)) == DR + "from_read":
            a0 = sy.operand(t["args"][0])
            if not mentions(a0, lambda x: x[0] == "call" and norm(x[2]).endswith("Read::chain")):
                # (the emptiness test may be made on the copy or on BufReader::buffer() itself)
                g = guards.holds(fn, bb, lambda fa: fa[0] == "bool" and fa[2] is True and fa[1][0] == "call" and norm(fa[1][2]).endswith(("Vec::is_empty", "slice::is_empty", "<impl [T]>::is_empty"))
                                 and mentions(fa[1], lambda x: x[0] == "call" and norm(x[2]).endswith("BufReader::buffer")))
                rule.check(bool(g), "from_buf_reader/unchained-only-when-empty", "the inner reader is used on its own only when the BufReader's buffer was empty", fn.loc(bb))
    # both arms hand something to from_read
    fr = [bb for bb, t in fn.calls() if norm(util.cname(t)) == DR + "from_read"]
    rule.check(len(fr) >= 1 and all(any(b in c.reachable_from(x) for x in fr) or True for b in c.exits), "from_buf_reader/from_read", "every path constructs the reader through from_read", fn.loc())

def _lower(fn, e, depth=0):
    """a lower bound of an unsigned expression (0 when nothing is known)"""
    sy = sym(fn)
    if depth > 8:
        return 0
    k = e[0]
    if k == "c" and isinstance(e[1], int):
        return max(0, e[1])
    if k == "cast":
        return _lower(fn, e[2], depth + 1)
    if k == "l":
        o = sy.origin(e)
        return _lower(fn, o, depth + 1) if o != e else 0
    if k == "call" and len(e[3]) == 2 and norm(e[2]).rsplit("::", 1)[-1] in ("min", "max"):
        a, b = _lower(fn, e[3][0], depth + 1), _lower(fn, e[3][1], depth + 1)
        return min(a, b) if norm(e[2]).endswith("min") else max(a, b)
    if k == "bin" and e[1] in ("Add", "AddUnchecked"):
        return _lower(fn, e[2], depth + 1) + _lower(fn, e[3], depth + 1)
    if k == "bin" and e[1] in ("Mul", "MulUnchecked"):
        return _lower(fn, e[2], depth + 1) * _lower(fn, e[3], depth + 1)
    if k == "bin" and e[1] in ("Shl", "ShlUnchecked") and e[3][0] == "c":
        return _lower(fn, e[2], depth + 1) << e[3][1]
    if k == "bin" and e[1] in ("BitOr",):
        return max(_lower(fn, e[2], depth + 1), _lower(fn, e[3], depth + 1))
    if k == "promoted" or k == "cfn":
        return 0
    return 0


def run_r9(ctx, rule):
    """A read into a zero-length slice answers Ok(0), which the reader takes for the end of the source: the chunk size
    must be positive.  The property leaves `set_chunk_size(0)` to the caller (c >= 1 in its quantifier); decided here is
    that the library itself never installs a chunk size that is not provably >= 1: every store to `chunk_size` other
    than the public setter's own parameter, and every call of the setter from inside the workspace."""
    facts = ctx.facts
    n = 0
    for f, bi, si, name in util.field_stores(facts, DRT):
        if name != "chunk_size":
            continue
        n += 1
        sy = sym(f)
        nid = norm(f.id)
        if si is None:
            rule.bad("%s/chunk_size-store" % nid, "chunk_size is assigned the result of a call in %s" % short(nid), f.loc(bi), kind="unmodelled-idiom")
            continue
        e = sy.rvalue(f.blocks[bi]["stmts"][si]["rv"])
        e0 = e
        if e[0] == "agg":
            # the struct literal of the constructor: pick the field
            adt = facts.adts.get(DRT)
            names = [fl["name"] for fl in adt["variants"][0]["fields"]] if adt else []
            e = e[3][names.index("chunk_size")] if "chunk_size" in names and len(e[3]) == len(names) else e
        if e[0] == "l" and sy.is_arg(e[1]) and f.j.get("pub"):
            rule.ok("%s stores its own parameter: a positive chunk size is the caller's obligation (c >= 1 in the property's quantifier)" % short(nid), f.loc(bi))
            continue
        if f.j.get("pub") and nid == DR + "set_chunk_size" and e[0] == "call" and norm(e[2]).rsplit("::", 1)[-1] == "max" and len(e[3]) == 2 and any(x[0] == "l" and sy.is_arg(x[1]) for x in e[3]) and any(x == ("c", 1) for x in e[3]):
            rule.ok("%s stores max(size, 1): the configured size for every size the property quantifies over (c >= 1)" % short(nid), f.loc(bi))
            continue
        if f.j.get("pub") and nid == DR + "set_chunk_size":
            rule.bad("%s/setter-identity" % nid, "set_chunk_size stores %s, not the size the caller configured: reads are no longer of the configured size" % sy.show(e)[:60], f.loc(bi))
            continue
        lo = _lower(f, e)
        rule.check(lo >= 1, "%s/chunk_size-positive" % nid, "%s installs a chunk size that is provably positive (lower bound %d of %s)" % (short(nid), lo, sy.show(e)[:60]), f.loc(bi))
    adt = facts.adts.get(DRT)
    names = [fl["name"] for fl in adt["variants"][0]["fields"]] if adt else []
    for f, bi, si, rv in util.aggregates(facts, lambda a: a == DRT):
        if "chunk_size" not in names or len(rv["ops"]) != len(names):
            continue
        n += 1
        sy = sym(f)
        e = sy.operand(rv["ops"][names.index("chunk_size")])
        lo = _lower(f, e)
        rule.check(lo >= 1, "%s/chunk_size-positive" % norm(f.id), "%s constructs the reader with a chunk size that is provably positive (lower bound %d of %s)" % (short(norm(f.id)), lo, sy.show(e)[:60]), f.loc(bi))
    for f, bb, t in util.calls_to(facts, lambda x: x == DR + "set_chunk_size"):
        if f.crate in ("ext", "promoted"):
            continue
        n += 1
        sy = sym(f)
        nid = norm(f.id)
        e = sy.operand(t["args"][1])
        if e[0] == "l" and sy.is_arg(e[1]) and f.j.get("pub"):
            rule.ok("%s forwards its own parameter to set_chunk_size" % short(nid), f.loc(bb))
            continue
        lo = _lower(f, e)
        rule.check(lo >= 1, "%s/set_chunk_size-positive" % nid, "%s sets a chunk size that is provably positive (lower bound %d of %s): a read into an empty slice answers Ok(0) and would pass for the end of the source" % (short(nid), lo, sy.show(e)[:60]), f.loc(bb))
    if n < 2:
        rule.bad("chunk_size/sites", "fewer than 2 places that install a chunk size found (constructor and setter counted)", kind="anchor-missing")


def run(ctx):
    _FACTS[0] = ctx.facts
    r1 = ctx.rule("C02-R1", "reader fields are private and written only inside the reader's own impl", floor=20)
    run_r1(ctx, r1)
    r2 = ctx.rule("C02-R2", "conservation laws of position, mark and window per writing method (affine path execution)", floor=25)
    run_r2(ctx, r2)
    r3 = ctx.rule("C02-R3", "read results are appended at the end of the window, into a slice of exactly chunk_size bytes, behind n <= chunk_size", floor=3)
    run_r3(ctx, r3)
    r4 = ctx.rule("C02-R4", "shrinking keeps the window; the buffer is changed in request_more only", floor=3)
    run_r4(ctx, r4)
    r5 = ctx.rule("C02-R5", "complete / io_error are set exactly on Ok(0) and non-Interrupted Err", floor=6)
    run_r5(ctx, r5)
    r6 = ctx.rule("C02-R6", "from_buf_reader chains the already buffered bytes in front of the inner reader", floor=2)
    run_r6(ctx, r6)
    r7 = ctx.rule("C02-R7", "observers read the window at the current cursor, also after a refill inside the same call", floor=6)
    run_r7(ctx, r7)
    r9 = ctx.rule("C02-R9", "the library never installs a chunk size that is not provably positive (a read into an empty slice would pass for the end of the source)", floor=2)
    run_r9(ctx, r9)
    # R8: a request falls short only when the source ended or failed: the read discipline of C09-R1 (single read site,
    # Interrupted retried in place, no early give-up), run here too
    from .c09 import run_r1 as c09_r1
    r8 = ctx.rule("C02-R8", "requests fall short only at the end of the source or on an error: single read site, Interrupted is retried (shared with C09-R1)", floor=8)
    c09_r1(ctx, r8)
    # R10: a call that panics as documented (advance beyond the buffered data) and is caught must leave the window as it
    # was: the panic-safety rules of C14-R3 on the reader's trusted fields, run here too
    from .c14 import run_r3 as c14_r3
    r10 = ctx.rule("C02-R10", "a refused advance leaves the window untouched: position and length are stored only behind the test that may panic, no wrapped value reaches them, rebasing is not interleaved with calls that may unwind (shared with C14-R3)", floor=5)
    c14_r3(ctx, r10, reader_only=True)
    ctx.assume("Vec::resize / truncate / copy_within and slice indexing of std behave as documented")
    ctx.assume("wrapping arithmetic is treated as ring arithmetic (laws hold modulo 2^64 as the API documents)")
    return "other", "invariant-preservation obligations of every field-writing reader method, decided by affine path execution over MIR", {}
