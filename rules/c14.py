"""C14 — safe calls never expose memory outside the buffered data, even after panics.

R1 unsafe inventory: every operation that needs `unsafe` (call of an unsafe fn, raw pointer dereference) in
   the workspace is classified and must satisfy the guard pattern of its class (dominating comparison,
   invariant window, validated bytes).  An unsafe operation of an unknown class is a violation.
R2 trusted-field confinement: reader/writer fields private, written only in their impls; the two functions
   that skip the checks are `unsafe fn`.
R3 panic safety of trusted fields: a trusted field is never assigned a possibly wrapped value before the
   test that detects the wrap (and may panic); multi-field updates are not interleaved with calls that may
   unwind.
R4 untrusted Read: valid_len += n only behind n <= chunk_size with a slice of exactly chunk_size (C02-R3).
"""
from . import util, guards
from .cfg import cfg
from .common import norm
from .sym import sym, short, mentions
from .c10 import strip_bb
from . import scan, absint as A

DR = "flussab::deferred_reader::DeferredReader::"
DW = "flussab::deferred_writer::DeferredWriter::"
SELF = ("l", 1)


def fld(name):
    return ("f", SELF, name)


def is_call(e, suffix):
    return isinstance(e, tuple) and e[0] == "call" and norm(e[2]).endswith(suffix)


def inventory(facts):
    ops = []
    for f in facts.fns.values():
        if f.crate in ("ext", "promoted"):
            continue
        for bi, b in enumerate(f.blocks):
            if b["cleanup"]:
                continue
            for si, s in enumerate(b["stmts"]):
                if s["k"] != "assign":
                    continue
                rv = s["rv"]
                places = []
                if rv["k"] == "use":
                    p = rv["a"].get("cp") or rv["a"].get("mv")
                    if p:
                        places.append(p)
                elif rv["k"] in ("ref", "rawptr"):
                    places.append(rv["p"])
                places.append(s["lhs"])
                if s.get("exp") and not s.get("unsafe"):
                    continue  # inside a macro expansion with its own unsafe block (format_args!, ...)
                for p in places:
                    if p["p"] and p["p"][0] == "*" and f.locals[p["l"]]["s"].startswith(("*const", "*mut")):
                        ops.append((f, bi, si, "raw-deref", None))
            t = b["term"]
            if t["k"] == "call" and t.get("callee", {}).get("unsafe") and (t.get("unsafe") or not t.get("exp")):
                ops.append((f, bi, None, norm(t["callee"].get("res") or t["callee"]["def"]), t))
    return ops


def check_op(facts, f, bi, si, kind, t):
    """returns (ok, explanation) or None if the class is unknown"""
    nid = norm(f.id)
    sy = sym(f)
    if f.j.get("unsafe_fn"):
        return True, "inside an `unsafe fn`: the obligation is the caller's (callers are checked)"
    # ---- reader ------------------------------------------------------------------------------
    if kind.endswith("slice::get_unchecked") and nid == DR + "request_byte_at_offset":
        idx = sy.operand(t["args"][1])
        ok_idx = idx == ("bin", "Add", fld("pos_in_buf"), ("l", 2))
        g = guards.holds(f, bi, lambda fa: guards.cmp_matches(fa, "Lt", lambda x: x == ("l", 2), lambda x: x == fld("valid_len")))
        return ok_idx and bool(g), "index pos_in_buf + offset behind offset < valid_len (index %s, guard %s)" % (sy.show(idx), guards.show_fact(f, g[1]) if g else "missing")
    if kind.endswith("slice::get_unchecked") and nid == DR + "buf":
        r = sy.operand(t["args"][1])
        ok = r[0] == "agg" and len(r[3]) == 2 and r[3][0] == fld("pos_in_buf") and r[3][1] == ("bin", "Add", fld("pos_in_buf"), fld("valid_len"))
        return ok, "range is exactly the invariant window pos_in_buf .. pos_in_buf + valid_len (got %s)" % sy.show(r)
    if kind.endswith("slice::get_unchecked") and nid == DR + "advance_with_buf":
        r = sy.operand(t["args"][1])
        ok = r[0] == "agg" and len(r[3]) == 2 and r[3][0] == ("bin", "Sub", fld("pos_in_buf"), ("l", 2)) and r[3][1] == fld("pos_in_buf")
        c = cfg(f)
        adv = [bb for bb, t2 in f.calls() if norm(util.cname(t2)) == DR + "advance" and sy.operand(t2["args"][1]) == ("l", 2)]
        dom = bool(adv) and c.dominates(adv[0], bi)
        return ok and dom, "range pos_in_buf - n .. pos_in_buf after advance(n) returned (range %s, advance dominates: %s)" % (sy.show(r), dom)
    if kind.endswith("const_ptr::add") and nid == DR + "buf_ptr":
        a0 = sy.operand(t["args"][0])
        a1 = sy.operand(t["args"][1])
        ok = is_call(a0, "Vec::as_ptr") and a1 == fld("pos_in_buf")
        return ok, "buf.as_ptr().add(pos_in_buf): in range by the window invariant (got %s + %s)" % (sy.show(a0), sy.show(a1))
    # ---- 8 byte loads in the fast/cold selectors ---------------------------------------------------
    if nid in ("flussab::text::ascii_digits_multi", "flussab::text::signed_ascii_digits_multi", "flussab_btor2::token::ascii_lowercase_u64"):
        def guard_ok(fa):
            # NOT (buf_len() < offset + 8)  ==  buf_len() >= offset + 8
            return guards.cmp_matches(fa, "Ge", lambda x: is_call(x, "DeferredReader::buf_len"), lambda x: x == ("bin", "Add", ("l", 2), ("c", 8)))
        g = guards.holds(f, bi, guard_ok)
        if kind.endswith("const_ptr::add"):
            a0 = sy.operand(t["args"][0])
            a1 = sy.operand(t["args"][1])
            ok = is_call(a0, "DeferredReader::buf_ptr") and a1 == ("l", 2)
            return ok and bool(g), "buf_ptr().add(offset) behind buf_len() >= offset + 8 (guard %s)" % (guards.show_fact(f, g[1]) if g else "missing")
        if kind == "raw-deref":
            # the loaded type is [u8; 8]
            s = f.blocks[bi]["stmts"][si]
            p = (s["rv"].get("a", {}).get("cp") or s["rv"].get("a", {}).get("mv") or s["rv"].get("p") or s["lhs"])
            ty = f.locals[p["l"]]["s"]
            ok = ty.replace(" ", "") == "*const[u8;8]"
            return ok and bool(g), "8 byte load through %s behind buf_len() >= offset + 8 (guard %s)" % (ty, guards.show_fact(f, g[1]) if g else "missing")
    # ---- writer --------------------------------------------------------------------------------
    if nid in (DW + "write_all_defer_err", DW + "buf_write_ptr"):
        def cap_guard(fa):
            return guards.cmp_matches(fa, "Le", lambda x: x[0] == "bin" and x[1] == "Add" and is_call(x[2], "Vec::len"), lambda x: is_call(x, "Vec::capacity"))
        g = guards.holds(f, bi, cap_guard)
        new_len = g[1][2] if g and g[1][1] == "Le" else (g[1][3] if g else None)
        if kind.endswith("mut_ptr::add"):
            a0 = sy.operand(t["args"][0])
            a1 = sy.operand(t["args"][1])
            ok = is_call(a0, "Vec::as_mut_ptr") and is_call(a1, "Vec::len")
            return ok and bool(g), "buf.as_mut_ptr().add(buf.len()) behind len + n <= capacity (guard %s)" % (guards.show_fact(f, g[1]) if g else "missing")
        if kind.endswith("copy_from_nonoverlapping"):
            cnt = sy.operand(t["args"][2])
            src = sy.operand(t["args"][1])
            ok = is_call(cnt, "slice::len") and is_call(src, "slice::as_ptr") and g is not None and strip_bb(new_len[3]) == strip_bb(cnt)
            return ok, "copies exactly buf.len() bytes, the amount the capacity test accounted for (count %s)" % sy.show(cnt)
        if kind.endswith("Vec::set_len"):
            a1 = sy.operand(t["args"][1])
            ok = g is not None and strip_bb(a1) == strip_bb(new_len)
            return ok, "set_len(new_len) with the new_len of the capacity test (%s)" % sy.show(a1)
    if nid == "flussab::write::text::ascii_digits":
        g = guards.holds(f, bi, lambda fa: fa[0] == "bool" and fa[2] is False and is_call(fa[1], "is_null") and is_call(fa[1][3][0], "DeferredWriter::buf_write_ptr"))
        if kind.endswith("itoap::write_to_ptr"):
            a0 = sy.operand(t["args"][0])
            ok = is_call(a0, "DeferredWriter::buf_write_ptr")
            # ... and the space reserved is itoap's own bound for the type that is written (any other bound is a claim
            # about itoap's output that nothing here checks: digits *and* the sign)
            reserved = a0[3][1] if ok and len(a0[3]) > 1 else None
            ok_len = reserved is not None and reserved[0] == "c?" and reserved[1].endswith("itoap::Integer>::MAX_LEN") and reserved[1].startswith("<I as")
            return ok and ok_len and bool(g), "write_to_ptr into the pointer reserved by buf_write_ptr(<I as itoap::Integer>::MAX_LEN), on the non-null edge (reserved: %s)" % (sy.show(reserved) if reserved is not None else "?")
        if kind.endswith("DeferredWriter::advance_unchecked"):
            a1 = sy.operand(t["args"][1])
            ok = is_call(a1, "itoap::write_to_ptr")
            return ok and bool(g), "advance_unchecked by the length write_to_ptr returned, on the non-null edge (arg %s)" % sy.show(a1)
    # ---- from_utf8_unchecked ---------------------------------------------------------------------
    if kind.endswith("from_utf8_unchecked"):
        arg = sy.operand(t["args"][0])
        if nid in ("flussab_aiger::token::remaining_line_content", "flussab_aiger::token::remaining_file_content"):
            g = guards.holds(f, bi, lambda fa: fa[0] == "eq" and fa[2] == 0 and fa[1][0] == "discr" and (is_call(fa[1][1], "from_utf8") or fa[1][1][0] == "f" and is_call(fa[1][1][1], "from_utf8") or mentions(fa[1][1], lambda x: is_call(x, "from_utf8"))))
            # the validated bytes and the handed out bytes are the same prefix of the buffer
            same = False
            detail = ""
            if g:
                vcall = [x for x in __import__("rules.sym", fromlist=["subexprs"]).subexprs(g[1][1]) if is_call(x, "from_utf8")][0]
                varg = vcall[3][0]
                if varg[0] == "l" and len(sy.defs.get(varg[1], [])) == 1:
                    # a named snapshot (`let bytes = &buf()[..offset]`): look at its definition
                    d0 = sy.defs[varg[1]][0]
                    if d0[0] == "stmt":
                        varg = sy.rvalue(d0[3])
                    else:
                        t0 = d0[2]
                        varg = ("call", d0[1], t0["callee"].get("res") or t0["callee"].get("def"), tuple(sy.operand(a) for a in t0["args"]))
                if nid.endswith("remaining_line_content"):
                    # from_utf8(buf()[..offset])  vs  advance_with_buf(offset + 1)[..offset]
                    ok_v = is_call(varg, "index") and is_call(varg[3][0], "DeferredReader::buf") and varg[3][1][0] == "agg"
                    ok_u = is_call(arg, "index") and is_call(arg[3][0], "DeferredReader::advance_with_buf") and arg[3][1][0] == "agg"
                    if ok_v and ok_u:
                        end_v = varg[3][1][3]
                        end_u = arg[3][1][3]
                        adv_n = arg[3][0][3][1]
                        same = strip_bb(end_v) == strip_bb(end_u) and len(end_v) == 1 and strip_bb(adv_n) == ("bin", "Add", strip_bb(end_v[0]), ("c", 1))
                    detail = "validated buf()[..%s], handed out advance_with_buf(..)[..%s]" % (sy.show(varg[3][1]) if ok_v else "?", sy.show(arg[3][1]) if ok_u else "?")
                else:
                    # from_utf8(buf())  vs  advance_with_buf(buf_len())[..len-1] (the cut byte is the final LF)
                    ok_v = is_call(varg, "DeferredReader::buf")
                    ok_u = is_call(arg, "index") and is_call(arg[3][0], "DeferredReader::advance_with_buf") and is_call(arg[3][0][3][1], "DeferredReader::buf_len")
                    same = ok_v and ok_u and mentions(arg[3][1], lambda x: is_call(x, "saturating_sub"))
                    detail = "validated the whole buffer, handed out all but the final line feed"
            return bool(g) and same, "bytes validated by from_utf8 on the dominating Ok edge and the same bytes handed out (%s)" % (detail or "no Ok edge of from_utf8 dominates")
        if nid in ("flussab_btor2::token::hex_string", "flussab_btor2::token::decimal_string", "flussab_btor2::token::binary_string"):
            # slice buf()[start..offset] where every byte between was matched against an ASCII-only class
            tr, eng = scan.behaviour(facts, scan.root_key(facts, f.id), (A.TOP, ("i", 0)))
            ascii_only = True
            n_acc = 0
            for s0, gs, d0 in tr:
                if s0.startswith("look@") and d0.startswith("look@"):
                    n_acc += 1
                    # parse mask from the guard string is lossy; recompute from raw transitions
            auto = scan.Behaviour()
            eng2 = A.Engine(facts, auto)
            eng2.summary(scan.root_key(facts, f.id), auto.initial(), (A.TOP, ("i", 0)))
            n_acc = 0
            for s0, g0, d0 in auto.transitions:
                if s0.startswith("look@") and d0.startswith("look@") and g0 is not None:
                    a, b = s0[5:], d0[5:]
                    if a.isdigit() and b.isdigit() and a == b:
                        continue  # the same offset looked at again: not an acceptance
                    n_acc += 1
                    if g0[0] or (g0[1] >> 128):
                        ascii_only = False
            ok_slice = is_call(arg, "index") and mentions(arg, lambda x: is_call(x, "DeferredReader::buf"))
            return ascii_only and n_acc > 0 and ok_slice, "slice of the buffer whose bytes were matched against ASCII-only classes by the scan loop (%d accept edges)" % n_acc
        if nid == "flussab_btor2::token::ascii_lowercase":
            ok_slice = is_call(arg, "index") and mentions(arg, lambda x: is_call(x, "DeferredReader::buf"))
            # the 8-byte kernel's class, lane by lane (C13's lane interpreter): exactly 'a'..='z', in particular ASCII
            from .c13 import kernel_zero_class, LaneCarry, LaneUnsupported
            kf = [g for i, g in facts.fns.items() if norm(i) == "flussab_btor2::token::ascii_lowercase_u64"]
            why = "kernel missing"
            okk = False
            if kf:
                try:
                    cls, _bb = kernel_zero_class(kf[0], lambda x: x[0] == "call" and norm(x[2]).endswith("from_le_bytes"))
                    okk = cls == frozenset(range(97, 123))
                    why = "the 8-byte kernel accepts exactly %d byte values%s" % (len(cls), "" if okk else " (not 'a'..='z')")
                except (LaneCarry, LaneUnsupported) as e:
                    why = "kernel not decided: %s" % e
            return ok_slice and okk, "slice of the buffer matched by ascii_lowercase_u64: %s (lane-wise, no carries between lanes); the byte-wise path's class is checked in C03" % why
        if nid in ("flussab_btor2::token::required_hex_constant", "flussab_btor2::token::required_decimal_constant", "flussab_btor2::token::required_binary_constant"):
            arg = peel_try(f, arg)
            ok = is_call(arg, "DeferredReader::advance_with_buf") and is_call(arg[3][1], "str::len") and mentions(arg[3][1], lambda x: x[0] == "call" and norm(x[2]).endswith(("hex_string", "decimal_string", "binary_string")))
            return ok, "the bytes advanced over are exactly the validated str returned by the scanner (advance_with_buf(str.len()))"
    return None


def peel_try(f, e, depth=0):
    """the success payload behind `?`-plumbing: `let v = helper(..)?` where the (inlined) helper hands out
    `Ok(x)` on exactly one path gives x"""
    sy = sym(f)
    if depth > 6:
        return e
    e0 = sy.origin(e)
    if e0 != e:
        return peel_try(f, e0, depth + 1)
    if e[0] == "f" and e[2] == "0" and e[1][0] == "v" and e[1][2] == "Continue" and e[1][1][0] == "call" and e[1][1][2].endswith(("Try>::branch", "Try::branch")):
        x = e[1][1][3][0]
        seen = 0
        while x[0] == "l" and seen < 6:
            seen += 1
            ds = [d for d in sy.defs.get(x[1], []) if d[0] == "stmt"]
            oks = [d for d in ds if d[3]["k"] == "agg" and d[3].get("variant") == "Ok"]
            moves = [d for d in ds if d[3]["k"] == "use"]
            if len(oks) == 1 and len(ds) - len(oks) == len([d for d in ds if d[3]["k"] == "agg" and d[3].get("variant") == "Err"]):
                return peel_try(f, sy.operand(oks[0][3]["ops"][0]), depth + 1)
            if len(ds) == 1 and moves:
                x = sy.operand(moves[0][3]["a"])
                if x[0] != "l":
                    break
                continue
            break
        if x[0] == "agg" and x[2] == "Ok" and x[3]:
            return peel_try(f, x[3][0], depth + 1)
    return e


def run_r1(ctx, rule):
    facts = ctx.facts
    ops = inventory(facts)
    ordn = {}
    n_fn = set()
    for f, bi, si, kind, t in ops:
        nid = norm(f.id)
        n_fn.add(nid)
        o = ordn.get((nid, kind), 0)
        ordn[(nid, kind)] = o + 1
        key = "%s/%s/#%d" % (nid, short(kind), o)
        if nid.endswith("Writer::new") and nid.startswith("flussab_aiger"):
            rule.note("outside_anchors_" + short(nid), "pointer cast &mut DeferredWriter -> &mut Writer<L> (layout compatibility not decided; not part of the property's anchors)")
            continue
        res = check_op(facts, f, bi, si, kind, t)
        if res is None:
            rule.bad(key, "unsafe operation %s in %s does not belong to any known guarded class" % (short(kind), short(nid)), f.loc(bi), kind="violation")
        else:
            ok, why = res
            rule.check(ok, key, "%s in %s: %s" % (short(kind), short(nid), why), f.loc(bi))
    rule.note("unsafe_operations", len(ops))
    rule.note("functions_with_unsafe_operations", len(n_fn))
    # advance's returning path is behind the no-overflow edge
    f = facts.fns[[i for i in facts.fns if norm(i) == DR + "advance"][0]]
    c = cfg(f)
    okall = True
    for ex in c.exits:
        def no_underflow(fa):
            return no_underflow_fact(fa)

        def _unused(fa):
            sub_of = lambda x, name: is_call(x, name) and x[3] and x[3][0] == fld("valid_len") and x[3][1] == ("l", 2)
            if fa[0] == "bool" and fa[2] is False and mentions(fa[1], lambda x: sub_of(x, "overflowing_sub")):
                return True  # `let (v, overflow) = valid_len.overflowing_sub(n); if overflow { cold }`
            if fa[0] == "eq" and fa[2] == 1 and fa[1][0] == "discr" and mentions(fa[1], lambda x: sub_of(x, "checked_sub")):
                return True  # the Some edge of valid_len.checked_sub(n)
            return guards.cmp_matches(fa, "Le", lambda x: x == ("l", 2), lambda x: x == fld("valid_len"))  # n <= valid_len
        g = guards.holds(f, ex, no_underflow)
        okall = okall and bool(g)
    rule.check(okall, "advance/returns-only-without-overflow", "advance(n) returns only where valid_len - n did not underflow (no-overflow edge of overflowing_sub, Some edge of checked_sub, or behind n <= valid_len)", f.loc())


def run_r2(ctx, rule):
    facts = ctx.facts
    for adt, trusted in (("flussab::deferred_reader::DeferredReader", ("buf", "pos_in_buf", "valid_len")), ("flussab::deferred_writer::DeferredWriter", ("buf",))):
        a = facts.adts.get(adt)
        if a is None:
            rule.bad("%s/missing" % adt, "anchor missing", kind="anchor-missing")
            continue
        for v in a["variants"]:
            for fl in v["fields"]:
                if fl["name"] in trusted:
                    rule.check(not fl["pub"], "%s.%s/private" % (short(adt), fl["name"]), "trusted field %s.%s is private" % (short(adt), fl["name"]))
        for f, bi, si, name in util.field_stores(facts, adt):
            if name in trusted:
                rule.check(norm(f.id).startswith(adt + "::") or norm(f.id).startswith("<" + adt), "%s/stores-%s" % (norm(f.id), name), "store to %s.%s inside its own impl" % (short(adt), name), f.loc(bi))
        for f, bi, si, name in util.mut_field_borrows(facts, adt):
            if name in trusted:
                ok = norm(f.id).startswith(adt + "::") or norm(f.id).startswith("<" + adt)
                rule.check(ok, "%s/borrows-%s" % (norm(f.id), name), "&mut borrow of %s.%s inside its own impl" % (short(adt), name), f.loc(bi))
    for m in (DR + "advance_unchecked", DW + "advance_unchecked"):
        ids = [i for i in facts.fns if norm(i) == m]
        if not ids:
            rule.bad("%s/missing" % m, "anchor missing", kind="anchor-missing")
            continue
        rule.check(bool(facts.fns[ids[0]].j.get("unsafe_fn")), "%s/is-unsafe-fn" % m, "%s is an `unsafe fn` (it skips the bounds check)" % short(m), facts.fns[ids[0]].loc())
    # callers of the unsafe fns
    for f, bb, t in util.calls_to(facts, lambda n: n in (DR + "advance_unchecked", DW + "advance_unchecked")):
        rule.check(bool(t.get("unsafe")), "%s/calls-advance_unchecked" % norm(f.id), "advance_unchecked is called inside an unsafe block (%s)" % short(f.id), f.loc(bb))


def no_underflow_fact(fa):
    """a fact under which valid_len - n did not underflow in advance(n)"""
    sub_of = lambda x, name: is_call(x, name) and x[3] and x[3][0] == fld("valid_len") and x[3][1] == ("l", 2)
    if fa[0] == "bool" and fa[2] is False and mentions(fa[1], lambda x: sub_of(x, "overflowing_sub")):
        return True  # `let (v, overflow) = valid_len.overflowing_sub(n); if overflow { cold }`
    if fa[0] == "eq" and fa[2] == 1 and fa[1][0] == "discr" and mentions(fa[1], lambda x: sub_of(x, "checked_sub")):
        return True  # the Some edge of valid_len.checked_sub(n)
    return guards.cmp_matches(fa, "Le", lambda x: x == ("l", 2), lambda x: x == fld("valid_len"))  # n <= valid_len


def run_r3(ctx, rule, reader_only=False, writer_only=False):
    facts = ctx.facts
    if writer_only:
        return _r3_writer(ctx, rule)
    # advance(n) panics (documented) when n exceeds the buffered length: *no* trusted field may have been written by
    # then -- a caught panic must leave window start and length as they were
    fa_ = facts.fns[[i for i in facts.fns if norm(i) == DR + "advance"][0]]
    nst = 0
    for f2, bi, si, name in util.field_stores(facts, "flussab::deferred_reader::DeferredReader"):
        if f2 is not fa_ or name not in ("pos_in_buf", "valid_len") or si is None:
            continue
        nst += 1
        g = guards.holds(fa_, bi, no_underflow_fact)
        rule.check(bool(g), "advance/store-%s-after-check" % name, "advance(n) writes %s only behind the test that n does not exceed the buffered length (a caught panic leaves the window untouched)" % name, fa_.loc(bi))
    if nst < 2:
        rule.bad("advance/stores", "anchor missing: advance no longer stores pos_in_buf and valid_len itself (%d stores)" % nst, kind="anchor-missing")
    WRAP = ("overflowing_sub", "overflowing_add", "wrapping_sub", "wrapping_add", "wrapping_mul")
    for adt, trusted in (("flussab::deferred_reader::DeferredReader", ("pos_in_buf", "valid_len")),):
        for f, bi, si, name in util.field_stores(facts, adt):
            if name not in trusted or si is None:
                continue
            sy = sym(f)
            s = f.blocks[bi]["stmts"][si]
            e = sy.rvalue(s["rv"])
            wraps = [x for x in __import__("rules.sym", fromlist=["subexprs"]).subexprs(e) if x[0] == "call" and norm(x[2]).split("::")[-1] in WRAP]
            key = "%s/store-%s" % (norm(f.id), name)
            if not wraps:
                rule.ok("%s.%s = %s in %s: no possibly wrapped value" % (short(adt), name, sy.show(e), short(f.id)), f.loc(bi))
                continue
            w = wraps[0]
            if norm(w[2]).split("::")[-1].startswith("overflowing"):
                g = guards.holds(f, bi, lambda fa: fa[0] == "bool" and fa[2] is False and mentions(fa[1], lambda x: x[0] == "call" and x[1] == w[1]))
                rule.check(bool(g), key, "%s stores the result of %s into %s only on the no-overflow edge (a caught panic must not leave a wrapped value behind)" % (short(f.id), short(w[2]), name), f.loc(bi))
            else:
                rule.bad(key, "%s stores a wrapping result into the trusted field %s" % (short(f.id), name), f.loc(bi))
    # multi-field updates are not interleaved with calls that may unwind
    f = facts.fns[[i for i in facts.fns if norm(i) == DR + "request_more"][0]]
    from .aff import PathExec, RING
    from .c02 import returning_paths
    bad = None
    npaths = 0
    for p, cut, last in returning_paths(f):
        st = PathExec(facts, f).run_path(p)
        group = ("pos_of_buf", "pos_in_buf", "mark_in_buf")
        idx = [i for i, e in enumerate(st.events) if e[0] == "store" and e[2][0][0] == "arg1" and e[2][0][1] and e[2][0][1][0] in group]
        if len(idx) >= 2:
            npaths += 1
            for e in st.events[idx[0] : idx[-1]]:
                if e[0] == "call" and e[2][0] not in RING:
                    bad = (e[1], e[2][0])
    # .. and the bytes are moved *before* the bookkeeping says so: a mover that can panic (range checks of copy_within,
    # copy_from_slice, split_at_mut) behind the first rebasing store would, when caught, leave a window that points at
    # bytes which were never moved there
    MOVERS = ("copy_within", "copy_from_slice", "clone_from_slice", "split_at_mut", "split_at_mut_checked", "swap_with_slice", "rotate_left", "rotate_right", "drain", "extend_from_within")
    late = None
    nmove = 0
    for p, cut, last in returning_paths(f):
        st = PathExec(facts, f).run_path(p)
        group = ("pos_of_buf", "pos_in_buf", "mark_in_buf")
        idx = [i for i, e in enumerate(st.events) if e[0] == "store" and e[2][0][0] == "arg1" and e[2][0][1] and e[2][0][1][0] in group]
        if len(idx) < 2:
            continue
        for i, e in enumerate(st.events):
            if e[0] == "call" and e[2][0].rsplit("::", 1)[-1] in MOVERS:
                nmove += 1
                if i > idx[0]:
                    late = (e[1], e[2][0])
    rule.check(late is None and nmove > 0, "request_more/move-before-rebase", "the window's bytes are moved before the first rebasing store (a mover that panics must leave the old, consistent window behind)%s" % (" (%s behind the stores)" % short(late[1]) if late else "" if nmove else " (no move of the bytes found on a realigning path)"), f.loc(late[0]) if late else f.loc())
    rule.check(bad is None and npaths > 0, "request_more/rebase-atomic", "the rebasing stores (pos_of_buf, pos_in_buf, mark_in_buf) are not interleaved with calls that may unwind%s" % (" (call %s in between)" % short(bad[1]) if bad else ""), f.loc(bad[0]) if bad else f.loc())
    if reader_only:
        return
    _r3_writer(ctx, rule)


def _r3_writer(ctx, rule):
    facts = ctx.facts
    # the writer's panicked flag brackets both sink calls
    for m in (DW + "flush_defer_err", DW + "write_all_defer_err_cold"):
        fn = facts.fns[[i for i in facts.fns if norm(i) == m][0]]
        c = cfg(fn)
        sy = sym(fn)
        for bb, t in fn.calls():
            cn = util.cname(t)
            if cn.endswith("::write_all") and "io" in cn:
                # panicked = true stored in the same block before the call (or a dominating block with no call between)
                pre = []
                for pb in c.dom().get(bb, ()):
                    pre += [s for s in fn.blocks[pb]["stmts"] if s["k"] == "assign" and s["lhs"]["p"] and any(isinstance(q, dict) and q.get("name") == "panicked" for q in s["lhs"]["p"]) and sy.rvalue(s["rv"]) == ("c", 1)]
                post_ok = True
                # every normal path from the call reaches a store panicked = false before returning
                seen = set()
                st = [t["target"]]
                while st:
                    x = st.pop()
                    if x in seen:
                        continue
                    seen.add(x)
                    blk = fn.blocks[x]
                    cleared = any(s["k"] == "assign" and s["lhs"]["p"] and any(isinstance(q, dict) and q.get("name") == "panicked" for q in s["lhs"]["p"]) and sy.rvalue(s["rv"]) == ("c", 0) for s in blk["stmts"])
                    if cleared:
                        continue
                    if blk["term"]["k"] == "return":
                        post_ok = False
                    st.extend(c.succ[x])
                rule.check(bool(pre) and post_ok, "%s/panicked-bracket" % short(m), "the sink call in %s is bracketed by panicked = true / false" % short(m), fn.loc(bb))


def run(ctx):
    r1 = ctx.rule("C14-R1", "every unsafe operation is of a known class and dominated by its guard", floor=27)
    run_r1(ctx, r1)
    r2 = ctx.rule("C14-R2", "trusted fields are private and confined to their impls; unchecked advancing is `unsafe fn`", floor=10)
    run_r2(ctx, r2)
    r3 = ctx.rule("C14-R3", "no possibly wrapped value reaches a trusted field before the test that may panic; rebasing is atomic w.r.t. unwinding", floor=6)
    run_r3(ctx, r3)
    from .c02 import run_r3 as c02_r3
    r4 = ctx.rule("C14-R4", "an untrusted Read cannot enlarge the window: slice of exactly chunk_size, valid_len += n only behind n <= chunk_size", floor=3)
    c02_r3(ctx, r4)
    # R5: the unchecked accessors (buf, buf_ptr, advance_with_buf, request_byte_at_offset) index the buffer with
    # pos_in_buf / valid_len: whoever shortens the buffer must keep the window inside it (C02-R4: shrinking is guarded
    # and only request_more changes the buffer)
    from .c02 import run_r4 as c02_r4
    r5 = ctx.rule("C14-R5", "the buffer is shortened only in request_more, behind the guard that keeps the window inside it (shared with C02-R4)", floor=3)
    c02_r4(ctx, r5)
    # R6: the safe observers (request_byte_at_offset and its cold path, buf, buf_ptr) hand out bytes of the backing store:
    # they must index it with the cursor as it is at that moment, also after a refill inside the same call rebased the
    # buffer - a saved cursor exposes zero fill or consumed bytes (or panics with an undocumented index error): C02-R7
    from .c02 import run_r7 as c02_r7
    r6 = ctx.rule("C14-R6", "the safe observers index the buffer with the cursor as it is at that moment, also after a refill inside the same call (shared with C02-R7)", floor=6)
    c02_r7(ctx, r6)
    ctx.assume("absence of UB inside std / itoap and aliasing-model questions of the raw pointer API are not decided")
    ctx.assume("the multiply-and-shift reduction of the digit kernel is value-level (its byte class and lane independence are decided: C13-R5, and for the keyword kernel here)")
    return "other", "unsafe inventory with guard dominance, trusted-field confinement and panic-safety of trusted fields", {}
