"""C16 — text scanning helpers pass over exactly what they document, and no further.

R1 effect confinement (call graph + stores): the helpers reach no reader method except the look-ahead.
R3 behaviour (exact, finite abstract domain): the transition system (look-ahead offset, byte class on
   each edge, returned offset) extracted from the MIR for entry offsets 0 and 1 equals the one generated
   from the documented pattern.  This includes the request discipline: a look-ahead that the specification
   does not contain is a violation (e.g. `fixed` looking past the first mismatch).
R5 supporting byte classes (end-of-word, delimiters in `unexpected`).
"""
from . import absint as A
from .absint import TOP, ALL, mask_of, show_mask
from . import scan, cg, util
from .common import norm
from .sym import short

T = "flussab::text::"
HELPERS = ["tabs_or_spaces", "newline", "next_newline", "fixed"]
LOOKS = (A.DR + "request_byte_at_offset", A.DR + "request_byte")  # the look-ahead primitive (what it does internally -- cold path, refill -- is its own business: C02, C09)
FORBIDDEN = ("advance", "advance_with_buf", "advance_unchecked", "set_mark", "set_mark_to_position", "set_chunk_size", "request", "check_io_error")

LF, CR, SP, TAB = 10, 13, 32, 9


def lbl(k):
    return str(k) if k <= A.CONST_CAP else ">=%d" % min(k, A.GE_CAP)


def g(mask=0, end=False):
    return scan.guard_str((end, mask))


def sat(k):
    return k > A.CONST_CAP


def spec_newline(o):
    return {
        ("entry", "-", "look@" + lbl(o)),
        ("look@" + lbl(o), g(mask_of([LF])), "ret:" + lbl(o + 1)),
        ("look@" + lbl(o), g(mask_of([CR])), "look@" + lbl(o + 1)),
        ("look@" + lbl(o), g(ALL & ~mask_of([LF, CR]), True), "ret:" + lbl(o)),
        ("look@" + lbl(o + 1), g(mask_of([LF])), "ret:" + lbl(o + 2)),
        ("look@" + lbl(o + 1), g(ALL & ~mask_of([LF]), True), "ret:" + lbl(o)),
    }


def spec_tabs(o):
    acc = mask_of([SP, TAB])
    out = {("entry", "-", "look@" + lbl(o))}
    k = o
    while True:
        out.add(("look@" + lbl(k), g(acc), "look@" + lbl(k + 1)))
        out.add(("look@" + lbl(k), g(ALL & ~acc, True), "ret:" + lbl(k)))
        if sat(k):
            break
        k += 1
    return out


def spec_next_newline(o, relook=True):
    """relook: the scanner asks once more for the byte that ended its scan (today's code does; it need not)"""
    out = {("entry", "-", "look@" + lbl(o))}
    k = o
    while not sat(k):
        s = "look@" + lbl(k)
        out.add((s, g(ALL & ~mask_of([LF])), "look@" + lbl(k + 1)))
        if relook:
            out.add((s, g(mask_of([LF]), True), s))  # the re-look at the same offset (same answer)
        out.add((s, g(mask_of([LF])), "ret:" + lbl(k + 1)))
        out.add((s, g(0, True), "ret:" + lbl(k)))
        k += 1
    s = "look@" + lbl(k)
    # beyond the tracked offsets the advance edge and the re-look edge fall on the same node
    out.add((s, g(ALL, True) if relook else g(ALL & ~mask_of([LF])), s))
    out.add((s, g(mask_of([LF]), True), "ret:" + lbl(k)))
    return out


spec_next_newline.alternatives = [lambda o: spec_next_newline(o, False)]


def spec_fixed(o, pat):
    out = set()
    if not pat:
        return {("entry", "-", "ret:" + lbl(o))}
    out.add(("entry", "-", "look@" + lbl(o)))
    for i, b in enumerate(pat):
        s = "look@" + lbl(o + i)
        out.add((s, g(ALL & ~(1 << b), True), "ret:" + lbl(o)))
        if i + 1 < len(pat):
            out.add((s, g(1 << b), "look@" + lbl(o + i + 1)))
        else:
            out.add((s, g(1 << b), "ret:" + lbl(o + len(pat))))
    return out


def _norm_rows(rows):
    """a second look at the *same exact* offset asks for nothing new (the byte is buffered, or the end is known): such
    self-loops are dropped on both sides, so a scanner may or may not re-request the byte that ended its scan"""
    return set(r for r in rows if not (r[0] == r[2] and r[0].startswith("look@") and ">=" not in r[0]))


def compare(rule, name, case, got, want, fn, alternatives=()):
    got, want = _norm_rows(got), _norm_rows(want)
    for alt in alternatives:
        if _norm_rows(alt) == got:
            want = got  # an equally documented way of doing the same (reported against the first form otherwise)
            break
    for row in sorted(want):
        rule.check(
            row in got,
            "%s/%s/missing/%s-%s-%s" % (name, case, row[0], row[1], row[2]),
            "%s (%s): on %s after %s -> %s" % (name, case, row[1], row[0], row[2]),
            fn.loc(),
        )
    for row in sorted(got - want):
        rule.bad(
            "%s/%s/unexpected/%s-%s-%s" % (name, case, row[0], row[1], row[2]),
            "%s (%s) does something the documentation does not say: after %s on %s -> %s" % (name, case, row[0], row[1], row[2]),
            fn.loc(),
        )


def run(ctx):
    facts = ctx.facts
    # ---- R1 --------------------------------------------------------------------------------
    r1 = ctx.rule("C16-R1", "the helpers reach no reader method other than the look-ahead and store nothing through the reader", floor=8)
    for h in HELPERS:
        fid = T + h
        fn = facts.fn(fid)
        key = scan.root_key(facts, fid)
        # the helper's own code and everything it calls, down to (not into) the look-ahead primitive
        reach = cg.reach_above(facts, [key], set(LOOKS))
        bad = []
        looks = 0
        for k in reach:
            if norm(facts.inst[k]["def"]) in LOOKS:
                continue
            for c in facts.inst[k]["calls"]:
                d = norm(c.get("to_def") or c.get("def") or "")
                if d.startswith(A.DR) or d.startswith(A.LR):
                    if d in LOOKS:
                        looks += 1
                    else:
                        bad.append(d)
        r1.check(not bad, "%s/reader-effects" % h, "%s reaches only the look-ahead primitive (%d call edges); forbidden: %s" % (h, looks, sorted(set(bad))), fn.loc())
        if looks == 0:
            r1.bad("%s/no-look" % h, "positive control: %s no longer calls the look-ahead primitive" % h, fn.loc(), kind="anchor-missing")
        # no store through the reader reference (argument 1)
        stores = []
        for bi, b in enumerate(fn.blocks):
            for s in b["stmts"]:
                if s["k"] == "assign" and s["lhs"]["l"] == 1 and s["lhs"]["p"]:
                    stores.append(bi)
        r1.check(not stores, "%s/store-through-reader" % h, "%s performs no store through its reader argument" % h, fn.loc())

    # ---- R3 --------------------------------------------------------------------------------
    r3 = ctx.rule("C16-R3", "look-ahead offsets, byte classes and returned offsets equal the documented pattern (entry offsets 0 and 1; patterns '', 'a', 'ab', 'aa')", floor=90)
    nconf = 0
    for o in (0, 1):
        for h, spec in (("newline", spec_newline), ("tabs_or_spaces", spec_tabs), ("next_newline", spec_next_newline)):
            fid = T + h
            fn = facts.fn(fid)
            got, eng = scan.behaviour(facts, scan.root_key(facts, fid), (TOP, ("i", o)))
            nconf += eng.stats["configs"]
            compare(r3, h, "offset=%d" % o, got, spec(o), fn, [a(o) for a in getattr(spec, "alternatives", [])])
        for pat in (b"", b"a", b"ab", b"aa"):
            fid = T + "fixed"
            fn = facts.fn(fid)
            got, eng = scan.behaviour(facts, scan.root_key(facts, fid), (TOP, ("i", o), ("cell", ("bytes", tuple(pat)))))
            nconf += eng.stats["configs"]
            if eng.stats["unknown_callees"]:
                r3.bad("fixed/unmodelled", "fixed calls functions the analysis has no model for: %s" % sorted(eng.stats["unknown_callees"]), fn.loc(), kind="unmodelled-idiom")
            compare(r3, "fixed", "offset=%d,pattern=%r" % (o, pat), got, spec_fixed(o, pat), fn)
    r3.note("configurations", nconf)

    # ---- R5 supporting classes -----------------------------------------------------------------
    r5 = ctx.rule("C16-R5", "supporting: end-of-word class = blanks + CR + LF + end of input (DIMACS tokens)", floor=2)
    fid = "flussab_cnf::token::is_end_of_word"
    fn = facts.fn(fid)
    got, eng = scan.behaviour(facts, scan.root_key(facts, fid), (TOP, ("i", 0)))
    eow = mask_of([SP, TAB, CR, LF])
    want = {
        ("entry", "-", "look@0"),
        ("look@0", g(eow, True), "ret:true"),
        ("look@0", g(ALL & ~eow), "ret:false"),
    }
    compare(r5, "is_end_of_word", "offset=0", got, want, fn)

    # ---- R6: what the look-ahead primitive answers from ------------------------------------------------
    # the helpers see the input only through request_byte_at_offset(k); that it answers with byte k of the stream
    # also when the window was refilled, moved or shrunk in between is the window law of the reader: C02-R3/R4/R7
    from . import c02
    r6 = ctx.rule("C16-R6", "the look-ahead primitive answers from a faithful window: appended reads, shrinking and the observers keep the window (shared with C02-R2/R3/R4/R5/R6/R7/R9)", floor=10)
    c02.run_r3(ctx, r6)
    c02.run_r4(ctx, r6)
    c02.run_r7(ctx, r6)
    # ... and the window is fed by reads of at most chunk_size bytes from the caller's source itself: a reader built
    # from a BufReader takes over its buffered bytes and reads on from the inner source, not through the BufReader
    # (whose refills are sized by its own capacity): C02-R6
    c02.run_r6(ctx, r6)
    # ... in reads of the size the caller configured (the setter stores its parameter, the library installs nothing else): C02-R9
    c02.run_r9(ctx, r6)
    # ... and a refill (append, realign, shrink) leaves position, mark and the window's bytes where they were: C02-R2
    c02.run_r2(ctx, r6)
    # ... and "the end of input" is the end of the source: complete is set on Ok(0) / a failed read only - a short read
    # is not the end (the helpers would stop in the middle of a run, a CRLF or a pattern that arrives in two pieces): C02-R5
    c02.run_r5(ctx, r6)

    ctx.extra["exhaustive"] = True
    ctx.assume("DeferredReader::request_byte_at_offset returns the byte at that offset or None at the end of the available data (C02)")
    return (
        "proof",
        "complete abstract interpretation of the four helpers over the finite domain (offset label, byte class): every transition of the extracted behaviour equals the documented one and vice versa",
        {
            "trusted_base": [
                "rustc MIR construction and trait resolution",
                "models of slice::iter / enumerate / Iterator::next / slice::len on constant byte strings (rules/scan.py) and of Option/PartialEq (rules/absint.py)",
                "specification generators spec_* in rules/c16.py (written from the doc comments)",
                "offsets above %d are tracked only as '>=%d' (the loop bodies are uniform; the first %d iterations are exact)" % (A.CONST_CAP, A.GE_CAP, A.CONST_CAP + 1),
            ]
        },
    )
