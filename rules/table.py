"""E-TABLE: extraction of constant tables from MIR."""
from .cfg import cfg
from .common import norm
from .sym import sym, short, subexprs
from . import guards, util


def first_assign_to(fn, start, local, limit=6):
    """follow the goto chain from block `start` and return the sym expression of the first assignment to
    `local` (whole local)"""
    sy = sym(fn)
    b = start
    for _ in range(limit):
        blk = fn.blocks[b]
        for s in blk["stmts"]:
            if s["k"] == "assign" and s["lhs"]["l"] == local and not s["lhs"]["p"]:
                return sy.rvalue(s["rv"]), b
        t = blk["term"]
        if t["k"] == "goto":
            b = t["target"]
        elif t["k"] == "call" and t["target"] is not None:
            if t["dest"]["l"] == local and not t["dest"]["p"]:
                c = t.get("callee", {})
                return ("call", b, c.get("res") or c.get("def") or "?", tuple(sy.operand(a) for a in t["args"])), b
            b = t["target"]
        else:
            return None, b
    return None, b


def variant_table(facts, fn, out_local=0):
    """for `match self { V => value }` shaped functions: {variant name: (value expr, block)}"""
    sy = sym(fn)
    res = {}
    for bi, b in enumerate(fn.blocks):
        t = b["term"]
        if t["k"] != "switch":
            continue
        d = sy.operand(t["discr"])
        if d[0] != "discr" or not d[2]:
            continue
        adt = facts.adts.get(d[2])
        if adt is None:
            continue
        by_discr = {v["discr"]: v["name"] for v in adt["variants"]}
        arms = list(t["arms"])
        named = set()
        for val, tgt in arms:
            name = by_discr.get(val)
            if name is None:
                continue
            named.add(name)
            e, bb = first_assign_to(fn, tgt, out_local)
            res[name] = (e, bb)
        rest = [v["name"] for v in adt["variants"] if v["name"] not in named]
        if len(rest) == 1 and fn.blocks[t["otherwise"]]["term"]["k"] != "unreachable":
            e, bb = first_assign_to(fn, t["otherwise"], out_local)
            if e is not None:
                res[rest[0]] = (e, bb)
        if res:
            return res, d[2]
    return res, None


def str_match_table(facts, fn):
    """for `match s { "kw" => value, .. }` on &str: list of (keyword bytes, value expr of the arm, block)"""
    sy = sym(fn)
    out = []
    for bb, t in fn.calls():
        cn = norm(t["callee"].get("res") or t["callee"].get("def") or "")
        if not (cn.startswith("core::str::traits::") and cn.endswith("::eq")):
            continue
        kw = None
        for a in t["args"]:
            e = sy.operand(a)
            if e[0] == "cb":
                kw = e[1]
        if kw is None or t["target"] is None:
            continue
        # the block after the call switches on the result
        nb = t["target"]
        tt = fn.blocks[nb]["term"]
        if tt["k"] != "switch":
            continue
        true_t = None
        for val, tgt in tt["arms"]:
            if val != 0:
                true_t = tgt
        if true_t is None:
            true_t = tt["otherwise"]
        # the arm: last aggregate assignment in the target block chain
        val = None
        b = true_t
        for _ in range(4):
            blk = fn.blocks[b]
            for s in blk["stmts"]:
                if s["k"] == "assign" and not s["lhs"]["p"] and s["rv"]["k"] in ("agg", "use"):
                    e = sy.rvalue(s["rv"])
                    if e[0] == "agg":
                        val = e
            if val is not None or blk["term"]["k"] != "goto":
                break
            b = blk["term"]["target"]
        out.append((kw, val, bb))
    return out


def agg_path(e):
    """[(adt, variant), ...] from the outermost aggregate to the innermost one"""
    out = []
    while isinstance(e, tuple) and e[0] == "agg" and e[1] not in ("tuple", "array"):
        out.append((short_adt(e[1]), e[2]))
        nxt = None
        for o in e[3]:
            if isinstance(o, tuple) and o[0] == "agg" and o[1] not in ("tuple", "array"):
                nxt = o
        e = nxt
    return out


def short_adt(p):
    return p.rsplit("::", 1)[-1]


def const_bytes_calls(fn, callee_suffix):
    """(bb, bytes) for calls to a function (by suffix) whose last argument is a constant byte string"""
    sy = sym(fn)
    out = []
    for bb, t in fn.calls():
        cn = norm(t["callee"].get("res") or t["callee"].get("def") or "")
        if not cn.endswith(callee_suffix):
            continue
        for a in t["args"]:
            e = sy.operand(a)
            if e[0] == "cb":
                out.append((bb, e[1]))
            elif e[0] == "cast" and e[2][0] == "cb":
                out.append((bb, e[2][1]))
    return out


def variant_context(facts, fn, bb):
    """variants known at block bb from dominating discriminant tests: list of (adt short name, variant)"""
    out = []
    for s, fa in guards.facts_at(fn, bb):
        if fa[0] == "eq" and fa[1][0] == "discr" and fa[1][2]:
            adt = facts.adts.get(fa[1][2])
            if adt:
                for v in adt["variants"]:
                    if v["discr"] == fa[2]:
                        out.append((short_adt(fa[1][2]), v["name"]))
        if fa[0] == "notin" and fa[1][0] == "discr" and fa[1][2]:
            adt = facts.adts.get(fa[1][2])
            if adt:
                rest = [v["name"] for v in adt["variants"] if v["discr"] not in fa[2]]
                if len(rest) == 1:
                    out.append((short_adt(fa[1][2]), rest[0]))
    return out
