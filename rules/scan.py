"""Behaviour extraction for scanner functions (E-TABLE on top of the abstract interpreter).

For a function and abstract arguments, computes the set of transitions
    (source, guard, destination)
where sources/destinations are look-ahead sites named by their offset ("look@0", "look@>=4"), "entry"
and "ret:<value>", and the guard is the byte class (and end-of-input possibility) to which the result of
the source look-ahead was narrowed on the way.  Other reader primitives appear as destinations
("adv(..)", "mark", ...) so that "never consumes" style statements are visible too.
"""
from . import absint as A
from .absint import Engine, Auto, TOP, ALL, show_mask, OPTION, enum


def show_int(av):
    if av[0] == "i":
        return str(av[1])
    if av[0] == "ge":
        return ">=%d" % av[1]
    return "?"


def guard_str(g):
    if g is None:
        return "-"
    if g[0] == "keep":
        return g[1]
    may_none, mask = g
    parts = []
    if mask:
        parts.append(show_mask(mask))
    if may_none:
        parts.append("END")
    return "|".join(parts) if parts else "never"


def render_ret(av):
    k = av[0]
    if k in ("i", "ge"):
        return show_int(av)
    if k == "top":
        return "*"
    if k == "b":
        return {None: "bool", True: "true", False: "false"}[av[1]]
    if k == "t":
        return "(" + ",".join(render_ret(a) for a in av[1]) + ")"
    if k == "e":
        vs = []
        for n, p in sorted(av[2], key=lambda x: x[0]):
            vs.append(n if p is None else "%s(%s)" % (n, render_ret(p)))
        return "|".join(vs)
    if k == "cell":
        return "&"
    return k


class Behaviour(Auto):
    name = "behaviour"

    def __init__(self, sym_labels=False, record_prims=("advance", "set_mark", "line_at_offset", "give_up", "give_up_at", "request", "buf", "buf_len", "buf_ptr", "is_at_end", "is_complete", "check_io_error", "io_error", "mark")):
        self.transitions = set()
        self.record_prims = set(record_prims)
        self.sym_labels = sym_labels

    def initial(self):
        return ("entry", None)

    def _lastg(self, src):
        if "|" in src:
            return self._parse_guard(src.rsplit("|", 1)[1]) if False else ("keep", src.rsplit("|", 1)[1])
        return None

    def _symlabel(self, where):
        """'#<fn>:<var>+<d>' when the offset operand is var + const in its function (R3 of C08)"""
        if not self.sym_labels:
            return ""
        from .sym import sym as _sym
        fn, bb = where[1], where[2]
        t = fn.term(bb)
        if len(t.get("args", [])) < 2:
            return "#%s:c+0" % fn.id
        e = _sym(fn).operand(t["args"][1])
        from .c08 import affine1
        a = affine1(e)
        if a is None:
            if e[0] == "call":
                from .common import norm as _norm
                return "#%s:call:%s" % (fn.id, _norm(e[2]))
            return "#%s:?" % fn.id
        return "#%s:%s+%d" % (fn.id, "c" if a[0] is None else a[0], a[1])

    def event(self, state, ev, where):
        src, g = state
        if ev[0] == "prim":
            name = ev[1]
            if name == "look":
                dst = "look@" + show_int(ev[2][1]) + self._symlabel(where)
                self.transitions.add((src, g, dst))
                return (dst, (True, ALL))
            if name in self.record_prims:
                arg = ""
                if name in ("advance", "line_at_offset") and len(ev[2]) > 1:
                    arg = show_int(ev[2][1]) + self._symlabel(where)
                dst = "%s(%s)" % (name, arg)
                if self.sym_labels:
                    # keep paths with differently refined look-ahead results apart
                    lg = g if g is not None else (self._lastg(src))
                    if lg is not None:
                        dst += "|" + guard_str(lg)
                self.transitions.add((src, g, dst))
                return (dst, None)
            return state
        if ev[0] == "narrow" and ev[1] == "look" and g is None and self.sym_labels and src != "entry":
            # a look-ahead result refined after other primitives ran (e.g. `advance(1); if byte == LF`):
            # make the refinement visible as a node of its own
            now = ev[2]
            names = dict(now[2])
            mask = 0
            if "Some" in names and names["Some"] is not None:
                p = names["Some"]
                mask = p[1] if p[0] == "byte" else ALL
            dst = "refined(%s)" % guard_str(("None" in names, mask))
            self.transitions.add((src, None, dst))
            return (dst, None)
        if ev[0] == "narrow" and ev[1] == "look" and g is not None:
            now = ev[2]
            names = dict(now[2])
            may_none = "None" in names
            mask = 0
            if "Some" in names and names["Some"] is not None:
                p = names["Some"]
                mask = p[1] if p[0] == "byte" else ALL
            return (src, (g[0] and may_none, g[1] & mask))
        if ev[0] == "unknown_call":
            return state
        return state


def behaviour(facts, inst_key, args, extra_models=None, sym_labels=False, raw=False):
    """returns (transitions set, engine).  transitions include ('..','..','ret:<v>') rows"""
    auto = Behaviour(sym_labels=sym_labels)
    eng = Engine(facts, auto)
    saved = dict(A.MODELS)
    A.MODELS.update(ITER_MODELS)
    if extra_models:
        A.MODELS.update(extra_models)
    try:
        res = eng.summary(inst_key, auto.initial(), tuple(args))
    finally:
        A.MODELS.clear()
        A.MODELS.update(saved)
    for av, st in res:
        auto.transitions.add((st[0], st[1], "ret:" + render_ret(av)))
    if raw:
        return set((s0, guard_str(g0), d0) for s0, g0, d0 in auto.transitions), eng
    merged = {}
    for src, g, dst in auto.transitions:
        k = (src, dst)
        if g is None:
            merged.setdefault(k, None)
        else:
            o = merged.get(k) or (False, 0)
            merged[k] = (o[0] or g[0], o[1] | g[1])
    return set((k[0], guard_str(g), k[1]) for k, g in merged.items()), eng


# ---- models for iterating a constant byte slice (used for text::fixed) ---------------------------
def _bytes_of(av, eng=None, env=None):
    for _ in range(3):
        if av[0] == "bytes":
            return av[1]
        if av[0] == "cell":
            av = av[1]
        elif av[0] == "ref" and eng is not None:
            av = eng.read(env, av[1], av[2])
        else:
            return None
    return None


def _m_slice_iter(eng, fn, bb, t, env, state, args, where):
    b = _bytes_of(args[0], eng, env) if args else None
    if b is None:
        return [(TOP, env, state)]
    return [(("sliceiter", b, 0, False), env, state)]


def _m_enumerate(eng, fn, bb, t, env, state, args, where):
    a = args[0] if args else TOP
    if a[0] == "sliceiter":
        return [(("sliceiter", a[1], a[2], True), env, state)]
    return [(TOP, env, state)]


def _m_identity(eng, fn, bb, t, env, state, args, where):
    return [(args[0] if args else TOP, env, state)]


def _m_iter_next(eng, fn, bb, t, env, state, args, where):
    a = args[0] if args else TOP
    if a[0] != "ref":
        return [(TOP, eng.havoc(env, args), state)]
    cur = eng.read(env, a[1], a[2])
    if cur[0] != "sliceiter":
        return [(TOP, eng.havoc(env, args), state)]
    _, b, pos, enumd = cur
    if pos >= len(b):
        return [(enum(OPTION, [("None", None)]), env, state)]
    env = eng.write(env, a[1], a[2], ("sliceiter", b, pos + 1, enumd))
    item = ("cell", ("byte", 1 << b[pos]))
    if enumd:
        item = ("t", (("i", pos), item))
    return [(enum(OPTION, [("Some", item)]), env, state)]


def _m_slice_len(eng, fn, bb, t, env, state, args, where):
    b = _bytes_of(args[0], eng, env) if args else None
    if b is None:
        return [(TOP, env, state)]
    return [(("i", len(b)), env, state)]


def _m_all(eng, fn, bb, t, env, state, args, where):
    """Iterator::all over a constant byte slice: the closure is invoked element by element, in order, and the
    iteration stops at the first element for which it answers false"""
    a = args[0] if args else TOP
    f = args[1] if len(args) > 1 else TOP
    if a[0] != "ref":
        return [(TOP, eng.havoc(env, args), state)]
    cur = eng.read(env, a[1], a[2])
    if cur[0] != "sliceiter":
        return [(TOP, eng.havoc(env, args), state)]
    _, b, pos0, enumd = cur
    out = []
    work = [(pos0, env, state)]
    while work:
        pos, e1, s1 = work.pop()
        if pos >= len(b):
            out.append((("b", True, (), ()), eng.write(e1, a[1], a[2], ("sliceiter", b, pos, enumd)), s1))
            continue
        item = ("cell", ("byte", 1 << b[pos]))
        if enumd:
            item = ("t", (("i", pos), item))
        for r, e2, s2 in eng.invoke(f, [item], e1, s1, where):
            outcomes = []
            if r[0] == "b" and r[1] is not None:
                outcomes.append((r[1], e2, s2))
            elif r[0] == "b":
                for truth in (True, False):
                    r2 = eng.apply_refs(e2, s2, r[2] if truth else r[3], where)
                    if r2 is not None:
                        outcomes.append((truth, r2[0], r2[1]))
            else:
                outcomes = [(True, e2, s2), (False, e2, s2)]
            for truth, e3, s3 in outcomes:
                if truth:
                    work.append((pos + 1, e3, s3))
                else:
                    out.append((("b", False, (), ()), eng.write(e3, a[1], a[2], ("sliceiter", b, pos + 1, enumd)), s3))
    return out


ITER_MODELS = {
    "core::iter::traits::iterator::Iterator::all": _m_all,
    "core::slice::iter": _m_slice_iter,
    "core::slice::<impl [T]>::iter": _m_slice_iter,
    "core::iter::traits::iterator::Iterator::enumerate": _m_enumerate,
    "<I as core::iter::traits::collect::IntoIterator>::into_iter": _m_identity,
    "<core::iter::adapters::enumerate::Enumerate<I> as core::iter::traits::iterator::Iterator>::next": _m_iter_next,
    "<core::slice::iter::Iter<'a, T> as core::iter::traits::iterator::Iterator>::next": _m_iter_next,
    "core::slice::len": _m_slice_len,
    "core::slice::<impl [T]>::len": _m_slice_len,
}


def root_key(facts, def_id):
    for r in facts.roots:
        n = facts.inst.get(r)
        if n and n["def"] == def_id:
            return r
    raise A.F.FactError("anchor missing: no instance root for " + def_id)
