"""search helpers over the fact base"""
from .common import norm
from .facts import callee_def, callee_res


def aggregates(facts, pred):
    """(fn, bb, idx, rv) for every Aggregate of an ADT whose path satisfies pred"""
    for f in facts.fns.values():
        for bi, b in enumerate(f.blocks):
            if b["cleanup"]:
                continue
            for si, s in enumerate(b["stmts"]):
                if s["k"] == "assign" and s["rv"]["k"] == "agg" and s["rv"].get("ak") == "adt" and pred(s["rv"]["adt"]):
                    yield f, bi, si, s["rv"]


def calls_to(facts, pred, crates=None):
    """(fn, bb, term) for call sites whose (normalised) static or resolved callee satisfies pred"""
    for f in facts.fns.values():
        if crates and f.crate not in crates:
            continue
        for bb, t in f.calls():
            if pred(norm(callee_def(t))) or pred(norm(callee_res(t))):
                yield f, bb, t


def cname(t):
    return norm(callee_res(t))


def calls_in(fn, pred):
    return [(bb, t) for bb, t in fn.calls() if pred(norm(callee_def(t))) or pred(norm(callee_res(t)))]


def field_stores(facts, adt_path):
    """(fn, bb, idx|None, field name) for every MIR store into a field of the ADT (directly or via deref)"""
    for f in facts.fns.values():
        for bi, b in enumerate(f.blocks):
            if b["cleanup"]:
                continue
            for si, s in enumerate(b["stmts"]):
                if s["k"] != "assign":
                    continue
                for pr in s["lhs"]["p"]:
                    if isinstance(pr, dict) and "f" in pr and pr.get("of") == adt_path:
                        last = [q for q in s["lhs"]["p"] if isinstance(q, dict) and "f" in q][-1]
                        if last is pr:
                            yield f, bi, si, pr["name"]
            t = b["term"]
            if t["k"] == "call":
                for pr in t["dest"]["p"]:
                    if isinstance(pr, dict) and "f" in pr and pr.get("of") == adt_path:
                        last = [q for q in t["dest"]["p"] if isinstance(q, dict) and "f" in q][-1]
                        if last is pr:
                            yield f, bi, None, pr["name"]


def mut_field_borrows(facts, adt_path):
    """(fn, bb, idx, field) for &mut borrows of a field of the ADT (a store may happen through them)"""
    for f in facts.fns.values():
        for bi, b in enumerate(f.blocks):
            if b["cleanup"]:
                continue
            for si, s in enumerate(b["stmts"]):
                if s["k"] == "assign" and s["rv"]["k"] in ("ref", "rawptr") and s["rv"].get("mut"):
                    ps = [q for q in s["rv"]["p"]["p"] if isinstance(q, dict) and "f" in q]
                    if ps and ps[-1].get("of") == adt_path:
                        yield f, bi, si, ps[-1]["name"]
