"""search helpers over the fact base"""
from .common import norm
from .facts import callee_def, callee_res


def aggregates(facts, pred):
    """(fn, bb, idx, rv) for every Aggregate of an ADT whose path satisfies pred"""
    for f in facts.fns.values():
        for bi, b in enumerate(f.blocks):
            if b["cleanup"]:
                continue
            for si, s in enumerate(b["stmts"]):
                if s["k"] == "assign" and s["rv"]["k"] == "agg" and s["rv"].get("ak") == "adt" and pred(s["rv"]["adt"]):
                    yield f, bi, si, s["rv"]


def calls_to(facts, pred, crates=None):
    """(fn, bb, term) for call sites whose (normalised) static or resolved callee satisfies pred"""
    for f in facts.fns.values():
        if crates and f.crate not in crates:
            continue
        for bb, t in f.calls():
            if pred(norm(callee_def(t))) or pred(norm(callee_res(t))):
                yield f, bb, t


def cname(t):
    return norm(callee_res(t))


def calls_in(fn, pred):
    return [(bb, t) for bb, t in fn.calls() if pred(norm(callee_def(t))) or pred(norm(callee_res(t)))]


def field_stores(facts, adt_path):
    """(fn, bb, idx|None, field name) for every MIR store into a field of the ADT (directly or via deref)"""
    for f in facts.fns.values():
        for bi, b in enumerate(f.blocks):
            if b["cleanup"]:
                continue
            for si, s in enumerate(b["stmts"]):
                if s["k"] != "assign":
                    continue
                for pr in s["lhs"]["p"]:
                    if isinstance(pr, dict) and "f" in pr and pr.get("of") == adt_path:
                        last = [q for q in s["lhs"]["p"] if isinstance(q, dict) and "f" in q][-1]
                        if last is pr:
                            yield f, bi, si, pr["name"]
            t = b["term"]
            if t["k"] == "call":
                for pr in t["dest"]["p"]:
                    if isinstance(pr, dict) and "f" in pr and pr.get("of") == adt_path:
                        last = [q for q in t["dest"]["p"] if isinstance(q, dict) and "f" in q][-1]
                        if last is pr:
                            yield f, bi, None, pr["name"]


def mut_field_borrows(facts, adt_path):
    """(fn, bb, idx, field) for &mut borrows of a field of the ADT (a store may happen through them)"""
    for f in facts.fns.values():
        for bi, b in enumerate(f.blocks):
            if b["cleanup"]:
                continue
            for si, s in enumerate(b["stmts"]):
                if s["k"] == "assign" and s["rv"]["k"] in ("ref", "rawptr") and s["rv"].get("mut"):
                    ps = [q for q in s["rv"]["p"]["p"] if isinstance(q, dict) and "f" in q]
                    if ps and ps[-1].get("of") == adt_path:
                        yield f, bi, si, ps[-1]["name"]


def result_propagated(facts, fn, bb):
    """is the Result returned by the call terminating block bb handed on to the caller on its Err side?
    (a) `?` (Try::branch on it), (b) it is the function's own return value, (c) an explicit
    `match r { Err(e) => return Err(e[.into()]), .. }`: the Err payload flows into an Err(..) that is returned"""
    from .sym import sym, mentions
    from .common import norm
    t = fn.term(bb)
    d = t["dest"]
    if d["p"]:
        return False
    dl = d["l"]
    if dl == 0:
        return True
    sy = sym(fn)
    is_r = lambda x: x[0] == "call" and x[1] == bb
    from .cfg import cfg
    c = cfg(fn)
    for b2, t2 in fn.calls():
        if norm(cname(t2)).endswith("Try>::branch") and t2["args"] and mentions(sy.operand(t2["args"][0]), is_r):
            # .. on every way on from the call: a `match` that lets one error kind pass and hands only the rest to `?`
            # drops an error (the `?` is then reached on some paths only)
            if b2 in c.pdom().get(bb, set()) or b2 == bb:
                return True
            return False
    for b2, t2 in fn.calls():
        if t2["dest"] == {"l": 0, "p": []} and norm(cname(t2)).rsplit("::", 1)[-1] in ("map", "map_err", "and_then") and "result::Result" in norm(cname(t2)) and t2["args"]:
            if is_r(sy.operand(t2["args"][0])):
                return True  # an Err stays an Err through these combinators and is what the function returns
    for bi, b in enumerate(fn.blocks):
        if b["cleanup"]:
            continue
        for s_ in b["stmts"]:
            if s_["k"] != "assign":
                continue
            rv = s_["rv"]
            if s_["lhs"]["l"] == 0 and not s_["lhs"]["p"] and rv["k"] == "use":
                if is_r(sy.operand(rv["a"])):
                    return True
            if rv["k"] == "agg" and rv.get("adt") == "core::result::Result" and rv.get("variant") == "Err":
                e = sy.operand(rv["ops"][0])
                for _ in range(3):
                    if e[0] != "l":
                        break
                    e2 = sy.origin(e)  # a named snapshot (`Err(err) => ..`) of the payload
                    if e2 == e:
                        break
                    e = e2
                if mentions(e, lambda x: x[0] == "v" and x[2] == "Err" and is_r(x[1])):
                    return True
    return False
