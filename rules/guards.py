"""Guard extraction: which branch conditions are known to hold at a block (edge dominance)."""
from .cfg import cfg
from .sym import sym

NEG = {"Eq": "Ne", "Ne": "Eq", "Lt": "Ge", "Ge": "Lt", "Gt": "Le", "Le": "Gt"}
FLIP = {"Lt": "Gt", "Gt": "Lt", "Le": "Ge", "Ge": "Le", "Eq": "Eq", "Ne": "Ne"}


def switch_edges(fn, bb):
    """for a switch block: list of (target, fact) where fact describes what holds on that edge:
       ("cmp", op, a, b)           comparison of two sym expressions holds
       ("bool", expr, truth)       boolean expression has that truth value
       ("discr", expr, variant_discr_values|None, neg_values)  discriminant/int switch
    """
    t = fn.term(bb)
    if t["k"] != "switch":
        return []
    sy = sym(fn)
    d = sy.operand(t["discr"])
    out = []
    is_bool = t["ty"] == "bool"
    arms = t["arms"]
    other = t["otherwise"]
    if is_bool:
        vals = {tgt: bool(v) for v, tgt in arms}
        edges = [(tgt, truth) for tgt, truth in vals.items()]
        armt = set(bool(v) for v, _ in arms)
        for truth in (True, False):
            if truth not in armt:
                edges.append((other, truth))
        for tgt, truth in edges:
            out.append((tgt, bool_fact(d, truth)))
        return out
    vals = [v for v, _ in arms]
    for v, tgt in arms:
        out.append((tgt, ("eq", d, v)))
    out.append((other, ("notin", d, tuple(vals))))
    return out


def bool_fact(e, truth):
    """normalise `e is truth` into a comparison fact when e is a comparison / negation"""
    if e[0] == "un" and e[1] == "Not":
        return bool_fact(e[2], not truth)
    if e[0] == "bin" and e[1] in NEG:
        op = e[1] if truth else NEG[e[1]]
        return ("cmp", op, e[2], e[3])
    return ("bool", e, truth)


def facts_at(fn, bb):
    """all edge facts that dominate block bb (every path from entry to bb takes that edge)"""
    c = cfg(fn)
    out = []
    doms = c.dom().get(bb, set())
    for s in sorted(doms):
        if fn.term(s)["k"] != "switch":
            continue
        es = switch_edges(fn, s)
        # group by target: an edge dominates bb if removing all *other* edges' is irrelevant; use edge_dominates
        targets = {}
        for tgt, fact in es:
            targets.setdefault(tgt, []).append(fact)
        for tgt, facts in targets.items():
            if len(facts) != 1:
                continue  # two different conditions lead to the same block: nothing known
            if c.edge_dominates(s, tgt, bb):
                out.append((s, facts[0]))
    return out


def holds(fn, bb, pred):
    """is there a dominating edge fact satisfying pred(fact)?"""
    for s, f in facts_at(fn, bb):
        if pred(f):
            return (s, f)
    return None


def cmp_matches(fact, op, a_pred, b_pred):
    """does the comparison fact equal (a op b) up to flipping sides?"""
    if fact[0] != "cmp":
        return False
    _, fop, fa, fb = fact
    if fop == op and a_pred(fa) and b_pred(fb):
        return True
    if FLIP[fop] == op and a_pred(fb) and b_pred(fa):
        return True
    return False


def show_fact(fn, fact):
    sy = sym(fn)
    if fact[0] == "cmp":
        return "%s %s %s" % (sy.show(fact[2]), fact[1], sy.show(fact[3]))
    if fact[0] == "bool":
        return "%s is %s" % (sy.show(fact[1]), fact[2])
    if fact[0] == "eq":
        return "%s == %s" % (sy.show(fact[1]), fact[2])
    if fact[0] == "notin":
        return "%s not in %s" % (sy.show(fact[1]), list(fact[2]))
    return str(fact)
