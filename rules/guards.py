"""Guard extraction: which branch conditions are known to hold at a block (edge dominance)."""
from .cfg import cfg
from .sym import sym

NEG = {"Eq": "Ne", "Ne": "Eq", "Lt": "Ge", "Ge": "Lt", "Gt": "Le", "Le": "Gt"}
FLIP = {"Lt": "Gt", "Gt": "Lt", "Le": "Ge", "Ge": "Le", "Eq": "Eq", "Ne": "Ne"}


def switch_edges(fn, bb):
    """for a switch block: list of (target, fact) where fact describes what holds on that edge:
       ("cmp", op, a, b)           comparison of two sym expressions holds
       ("bool", expr, truth)       boolean expression has that truth value
       ("discr", expr, variant_discr_values|None, neg_values)  discriminant/int switch
    """
    t = fn.term(bb)
    if t["k"] != "switch":
        return []
    sy = sym(fn)
    d = sy.operand(t["discr"])
    out = []
    is_bool = t["ty"] == "bool"
    arms = t["arms"]
    other = t["otherwise"]
    if is_bool:
        vals = {tgt: bool(v) for v, tgt in arms}
        edges = [(tgt, truth) for tgt, truth in vals.items()]
        armt = set(bool(v) for v, _ in arms)
        for truth in (True, False):
            if truth not in armt:
                edges.append((other, truth))
        for tgt, truth in edges:
            out.append((tgt, bool_fact(d, truth)))
        return out
    vals = [v for v, _ in arms]
    for v, tgt in arms:
        out.append((tgt, ("eq", d, v)))
    out.append((other, ("notin", d, tuple(vals))))
    return out


def bool_fact(e, truth):
    """normalise `e is truth` into a comparison fact when e is a comparison / negation"""
    if e[0] == "un" and e[1] == "Not":
        return bool_fact(e[2], not truth)
    if e[0] == "bin" and e[1] in NEG:
        op = e[1] if truth else NEG[e[1]]
        return ("cmp", op, e[2], e[3])
    return ("bool", e, truth)


def facts_at(fn, bb):
    """all edge facts that dominate block bb (every path from entry to bb takes that edge)"""
    c = cfg(fn)
    out = []
    doms = c.dom().get(bb, set())
    for s in sorted(doms):
        if fn.term(s)["k"] != "switch":
            continue
        es = switch_edges(fn, s)
        # group by target: an edge dominates bb if removing all *other* edges' is irrelevant; use edge_dominates
        targets = {}
        for tgt, fact in es:
            targets.setdefault(tgt, []).append(fact)
        for tgt, facts in targets.items():
            if len(facts) != 1:
                continue  # two different conditions lead to the same block: nothing known
            if c.edge_dominates(s, tgt, bb) and not _stale(fn, c, s, tgt, bb, facts[0]):
                out.append((s, facts[0]))
    return out


def _stale(fn, c, s, tgt, bb, fact):
    """a fact about a reassignable local no longer describes it at bb when the local can be assigned after the test
    and reach bb without passing the test again (e.g. a loop variable checked before the loop)"""
    sy = sym(fn)
    locs = set()
    mentions_any(fact, lambda x: x[0] == "l" and (x[1] in sy.multi) and not locs.add(x[1]) and False)
    if not locs:
        return False
    after = None
    for l in locs:
        for d in sy.defs.get(l, []):
            db = d[1]
            if db == s or db == bb:
                continue
            if after is None:
                after = c.reachable_from(tgt, avoid=[s])
            if db in after:
                nxt = fn.succs(db)
                if any(bb in c.reachable_from(n, avoid=[s]) for n in nxt if n != s) :
                    return True
    return False


def mentions_any(e, pred):
    """like sym.mentions, but the result of a call is a value of its own: locals that only occur among the arguments
    of a call node are not read at the point of the fact"""
    if isinstance(e, tuple):
        if e and isinstance(e[0], str):
            if pred(e):
                return True
            if e[0] == "call":
                return False
        return any(mentions_any(x, pred) for x in e)
    return False


def decision_facts(fn, bb, depth=0):
    """facts_at(bb) plus, for a fact that only tests a carried flag (`let go = a > b; .. if go`, or
    `let by = if a > b { Some(x) } else { None }; if let Some(x) = by`), the facts under which the flag got that
    value.  The added facts held when the *decision* was made -- their operands may have changed since -- so this
    is for rules about what a decision was based on, not for discharging a later operation."""
    sy = sym(fn)
    out = list(facts_at(fn, bb))
    if depth > 2:
        return out
    for s, fa in list(out):
        want = None
        if fa[0] == "bool" and fa[1][0] == "l":
            want = (fa[1][1], "bool", fa[2])
        elif fa[0] == "eq" and fa[1][0] == "discr" and fa[1][1][0] == "l":
            want = (fa[1][1][1], "discr", fa[2])
        if want is None:
            continue
        l, kind, val = want
        hits = []
        for d in sy.defs.get(l, []):
            if d[0] != "stmt":
                continue
            rv = d[3]
            e = sy.rvalue(rv, 1)
            if kind == "bool":
                if e[0] == "c" and bool(e[1]) == val:
                    hits.append((d[1], None))
                elif e[0] == "bin" and e[1] in NEG:
                    op = e[1] if val else NEG[e[1]]
                    hits.append((d[1], ("cmp", op, e[2], e[3])))
                elif e[0] != "c":
                    hits.append((d[1], "?"))
            else:
                if rv["k"] == "agg" and rv.get("adt"):
                    idx = rv.get("vidx")
                    if idx is None or idx == val:
                        hits.append((d[1], None))
                elif rv["k"] == "use" and "c" in rv["a"] and "enum" in rv["a"]["c"]:
                    hits.append((d[1], None))  # constant variant: cannot tell which without the table; keep
                else:
                    hits.append((d[1], "?"))
        if len(hits) == 1 and hits[0][1] != "?":
            db, extra = hits[0]
            if extra is not None:
                out.append((db, extra))
            out += decision_facts(fn, db, depth + 1)
    return out


def holds(fn, bb, pred):
    """is there a dominating edge fact satisfying pred(fact)?"""
    for s, f in facts_at(fn, bb):
        if pred(f):
            return (s, f)
    return None


def cmp_matches(fact, op, a_pred, b_pred):
    """does the comparison fact equal (a op b) up to flipping sides?"""
    if fact[0] != "cmp":
        return False
    _, fop, fa, fb = fact
    if fop == op and a_pred(fa) and b_pred(fb):
        return True
    if FLIP[fop] == op and a_pred(fb) and b_pred(fa):
        return True
    return False


def cmp_implies(fact, op, a_pred, b_pred):
    """does the comparison fact imply (a op b)?  (a < b implies a <= b)"""
    if cmp_matches(fact, op, a_pred, b_pred):
        return True
    if op == "Le":
        return cmp_matches(fact, "Lt", a_pred, b_pred) or cmp_matches(fact, "Eq", a_pred, b_pred) or cmp_matches(fact, "Eq", b_pred, a_pred)
    if op == "Ge":
        return cmp_matches(fact, "Gt", a_pred, b_pred) or cmp_matches(fact, "Eq", a_pred, b_pred) or cmp_matches(fact, "Eq", b_pred, a_pred)
    return False


def show_fact(fn, fact):
    sy = sym(fn)
    if fact[0] == "cmp":
        return "%s %s %s" % (sy.show(fact[2]), fact[1], sy.show(fact[3]))
    if fact[0] == "bool":
        return "%s is %s" % (sy.show(fact[1]), fact[2])
    if fact[0] == "eq":
        return "%s == %s" % (sy.show(fact[1]), fact[2])
    if fact[0] == "notin":
        return "%s not in %s" % (sy.show(fact[1]), list(fact[2]))
    return str(fact)


def fresh_since(fn, local, from_bb, to_bb):
    """no assignment to `local` can happen after block from_bb and reach to_bb without passing from_bb again
    (a value tested at from_bb is still the value used at to_bb)"""
    sy = sym(fn)
    c = cfg(fn)
    start = set()
    for n in fn.succs(from_bb):
        start |= c.reachable_from(n, avoid=[from_bb])
    for d in sy.defs.get(local, []):
        db = d[1]
        if db == from_bb or db not in start:
            continue
        if db == to_bb:
            return False
        if any(to_bb in c.reachable_from(n, avoid=[from_bb]) for n in fn.succs(db)):
            return False
    return True
