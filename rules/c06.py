"""C06 — accepted input means what it says: exact numbers, enforced limits.

Exactness of the decimal conversion itself is C13's subject.  Decided here: every limit the property names
is installed from the right source and stands in front of every place where a number is handed out or
narrowed.
R1 range check before the lossy conversion (from_dimacs behind -limit..=limit; from_code only on checked codes)
R2 DIMACS limits are installed exactly when the header asks (not under ignore_header, only for non-zero counts)
R3 DIMACS limits are consulted where the property says (clause attempt, clean end, literal/group limits)
R4 AIGER literal discipline (limit = max_lit everywhere, `assigning` exactly at defining positions, max_lit = 2M+1,
   header bounds M <= (MAX_CODE-1)/2 and I, L, A bounded by the running remainder)
R5 AIGER section counters start from the matching header count and end the section exactly at zero
R6 binary delta must not exceed the reference code
R7 the literal types' declared maxima fit their integer type
R8 bounds are inclusive (operators of the limit checks)
"""
from . import util, guards, aff
from .aff import Aff, PathExec
from .cfg import cfg
from .common import norm, family
from .sym import sym, short, mentions, subexprs
from .c10 import strip_bb
from .c03 import upvar_field

TOK_A = "flussab_aiger::token::"
TOK_C = "flussab_cnf::token::"
A_DR = "flussab::deferred_reader::DeferredReader::"


def fnn(facts, name):
    ids = [i for i in facts.fns if norm(i) == name]
    if not ids:
        from .facts import FactError
        raise FactError("anchor missing: " + name)
    return facts.fns[ids[0]]


def upvar_parent_expr(facts, cfn, e, depth=0):
    """expression of a captured variable at the capture site: (parent fn, expr) or None"""
    if depth > 4 or not isinstance(e, tuple):
        return None
    if e[0] == "f" and e[1] == ("l", 1) and e[2].isdigit() and cfn.kind == "Closure":
        k = int(e[2])
        for f in facts.fns.values():
            for b in f.blocks:
                for s in b["stmts"]:
                    if s["k"] == "assign" and s["rv"]["k"] == "agg" and s["rv"].get("closure") == cfn.id and k < len(s["rv"]["ops"]):
                        pe = sym(f).operand(s["rv"]["ops"][k])
                        r = upvar_parent_expr(facts, f, pe, depth + 1)
                        return r or (f, pe)
    return None


# ---- R1 ---------------------------------------------------------------------------------------
def run_r1(ctx, rule):
    facts = ctx.facts
    n = 0
    for f, bb, t in util.calls_to(facts, lambda x: x == "flussab_cnf::dimacs_trait::Dimacs::from_dimacs"):
        if f.crate in ("ext", "promoted"):
            continue
        n += 1
        sy = sym(f)
        v = sy.operand(t["args"][0])

        def is_contains(fa):
            if not (fa[0] == "bool" and fa[2] is True and fa[1][0] == "call" and norm(fa[1][2]).endswith("RangeInclusive::contains")):
                return False
            rng, arg = fa[1][3][0], fa[1][3][1]
            if rng[0] == "promoted":
                # a promoted constant range: look at the body that builds it
                pf = [x for i, x in facts.fns.items() if norm(i) == rng[1]]
                if not pf:
                    return False
                rng = sym(pf[0]).place({"l": 0, "p": []})
            if not (rng[0] == "call" and norm(rng[2]).endswith("RangeInclusive::new")):
                return False
            lo, hi = rng[3]
            return lo == ("un", "Neg", hi) and arg == v

        g = guards.holds(f, bb, is_contains)
        if not g:
            # the same range written as two comparisons: -limit <= v && v <= limit (possibly through a named flag)
            ups, los = [], []
            for s0, fa in guards.decision_facts(f, bb):
                if fa[0] != "cmp":
                    continue
                op, a, b = fa[1], strip_bb(fa[2]), strip_bb(fa[3])
                sv = strip_bb(v)
                if (op == "Le" and a == sv) or (op == "Ge" and b == sv):
                    ups.append((s0, b if op == "Le" else a))
                if (op == "Le" and b == sv) or (op == "Ge" and a == sv):
                    los.append((s0, a if op == "Le" else b))
            for s1, hi in ups:
                for s2, lo in los:
                    if lo == ("un", "Neg", hi):
                        g = (s1, ("cmp", "Le", v, hi))
        if v[0] == "l" and v[1] in sy.multi:
            # the converted variable is assigned in several places (a loop variable): every assignment must pass a range
            # test of that variable before it can reach the conversion
            c = cfg(f)
            tests = []  # (switch block, target on success)
            for sb in range(len(f.blocks)):
                if f.blocks[sb]["cleanup"] or f.term(sb)["k"] != "switch":
                    continue
                for tgt, fa in guards.switch_edges(f, sb):
                    if is_contains(fa):
                        tests.append((sb, tgt))
            cut = [sb for sb, _ in tests]
            starts = [0] if (v[1] <= f.argc) else []
            for d in sy.defs.get(v[1], []):
                if d[0] == "stmt" and d[3]["k"] == "use":
                    src = sy.operand(d[3]["a"])
                    vv = v
                    v = src  # (is_contains compares with v)
                    pre = guards.holds(f, d[1], is_contains)
                    v = vv
                    if pre and (src[0] != "l" or src[1] not in sy.multi):
                        continue  # `if range.contains(&next) { lit = next }`: checked under its own name before the copy
                starts += f.succs(d[1]) if d[0] == "call" else [d[1]]
            leak = None
            for st0 in starts:
                if bb in c.reachable_from(st0, avoid=cut) and st0 not in cut:
                    leak = st0
            for sb, tgt in tests:
                for other in f.succs(sb):
                    if other != tgt and bb in c.reachable_from(other, avoid=cut):
                        leak = other
            g = (tests[0][0], ("bool", ("c", 1), True)) if (tests and leak is None) else None
            rule.check(bool(g), "%s/from_dimacs-range" % norm(f.id), "from_dimacs(%s): every assignment of %s passes (-limit..=limit).contains(&%s) before it can reach the conversion%s" % (sy.show(v), sy.show(v), sy.show(v), "" if g else " (an assignment reaches it unchecked)"), f.loc(bb))
            continue
        rule.check(bool(g), "%s/from_dimacs-range" % norm(f.id), "from_dimacs(%s) only behind (-limit..=limit).contains(&%s)" % (sy.show(v), sy.show(v)), f.loc(bb))
    if n == 0:
        rule.bad("from_dimacs/sites", "anchor missing: no call of Dimacs::from_dimacs", kind="anchor-missing")
    # from_code in the AIGER parsers: only on codes that went through lit / delta_code
    m = 0
    for f, bb, t in util.calls_to(facts, lambda x: x.endswith("lit::Lit::from_code")):
        nid = norm(f.id)
        if f.crate != "flussab_aiger" or not ("::Parse" in nid and ("::ascii::" in nid or "::binary::" in nid)):
            continue
        m += 1
        sy = sym(f)
        e = sy.operand(t["args"][0])
        if e[0] == "l":
            e = sy.origin(e)
        ok = e[0] == "f" and e[1][0] == "v" and e[1][2] == "Continue" and e[1][1][0] == "call" and norm(e[1][1][2]).endswith("Try>::branch") and \
            e[1][1][3][0][0] == "call" and norm(e[1][1][3][0][2]) in (TOK_A + "lit", TOK_A + "delta_code")
        rule.check(ok, "%s/from_code/%d" % (nid, m), "from_code only on a code checked by token::lit / token::delta_code (%s)" % sy.show(e)[:90], f.loc(bb))
    if m < 20:
        rule.bad("from_code/sites", "only %d from_code sites in the AIGER section parsers (at least 20 confirmed by hand)" % m, kind="anchor-missing")
    # narrowing / sign changing casts of parsed numbers in parser code: inventory against the frozen table
    listed = {
        ("flussab_cnf::cnf::Parser::new", "usize", "isize"): "var_count <= L::MAX_DIMACS <= isize::MAX (token::var_count)",
        ("flussab_cnf::wcnf::Parser::new", "usize", "isize"): "same",
        ("flussab_cnf::gcnf::Parser::new", "usize", "isize"): "same",
        ("flussab_cnf::token::var_count", "isize", "usize"): "the constant L::MAX_DIMACS (positive)",
        ("flussab::text::signed_ascii_digits_multi", "u32", "i32"): "kernel value of at most 7 digits (< 10^7)",
        ("flussab_aiger::token::binary_uint", "u8", "usize"): "widening",
        ("flussab::text::swar_ascii_digits_u64_le", "u64", "u32"): "the kernel's value of at most 8 decimal digits (< 10^8 < 2^32) after the final >> 32",
        ("flussab::text::swar_ascii_digits_u64_le", "u32", "usize"): "shift / 8 <= 8",
    }
    seen = set()
    for f in facts.fns.values():
        if f.crate in ("ext", "promoted"):
            continue
        nid = norm(f.id)
        if not (("::token::" in nid or "::Parser::" in nid or "::Parse" in nid or nid.startswith("flussab::text::")) and "::Writer::" not in nid):
            continue
        for bi, b in enumerate(f.blocks):
            for s in b["stmts"]:
                if s["k"] == "assign" and s["rv"]["k"] == "cast" and s["rv"]["ck"] == "IntToInt" and not s.get("exp"):
                    fr, to = s["rv"]["from"], s["rv"]["to"]
                    if fr == to or fr == "bool" or "a" in s["rv"] and "c" in s["rv"]["a"]:
                        continue
                    w = {"u8": 8, "i8": 8, "u16": 16, "i16": 16, "u32": 32, "i32": 32, "u64": 64, "i64": 64, "usize": 64, "isize": 64, "u128": 128, "i128": 128}
                    if fr not in w or to not in w:
                        continue
                    lossy = w[to] < w[fr] or (fr[0] != to[0] and not (fr[0] == "u" and w[to] > w[fr]))
                    if not lossy:
                        continue
                    key = (family(nid), fr, to)
                    seen.add(key)
                    rule.check(key in listed, "%s/cast-%s-%s" % key, "lossy cast %s -> %s in %s is listed with its bound (%s)" % (fr, to, short(nid), listed.get(key, "NOT LISTED")), f.loc(bi))


# ---- R2 / R3 ------------------------------------------------------------------------------------
LIMIT_FIELDS = {
    "lit_limit": "var_count", "lit_limit_is_hard": "var_count",
    "clause_limit": "clause_count", "clause_limit_active": "clause_count",
    "group_limit": "group_count", "group_limit_is_hard": "group_count",
}


def run_r2(ctx, rule):
    facts = ctx.facts
    for m in ("cnf", "wcnf", "gcnf"):
        f = fnn(facts, "flussab_cnf::%s::Parser::new" % m)
        sy = sym(f)
        adt = "flussab_cnf::%s::Parser" % m
        n = 0
        stored = set()
        for f2, bi, si, name in util.field_stores(facts, adt):
            if f2 is not f or name not in LIMIT_FIELDS or si is None:
                continue
            n += 1
            stored.add(name)
            hf = LIMIT_FIELDS[name]
            fs = guards.facts_at(f, bi)
            not_ignored = any(fa[0] == "bool" and fa[2] is False and fa[1][0] == "f" and fa[1][2] == "ignore_header" for s0, fa in fs)
            nonzero = any(fa[0] == "cmp" and fa[1] == "Ne" and ("c", 0) in (fa[2], fa[3]) and any(x[0] == "f" and x[2] == hf for x in (fa[2], fa[3])) for s0, fa in fs)
            rule.check(not_ignored and nonzero, "%s::new/%s/installed-when-asked" % (m, name), "%s: %s is set only when the header is not ignored and %s != 0" % (m, name, hf), f.loc(bi))
            # .. and whenever it is asked for: no other count of the header decides about it (a clause count of 0 means
            # "unspecified", it does not switch the group or variable limit off)
            others = sorted(set(x[2] for s0, fa in fs if fa[0] == "cmp" for x in (fa[2], fa[3]) if x[0] == "f" and x[2] in set(LIMIT_FIELDS.values()) and x[2] != hf))
            rule.check(not others, "%s::new/%s/installed-whenever-asked" % (m, name), "%s: whether %s is installed does not depend on another header count%s" % (m, name, "" if not others else " -- but it is only installed under a test of %s" % others), f.loc(bi))
            e = sy.rvalue(f.blocks[bi]["stmts"][si]["rv"])
            if not name.endswith(("_is_hard", "_active")):
                rule.check(mentions(e, lambda x: x[0] == "f" and x[2] == hf), "%s::new/%s/source" % (m, name), "%s: %s is taken from the header's %s (%s)" % (m, name, hf, sy.show(e)), f.loc(bi))
        # (the clause limit may be a pair `clause_limit` + `clause_limit_active` or one `Option`)
        need = {"lit_limit", "lit_limit_is_hard", "clause_limit"} | ({"group_limit", "group_limit_is_hard"} if m == "gcnf" else set())
        if not need <= stored:
            rule.bad("%s::new/limit-stores" % m, "%s: limit installations missing for %s" % (m, sorted(need - stored)), kind="anchor-missing")
        # defaults: hard limit = L::MAX_DIMACS, clause limit inactive
        for b in f.blocks:
            for s in b["stmts"]:
                if s["k"] == "assign" and s["rv"]["k"] == "agg" and s["rv"].get("adt") == adt:
                    e = sy.rvalue(s["rv"])
                    vals = dict(zip(s["rv"]["fields"], e[3]))
                    ok = vals.get("lit_limit", ("", ""))[0] == "c?" and "MAX_DIMACS" in str(vals.get("lit_limit")) and (vals.get("clause_limit_active") == ("c", 0) or (vals.get("clause_limit", ("",))[0] == "agg" and vals["clause_limit"][2] == "None")) and vals.get("lit_limit_is_hard") == ("c", 1)
                    rule.check(ok, "%s::new/defaults" % m, "%s: without header limits the literal limit is L::MAX_DIMACS (hard) and no clause limit is active" % m, f.loc())
                    if m == "gcnf":
                        # groups are plain usize numbers, independent of the literal type: without a declared group count
                        # every group the text can spell is allowed (a limit taken from the literal type rejects what
                        # the writer emits for small literal types)
                        gl = vals.get("group_limit")
                        rule.check(gl is not None and gl[0] == "c" and isinstance(gl[1], int) and gl[1] >= (1 << 63), "gcnf::new/group-default", "gcnf: without a declared group count the group limit is usize::MAX, whatever the literal type  [got %s]" % (sy.show(gl) if gl else "?"), f.loc())


def run_r3(ctx, rule):
    facts = ctx.facts
    for m in ("cnf", "wcnf", "gcnf"):
        fns = [f for i, f in facts.fns.items() if norm(i).startswith("flussab_cnf::%s::Parser::next_clause" % m)]
        if not fns:
            rule.bad("%s/next_clause" % m, "anchor missing", kind="anchor-missing")
            continue
        found_lits = False
        # (the literal / group parsers may be called from next_clause, its closures, or a private helper of the parser)
        for f in [f for i, f in facts.fns.items() if norm(i).startswith("flussab_cnf::%s::Parser::" % m) and f.crate == "flussab_cnf"]:
            sy = sym(f)
            for bb, t in f.calls():
                cn = norm(util.cname(t))
                if cn == TOK_C + "clause_lits":
                    found_lits = True
                    a = [sy.operand(x) for x in t["args"]]
                    lim = upvar_field(facts, f, a[2]) if a[2][0] in ("f", "l") else None
                    hard = upvar_field(facts, f, a[3]) if a[3][0] in ("f", "l") else None
                    rule.check(lim == "lit_limit" and hard == "lit_limit_is_hard", "%s/clause_lits-limit" % m, "%s: literals are checked against lit_limit / lit_limit_is_hard (got %s, %s)" % (m, lim, hard), f.loc(bb))
                if cn == TOK_C + "clause_group":
                    a = [sy.operand(x) for x in t["args"]]
                    rule.check(a[1][0] == "f" and a[1][2] == "group_limit" and a[2][0] == "f" and a[2][2] == "group_limit_is_hard", "%s/clause_group-limit" % m, "%s: groups are checked against group_limit" % m, f.loc(bb))
        if not found_lits:
            rule.bad("%s/clause_lits-call" % m, "anchor missing: call of token::clause_lits", kind="anchor-missing")
        f = [x for x in fns if x.kind != "Closure"][0]
        sy = sym(f)
        # the clause attempt is guarded by clause_count != clause_limit || !active ; the clean end by !active || count >= limit
        first = TOK_C + {"gcnf": "clause_group", "cnf": "clause_lits", "wcnf": "uint_count"}[m]
        attempt = [bb for bb, t in f.calls() if norm(util.cname(t)) == first]
        eofs = [bb for bb, t in f.calls() if norm(util.cname(t)) == TOK_C + "eof"]

        def limit_expr(e, depth=0):
            if mentions(e, lambda x: x[0] == "f" and x[2] in ("clause_limit", "clause_limit_active", "clause_count")):
                return True
            if depth > 2:
                return False
            # a named condition (`let clause_allowed = count != limit || !active;`): some definition of the local computes it from the limit state
            locs = []
            mentions(e, lambda x: x[0] == "l" and not locs.append(x[1]) and False)
            for l in locs:
                for d in sy.defs.get(l, []):
                    if d[0] == "stmt" and limit_expr(sy.rvalue(d[3], 1), depth + 1):
                        return True
            return False

        def mentions_limit(fa):
            e = fa[1] if fa[0] == "bool" else fa
            return limit_expr(e)

        for what, sites in (("attempt", attempt), ("clean-end", eofs)):
            if not sites:
                rule.bad("%s/next_clause/%s-site" % (m, what), "%s: could not find the %s site in next_clause" % (m, what), f.loc(), kind="anchor-missing")
                continue
            c = cfg(f)
            # control dependence: some block testing the limit fields has one edge that cannot reach the site
            ok = False
            for bi in c.reach:
                tt = f.term(bi)
                if tt["k"] != "switch":
                    continue
                es = guards.switch_edges(f, bi)
                if not any(mentions_limit(fa) for tgt, fa in es):
                    continue
                reach = [sites[0] in c.reachable_from(tgt, avoid=[h for h in c.loops()]) or sites[0] == tgt for tgt, fa in es]
                if any(reach) and not all(reach):
                    ok = True
            rule.check(ok, "%s/next_clause/%s-guarded" % (m, what), "%s: the %s is control dependent on the clause limit state" % (m, "clause attempt" if what == "attempt" else "clean end (eof)"), f.loc(sites[0]))
        # clause_count += 1 exactly once on the success path
        incs = [bi for f2, bi, si, name in util.field_stores(facts, "flussab_cnf::%s::Parser" % m) if f2 in fns and name == "clause_count"]
        rule.check(len(incs) == 1, "%s/next_clause/count-once" % m, "%s: clause_count is incremented at exactly one place" % m, f.loc())
    # var_count is limited by L::MAX_DIMACS
    fs = [x for i, x in facts.fns.items() if norm(i).startswith(TOK_C + "var_count")]
    if fs:
        ok = False
        f = fs[0]
        for f2 in fs:
            sy = sym(f2)
            for bi, b in enumerate(f2.blocks):
                for s in b["stmts"]:
                    if s["k"] == "assign" and s["rv"]["k"] == "bin" and s["rv"]["op"] in ("Gt", "Lt", "Le", "Ge"):
                        e = sy.rvalue(s["rv"])
                        left, right = "MAX_DIMACS" in str(e[2]), "MAX_DIMACS" in str(e[3])
                        # count > MAX | MAX < count (the error condition) or count <= MAX | MAX >= count (its negation):
                        # MAX itself is accepted, MAX + 1 is not
                        if (right and not left and e[1] in ("Gt", "Le")) or (left and not right and e[1] in ("Lt", "Ge")):
                            if any(norm(util.cname(t)).endswith("exceeds_var_count") for f3 in fs for _, t in f3.calls()):
                                ok = True
                                f = f2
        rule.check(ok, "var_count/max", "the declared variable count is rejected when it exceeds L::MAX_DIMACS", f.loc())
    else:
        rule.bad("var_count/closure", "anchor missing: var_count check closure", kind="anchor-missing")


# ---- R4 ---------------------------------------------------------------------------------------
ASSIGNING = {b"input literal": 1, b"latch state literal": 1, b"and gate output literal": 1}


def run_r4(ctx, rule):
    facts = ctx.facts
    n = 0
    for f, bb, t in util.calls_to(facts, lambda x: x == TOK_A + "lit"):
        if f.crate in ("ext", "promoted"):
            continue
        n += 1
        sy = sym(f)
        a = [sy.operand(x) for x in t["args"]]
        name = a[1][1] if a[1][0] == "cb" else b"?"
        lim_ok = a[2][0] == "f" and a[2][2] == "max_lit"
        want = ASSIGNING.get(name, 0)
        rule.check(lim_ok, "%s/lit-limit/%s" % (norm(f.id), name.decode()), "%s: '%s' is limited by max_lit (got %s)" % (short(f.id), name.decode(), sy.show(a[2])), f.loc(bb))
        rule.check(a[3] == ("c", want), "%s/lit-assigning/%s" % (norm(f.id), name.decode()), "%s: '%s' is %s as a defining (even, non-zero) literal" % (short(f.id), name.decode(), "checked" if want else "not checked"), f.loc(bb))
    if n < 19:
        rule.bad("lit/sites", "only %d call sites of token::lit (19 confirmed by hand)" % n, kind="anchor-missing")
    for mod in ("ascii", "binary"):
        f = fnn(facts, "flussab_aiger::%s::Parser::new" % mod)
        sy = sym(f)
        ok = False
        for b in f.blocks:
            for s in b["stmts"]:
                if s["k"] == "assign" and s["rv"]["k"] == "agg" and s["rv"].get("adt", "").endswith("::Parser"):
                    e = sy.rvalue(s["rv"])
                    vals = dict(zip(s["rv"]["fields"], e[3]))
                    ml = vals.get("max_lit")
                    ok = ml is not None and ml[0] == "bin" and ml[1] == "Add" and ml[3] == ("c", 1) and ml[2][0] == "bin" and ml[2][1] == "Mul" and ml[2][3] == ("c", 2) and ml[2][2][0] == "f" and ml[2][2][2] == "max_var_index"
        rule.check(ok, "%s::new/max_lit" % mod, "%s: max_lit = 2 * max_var_index + 1" % mod, f.loc())
        # header bounds by affine execution of Header::parse
        hf = fnn(facts, "flussab_aiger::%s::Header::parse" % mod)
        c = cfg(hf)
        done = False
        for p, cut in c.paths():
            if hf.term(p[-1])["k"] != "return":
                continue
            st = PathExec(facts, hf).run_path(p)
            calls = [(e[1], e[2][1]) for e in st.events if e[0] == "call" and e[2][0] == TOK_A + "header_field"]
            if len(calls) < 5:
                continue
            names = {}
            res = {}
            for bb, args in calls:
                nm = args[1]
                res[bb] = Aff.sym("call@%d" % bb)
            # results of header_field flow through `?`: value symbol is the Continue payload of the branch call
            sy = sym(hf)
            order = []
            for bb, args in calls:
                t = hf.term(bb)
                nm = sy.operand(t["args"][1])
                order.append((nm[1].decode() if nm[0] == "cb" else "?", args[2]))
            lim = dict(order)
            # find the symbols of the parsed counts: limit of "latch count" = limit("input count") - input, ...
            m_lim = lim.get("maximum variable index")
            i_lim = lim.get("input count")
            l_lim = lim.get("latch count")
            a_lim = lim.get("and gate count")
            ok_m = isinstance(m_lim, tuple) and m_lim[0] == "div" or (isinstance(m_lim, Aff) and m_lim.is_const())
            ok_chain = isinstance(i_lim, Aff) and isinstance(l_lim, Aff) and isinstance(a_lim, Aff) and len(i_lim.t) == 1 and i_lim.c == 0
            if ok_chain:
                d1 = i_lim - l_lim  # = input count
                d2 = l_lim - a_lim  # = latch count
                ok_chain = len(d1.t) == 1 and d1.c == 0 and list(d1.t.values()) == [1] and len(d2.t) == 1 and d2.c == 0 and list(d2.t.values()) == [1] and list(d1.t) != list(d2.t) and list(i_lim.t) != list(d1.t)
            rule.check(ok_chain, "%s::Header::parse/remainder-chain" % mod, "%s: I is bounded by M, L by M - I, A by M - I - L (limits %s, %s, %s)" % (mod, i_lim, l_lim, a_lim), hf.loc())
            done = True
            break
        if not done:
            rule.bad("%s::Header::parse/paths" % mod, "no returning path with the five mandatory header fields", kind="anchor-missing")
        # M <= (MAX_CODE - 1) / 2
        sy = sym(hf)
        okm = False
        for bb, t in hf.calls():
            if norm(util.cname(t)) == TOK_A + "header_field":
                a = [sy.operand(x) for x in t["args"]]
                if a[1] == ("cb", b"maximum variable index"):
                    e = a[2]
                    okm = e[0] == "bin" and e[1] == "Div" and e[3] == ("c", 2) and e[2][0] == "bin" and e[2][1] == "Sub" and e[2][3] == ("c", 1) and "MAX_CODE" in str(e[2][2])
        rule.check(okm, "%s::Header::parse/max-var-bound" % mod, "%s: M is bounded by (L::MAX_CODE - 1) / 2" % mod, hf.loc())


# ---- R5 ---------------------------------------------------------------------------------------
COUNTERS = {
    "inputs_left": "input_count", "latches_left": "latch_count", "outputs_left": "output_count", "bad_left": "bad_state_property_count",
    "constraints_left": "invariant_constraint_count", "justice_left": "justice_property_count", "fairness_left": "fairness_constraint_count",
    "ands_left": "and_gate_count", "local_fairness_left": "total_local_fairness_count",
}


def run_r5(ctx, rule):
    facts = ctx.facts
    n = 0
    for f in facts.fns.values():
        if f.crate != "flussab_aiger" or f.kind == "Closure":
            continue
        nid = norm(f.id)
        if not ("::ascii::" in nid or "::binary::" in nid):
            continue
        sy = sym(f)
        for bi, b in enumerate(f.blocks):
            for s in b["stmts"]:
                if s["k"] == "assign" and s["rv"]["k"] == "agg" and s["rv"].get("ak") == "adt" and "::Parse" in s["rv"].get("adt", ""):
                    e = sy.rvalue(s["rv"])
                    for fld, v in zip(s["rv"]["fields"], e[3]):
                        if fld in COUNTERS:
                            n += 1
                            ok = v[0] == "f" and v[2] == COUNTERS[fld]
                            rule.check(ok, "%s/%s-init" % (nid, fld), "%s starts %s from the header's %s (got %s)" % (short(nid), fld, COUNTERS[fld], sy.show(v)), f.loc(bi))
        # next_*: Ok(None) only when the counter is zero, and the counter is decremented once per item
        if "::next_" in nid and "symbol" not in nid:
            ctr = None
            for f2, bi, si, name in []:
                pass
            for bi, b in enumerate(f.blocks):
                for s in b["stmts"]:
                    if s["k"] == "assign" and s["rv"]["k"] == "agg" and s["rv"].get("adt") == "core::option::Option" and s["rv"]["variant"] == "None":
                        # is this the Ok(None) result?  it must be dominated by counter == 0
                        fs = guards.facts_at(f, bi)
                        okz = any((fa[0] == "cmp" and fa[1] == "Eq" and ("c", 0) in (fa[2], fa[3]) and any(x[0] == "f" and x[2] in COUNTERS for x in (fa[2], fa[3]))) or (fa[0] == "eq" and fa[2] == 0 and fa[1][0] == "f" and fa[1][2] in COUNTERS) for s0, fa in fs)
                        # only the None that is returned as Ok(None)
                        e = None
                        nxt = [s2 for s2 in b["stmts"] if s2["k"] == "assign" and s2["rv"]["k"] == "agg" and s2["rv"].get("adt") == "core::result::Result" and s2["rv"]["variant"] == "Ok" and s2["lhs"]["l"] == 0]
                        if nxt:
                            n += 1
                            rule.check(okz, "%s/none-only-at-zero" % nid, "%s returns Ok(None) only when its counter is zero" % short(nid), f.loc(bi))
    if n < 30:
        rule.bad("sections/sites", "only %d section counter obligations found (30 confirmed by hand)" % n, kind="anchor-missing")


# ---- R6 / R7 / R8 -------------------------------------------------------------------------------
def run_r6(ctx, rule, inclusive_only=False):
    facts = ctx.facts
    f = fnn(facts, TOK_A + "delta_code")
    sy = sym(f)
    found = False
    for bi, b in enumerate(f.blocks):
        for s in b["stmts"]:
            if s["k"] == "assign" and s["rv"]["k"] == "bin" and s["rv"]["op"].startswith("Sub"):
                e = sy.rvalue(s["rv"])
                a, d = e[2], e[3]
                found = True
                g = guards.holds(f, bi, lambda fa: guards.cmp_implies(fa, "Le", lambda x: x == d, lambda x: x == a))
                if not inclusive_only:
                    rule.check(bool(g) and a == ("l", 2), "delta_code/guard", "code - delta only behind delta <= code (%s)" % (guards.show_fact(f, g[1]) if g else "unguarded"), f.loc(bi))
                # .. and a delta equal to its reference code is accepted: it encodes the constant literal 0, which is a legal
                # gate input and which the writer emits as exactly this delta
                gi = guards.holds(f, bi, lambda fa: guards.cmp_matches(fa, "Le", lambda x: x == d, lambda x: x == a))
                rule.check(bool(gi) or not g, "delta_code/inclusive", "a delta is rejected only when it is larger than its reference code: delta == code is the constant 0 (%s)" % (guards.show_fact(f, g[1]) if g else "unguarded"), f.loc(bi))
    for bb, t in f.calls():
        cn = norm(util.cname(t))
        if cn.endswith("::checked_sub"):
            a, d = sy.operand(t["args"][0]), sy.operand(t["args"][1])
            found = True
            rule.check(a == ("l", 2) and mentions(d, lambda x: x[0] == "call" and norm(x[2]).endswith("binary_uint")), "delta_code/guard", "code - delta through checked_sub(code, delta): only the Some answer is a code", f.loc(bb))
        elif cn.endswith(("::wrapping_sub", "::saturating_sub", "::overflowing_sub")):
            found = True
            rule.bad("delta_code/guard", "delta_code subtracts with %s: a delta above its reference code must be an error" % cn.rsplit("::", 1)[-1], f.loc(bb))
    if not found:
        rule.bad("delta_code/sub", "anchor missing: subtraction in delta_code", kind="anchor-missing")
    if inclusive_only:
        return
    # binary_uint: the shift-back test rejects values that do not fit
    f = fnn(facts, TOK_A + "binary_uint")
    sy = sym(f)
    ok = False
    for bi, b in enumerate(f.blocks):
        for s in b["stmts"]:
            if s["k"] == "assign" and s["rv"]["k"] == "bin" and s["rv"]["op"] == "Ne":
                e = sy.rvalue(s["rv"])
                if mentions(e, lambda x: x[0] == "bin" and x[1] == "Shr" and x[3] in (("c", 7), ("cast", "IntToInt", ("c", 7), "u32")) ):
                    ok = True
                # or, group by group: `(group << shift) >> shift != group`
                for a, b in ((e[2], e[3]), (e[3], e[2])):
                    if a[0] == "bin" and a[1] == "Shr" and a[2][0] == "bin" and a[2][1] == "Shl" and strip_bb(a[2][3]) == strip_bb(a[3]) and strip_bb(a[2][2]) == strip_bb(b):
                        ok = True
    rule.check(ok, "binary_uint/shift-back", "binary_uint rejects a value whose shifted-in bits do not shift back out", f.loc())


def run_r7(ctx, rule):
    facts = ctx.facts
    bits = {"i8": 7, "i16": 15, "i32": 31, "i64": 63, "isize": 63, "u8": 8, "u16": 16, "u32": 32, "u64": 64, "usize": 64}
    n = 0
    for cid, k in sorted(facts.consts.items()):
        if cid.endswith("::MAX_DIMACS") or cid.endswith("::MAX_CODE"):
            ty = cid[1:].split(" as ")[0]
            if ty not in bits:
                continue
            n += 1
            rule.check(0 < k["int"] <= (1 << bits[ty]) - 1, "const/%s" % cid, "%s = %d fits the integer type %s" % (cid, k["int"], ty))
    if n < 10:
        rule.bad("consts/count", "only %d literal type maxima found (10 expected)" % n, kind="anchor-missing")


def run_r8(ctx, rule):
    """the check closures of the bounded-result tokens: Ok only for value <= limit"""
    facts = ctx.facts
    targets = [
        (TOK_A + "header_field", 3),
        (TOK_A + "lit", 3),
        (TOK_A + "symbol_index", 3),
        (TOK_C + "clause_group", 2),
    ]

    def check_body(parent):
        """the function of the token's family (itself or one of its closures) that returns Result::Ok(()) / Err: the check"""
        out = []
        for i, g in facts.fns.items():
            if g.crate in ("ext", "promoted") or family(norm(i)) != parent:
                continue
            if any(s["k"] == "assign" and s["lhs"]["l"] == 0 and s["rv"]["k"] == "agg" and s["rv"].get("adt") == "core::result::Result" and s["rv"].get("variant") == "Ok" for b in g.blocks for s in b["stmts"]) and \
               any(s["k"] == "assign" and s["rv"]["k"] == "agg" and s["rv"].get("adt") == "core::result::Result" and s["rv"].get("variant") == "Err" for b in g.blocks for s in b["stmts"]):
                out.append(i)
        return sorted(out)

    for parent, limit_arg in targets:
        cname = parent + "::{check closure}"
        ids = check_body(parent)
        if not ids:
            rule.bad("%s/missing" % cname, "anchor missing: " + cname, kind="anchor-missing")
            continue
        f = facts.fns[ids[0]]
        sy = sym(f)
        oks = []
        for bi, b in enumerate(f.blocks):
            for s in b["stmts"]:
                if s["k"] == "assign" and s["lhs"]["l"] == 0 and s["rv"]["k"] == "agg" and s["rv"].get("variant") == "Ok":
                    oks.append(bi)
        good = bool(oks)
        detail = ""
        for bi in oks:
            def le_limit(fa):
                if not (fa[0] == "cmp" and fa[1] in ("Le", "Ge")):
                    return False
                small, big = (fa[2], fa[3]) if fa[1] == "Le" else (fa[3], fa[2])
                pe = upvar_parent_expr(facts, f, big) if big[0] == "f" else None
                return pe is not None and pe[1] == ("l", limit_arg) and (small[0] == "l" or small == ("l", 2))
            g = guards.holds(f, bi, le_limit)
            if not g:
                good = False
            else:
                detail = guards.show_fact(f, g[1])
        rule.check(good, "%s/ok-only-within-limit" % short(parent), "%s accepts a value only when value <= limit (inclusive) [%s]" % (short(parent), detail), f.loc())
    # lit: a defining literal must be even and non-zero
    ids = check_body(TOK_A + "lit")
    if ids:
        f = facts.fns[ids[0]]
        sy = sym(f)
        has_zero = has_odd = False
        for b in f.blocks:
            for s in b["stmts"]:
                if s["k"] == "assign" and s["rv"]["k"] == "bin":
                    e = sy.rvalue(s["rv"])
                    # (either polarity: `count == 0 || count & 1 != 0`, or the negation of `lit != 0 && lit & 1 == 0`)
                    if e[1] in ("Eq", "Ne") and e[3] == ("c", 0) and e[2][0] == "l":
                        has_zero = True
                    if e[1] in ("Eq", "Ne") and e[3] == ("c", 0) and e[2][0] == "bin" and e[2][1] == "BitAnd" and e[2][3] == ("c", 1):
                        has_odd = True
        rule.check(has_zero and has_odd, "lit/assigning-even-nonzero", "a defining literal is rejected when it is 0 or odd", f.loc())
    # clause_lits range is inclusive: RangeInclusive (checked by R1) ; var_count uses `>` (R3)

# ---- R10 ------------------------------------------------------------------------------------------
def run_r10(ctx, rule):
    """The whole-file AIGER parsers read the justice section as one stream of literals and file them under the
    properties by the sizes declared before (`justice_property_sizes`).  A literal may be filed under property i only
    if property i does not yet hold its declared number -- tested with the *current* i: the push is dominated by the
    edge `properties[i].len() != sizes[i]` and i is not changed in between.  (A size of zero must be skipped, however
    many of them follow each other.)"""
    facts = ctx.facts
    n = 0
    for mod in ("ascii", "binary"):
        fs = [g for i, g in facts.fns.items() if norm(i) == "flussab_aiger::%s::Parser::parse" % mod]
        if not fs:
            rule.bad("%s/parse-anchor" % mod, "anchor missing: %s::Parser::parse" % mod, kind="anchor-missing")
            continue
        f = fs[0]
        sy = sym(f)
        for bb, t in f.calls():
            if not norm(util.cname(t)).endswith("Vec::push") or not t["args"]:
                continue
            e = sy.operand(t["args"][0])
            for _ in range(3):
                if e[0] == "l":
                    e = sy.origin(e)
            e = strip_bb(e)
            if not (e[0] == "call" and e[2].rsplit("::", 1)[-1] == "index_mut" and len(e[3]) == 2 and e[3][0][0] == "f" and e[3][0][2] == "justice_properties"):
                continue
            n += 1
            coll, idx = e[3]

            def is_len(x):
                x = strip_bb(x)
                return x[0] == "call" and x[2].rsplit("::", 1)[-1] == "len" and x[3] and x[3][0][0] == "call" and x[3][0][2].rsplit("::", 1)[-1] == "index" and x[3][0][3] == (coll, idx)

            def is_size(x):
                x = strip_bb(x)
                return x[0] == "call" and x[2].rsplit("::", 1)[-1] == "index" and len(x[3]) == 2 and x[3][1] == idx and x[3][0] != coll

            g = guards.holds(f, bb, lambda fa: fa[0] == "cmp" and fa[1] in ("Ne", "Lt") and ((is_len(fa[2]) and is_size(fa[3])) or (fa[1] == "Ne" and is_len(fa[3]) and is_size(fa[2]))))
            rule.check(bool(g), "%s/justice/filed-under-open-property" % mod, "%s::Parser::parse files a justice literal under property %s only behind the test that this property does not yet hold its declared number (%s)" % (mod, sy.show(idx), guards.show_fact(f, g[1])[:90] if g else "no such test of the current index dominates the push"), f.loc(bb))
    if n < 2:
        rule.bad("justice/sites", "fewer than 2 justice distribution sites found (ascii and binary counted)", kind="anchor-missing")

# ---- R11 ------------------------------------------------------------------------------------------
def run_r11(ctx, rule):
    """The declared variable count becomes the literal limit (`lit_limit = header.var_count as isize`), so it must itself
    be capped at what the literal type can hold: in all three DIMACS header parsers the `var_count` of the header
    comes from `token::var_count::<L>` (which rejects counts above `L::MAX_DIMACS`), not from a plain count token."""
    facts = ctx.facts
    n = 0
    for mod in ("cnf", "wcnf", "gcnf"):
        found = False
        for i, f in sorted(facts.fns.items()):
            nid = norm(i)
            if f.crate != "flussab_cnf" or not nid.startswith("flussab_cnf::%s::Parser::parse_header" % mod):
                continue
            sy = sym(f)
            for bi, b in enumerate(f.blocks):
                for st in b["stmts"]:
                    if st["k"] == "assign" and st["rv"]["k"] == "agg" and (st["rv"].get("adt") or "").endswith("%s::Header" % mod):
                        adt = facts.adts.get(st["rv"]["adt"])
                        names = [fl["name"] for fl in adt["variants"][0]["fields"]] if adt else []
                        if "var_count" not in names:
                            continue
                        found = True
                        n += 1
                        e = sy.operand(st["rv"]["ops"][names.index("var_count")])
                        srcs = sorted(set(norm(x[2]).rsplit("::", 1)[-1] for x in subexprs(e) if x[0] == "call" and "::token::" in norm(x[2])))
                        rule.check(srcs == ["var_count"], "%s/header/var_count-token" % mod, "%s: the header's variable count is parsed by token::var_count::<L>, which caps it at the literal type's maximum (parsed by: %s)" % (mod, srcs), f.loc(bi))
        if not found:
            rule.bad("%s/header/aggregate" % mod, "anchor missing: the Header value built in %s::Parser::parse_header" % mod, kind="anchor-missing")


def run_r12(ctx, rule):
    """A number token must contain a digit.  The digit scanners of flussab::text answer (value, end) with value = Some(0)
    and end = start when there is no digit at all (and for a lone '-'), so every token function that calls one decides
    itself that end != start before it consumes anything: `{}` is not group 0, an empty field is not the number 0.
    Decided by affine path execution: on every feasible path from the scanner call to an `advance`, a branch on a
    comparison between the scanner's end offset and the start offset it was given excludes equality."""
    from .aff import PathExec, Aff
    facts = ctx.facts
    SCANNERS = ("flussab::text::ascii_digits", "flussab::text::ascii_digits_multi", "flussab::text::signed_ascii_digits", "flussab::text::signed_ascii_digits_multi")
    n = 0
    for fn in sorted(facts.fns.values(), key=lambda x: x.id):
        if fn.crate in ("ext", "promoted", "flussab") or not any(norm(util.cname(t)) in SCANNERS for _, t in fn.calls()):
            continue
        nid = norm(fn.id)
        c = cfg(fn)
        sites = [(bb, t) for bb, t in fn.calls() if norm(util.cname(t)) in SCANNERS]
        for sbb, st_ in sites:
            n += 1
            bad = None
            npaths = 0
            try:
                paths = list(c.paths(limit=3000))
            except Exception:
                rule.bad("%s/at-least-one-digit" % nid, "too many paths in %s to decide" % short(nid), fn.loc(sbb), kind="unmodelled-idiom")
                continue
            for p, cut in paths:
                if sbb not in p:
                    continue
                ex = PathExec(facts, fn)
                st = ex.run_path(p)
                if st.infeasible:
                    continue
                evs = st.events
                ci = [i for i, e in enumerate(evs) if e[0] == "call" and e[1] == sbb]
                if not ci:
                    continue
                adv = [i for i, e in enumerate(evs) if i > ci[0] and e[0] == "call" and e[2][0].startswith(A_DR + "advance")]
                if not adv:
                    continue
                npaths += 1
                start = evs[ci[0]][2][1][1] if len(evs[ci[0]][2][1]) > 1 else None
                end = Aff.sym("call@%d.1" % sbb)
                ok = False
                for e in evs[ci[0] : adv[0]]:
                    if e[0] != "branch":
                        continue
                    d, taken = e[2]
                    if not (isinstance(d, tuple) and d[0] == "cmp" and isinstance(d[2], Aff) and isinstance(d[3], Aff) and isinstance(start, Aff)):
                        continue
                    true_edge = taken in (("notin", (0,)), ("eq", 1))
                    false_edge = taken == ("eq", 0)
                    pair = (d[2], d[3])
                    if pair in ((end, start), (start, end)):
                        if (d[1] == "Ne" and true_edge) or (d[1] == "Eq" and false_edge):
                            ok = True
                        if d[1] in ("Gt", "Lt") and true_edge and ((d[1] == "Gt") == (pair[0] == end)):
                            ok = True
                        if d[1] in ("Le", "Ge") and false_edge and ((d[1] == "Le") == (pair[0] == end)):
                            ok = True
                if not ok and bad is None:
                    bad = fn.loc(evs[adv[0]][1])
            rule.check(bad is None and npaths > 0, "%s/at-least-one-digit" % nid, "%s consumes a number only after it found the scanner's end offset different from its start offset (%d consuming paths)%s" % (short(nid), npaths, "" if bad is None else ": a path reaches advance without that test - an empty digit run would be accepted as 0"), bad or fn.loc(sbb))
    if n < 5:
        rule.bad("digit-scanner/sites", "only %d call sites of the digit scanners in the format crates (5 confirmed by hand)" % n, kind="anchor-missing")


def run(ctx):
    r1 = ctx.rule("C06-R1", "range check before the lossy conversion; from_code only on checked codes; lossy casts listed with their bound", floor=27)
    run_r1(ctx, r1)
    r2 = ctx.rule("C06-R2", "DIMACS limits are installed exactly when the header asks", floor=20)
    run_r2(ctx, r2)
    r3 = ctx.rule("C06-R3", "DIMACS limits are consulted at the clause attempt, the clean end, and for literals / groups", floor=12)
    run_r3(ctx, r3)
    r4 = ctx.rule("C06-R4", "AIGER literal discipline: max_lit limit, defining positions, header bounds", floor=44)
    run_r4(ctx, r4)
    r5 = ctx.rule("C06-R5", "AIGER section counters start from the matching header count and end the section at zero", floor=30)
    run_r5(ctx, r5)
    r12 = ctx.rule("C06-R12", "a number token contains at least one digit: consumed only after the scanner's end offset was found different from its start offset", floor=5)
    run_r12(ctx, r12)
    from . import builders
    r13 = ctx.rule("C06-R13", "ignore_header (cnf / wcnf / gcnf Config) is set by its own setter only: the counts of a header are unenforced exactly when the caller asked for it", floor=6)
    builders.run(ctx, r13, ["flussab_cnf::cnf::Config", "flussab_cnf::wcnf::Config", "flussab_cnf::gcnf::Config"], 3)
    # R14: the AIGER parsers keep running totals of declared sizes (justice sizes -> literals still to come) and derive
    # limits from header counts; without overflow checks a total that wraps is accepted as a small one.  The arithmetic
    # on declared numbers in flussab-aiger is discharged site by site by C05-R2 (guards, limits handed to header_field
    # as MAX - total, counter bounds); run here on that crate
    from . import c05, taint as T
    r14 = ctx.rule("C06-R14", "sums and products of declared numbers in the AIGER parsers cannot wrap: each is bounded by a guard or by the limit handed to the token that read the number (shared with C05-R2)", floor=20)
    c05.run_r2(ctx, r14, T.Taint(ctx.facts), only=lambda f: f.crate == "flussab_aiger")
    # R15: a symbol names entry number i of a section; i must lie below the count the header declares for that very section,
    # and a section declared empty has no symbols at all (an index limit of `count.saturating_sub(1)` accepts i = 0 for it):
    # the symbol table rows of C03-R3 (prefix, target, tested count = limiting count), run here too
    from .c03 import run_r3 as c03_r3
    r15 = ctx.rule("C06-R15", "AIGER symbols: the index is limited by the count of its own section, and a section declared empty admits none (shared with C03-R3)", floor=20)
    c03_r3(ctx, r15)
    r11 = ctx.rule("C06-R11", "the declared variable count is capped at the literal type's maximum in all three DIMACS header parsers", floor=3)
    run_r11(ctx, r11)
    r10 = ctx.rule("C06-R10", "justice literals are filed under a property only while it holds fewer than its declared number (test of the current index dominates the push)", floor=2)
    run_r10(ctx, r10)
    r6 = ctx.rule("C06-R6", "binary delta <= reference code; varint overflow is rejected", floor=2)
    run_r6(ctx, r6)
    r7 = ctx.rule("C06-R7", "declared maxima of the literal types fit their integer type", floor=10)
    run_r7(ctx, r7)
    r8 = ctx.rule("C06-R8", "limit checks are inclusive: a value is accepted iff value <= limit", floor=5)
    run_r8(ctx, r8)
    ctx.assume("numeric exactness of the decimal conversion is C13's subject")
    # R9: the numbers the limits are applied to are the numbers in the file: overflow discipline and fast/byte-wise
    # plumbing of the decimal scanners (C13-R1b, C13-R4), run here too
    from . import c13
    r9 = ctx.rule("C06-R9", "decimal scanning yields the exact value or None (overflow flag typestate and fast-path plumbing, shared with C13-R1b/R4)", floor=10)
    c13.run_r1b(ctx, r9)
    c13.run_r4(ctx, r9)
    return "other", "every limit the property names is installed from the right source and dominates every hand-out / narrowing", {}
