"""C13 — decimal scanning is exact for every integer width; fast equals simple.

The arithmetic of the SWAR kernel and the numeric value of a digit run are value-level and not decided.
Decided:
R1 overflow-flag discipline: every overflowing_* result's flag is or-ed into the one flag that gates the
   returned Option; no other arithmetic touches the accumulated value.
R2 sibling agreement of the accumulation step (x10, then +digit / -digit, digit = byte - b'0').
R3 scanning behaviour (exact over offset labels / byte classes): digit class '0'..='9', offset +1 per digit,
   a '-' is passed over only when a digit follows (a lone minus is not consumed).
R4 fast/cold plumbing: selector constant = load width = "all matched" constants, continuation at offset+8,
   cold functions are tail calls of the simple variants, conversions through from_u32 / from_i32.
"""
from . import util, guards, scan
from . import absint as A
from .absint import TOP, ALL, mask_of, Auto, Engine
from .cfg import cfg
from .common import norm
from .sym import sym, short, mentions, subexprs
from .c10 import strip_bb
from .c16 import lbl, g as gs, sat, compare

T = "flussab::text::"
DIG = mask_of(range(48, 58))
MINUS = 1 << 45
OVF = "num_traits::ops::overflowing::"
SIMPLE = ["ascii_digits", "ascii_digits_cont_pos", "ascii_digits_cont_neg", "signed_ascii_digits"]


def tfn(facts, name):
    return facts.fn(T + name)


def run_r1(ctx, rule):
    facts = ctx.facts
    n_calls = 0
    for name in SIMPLE:
        f = tfn(facts, name)
        sy = sym(f)
        # (how the overflow flags reach the result is decided by R1b, independently of how the flag is stored)
        for bb, t in f.calls():
            cn = util.cname(t)
            if norm(t["callee"].get("def", "")).startswith(OVF) or cn.startswith(OVF):
                n_calls += 1
                rule.ok("%s: %s is a checked (overflowing_*) step" % (name, cn.rsplit("::", 1)[-1]), f.loc(bb))
        # no other arithmetic on the generic integer
        for bb, t in f.calls():
            d = norm(t["callee"].get("def", ""))
            if d.startswith("core::ops::arith::") and d.rsplit("::", 1)[-1] in ("add", "sub", "mul", "neg", "div", "rem", "add_assign", "sub_assign", "mul_assign"):
                rule.bad("%s/plain-%s" % (name, d.rsplit("::", 1)[-1]), "%s uses plain `%s` on the accumulated value: it can overflow unnoticed (or panic) instead of yielding None" % (name, d.rsplit("::", 1)[-1]), f.loc(bb))
        for bi, b in enumerate(f.blocks):
            for s in b["stmts"]:
                if s["k"] == "assign" and s["rv"]["k"] == "bin" and s["rv"]["ty"] in f.j["generics"]:
                    rule.bad("%s/primitive-binop" % name, "%s: primitive arithmetic on the generic integer" % name, f.loc(bi))
    rule.note("overflowing_calls", n_calls)


# ---- R1b: the flag discipline as a typestate (independent of how the flag is stored) -----------------
class OvfAuto(Auto):
    """True once an overflowing_* step reported overflow on this path (or the incoming value was already None)"""

    name = "overflow-seen"
    track_all_adts = True

    def __init__(self):
        self.n_steps = 0

    def initial(self):
        return False


def _prim_overflowing(eng, fn, bb, t, env, state, args, where, n):
    eng.auto.n_steps += 1
    # decided at once: the step either overflowed (the path remembers it) or it did not
    return [(("t", (TOP, ("b", True, (), ()))), env, True), (("t", (TOP, ("b", False, (), ()))), env, state)]


OvfAuto.extra_prims = {
    OVF + "OverflowingMul::overflowing_mul": _prim_overflowing,
    OVF + "OverflowingAdd::overflowing_add": _prim_overflowing,
    OVF + "OverflowingSub::overflowing_sub": _prim_overflowing,
}


def run_r1b(ctx, rule):
    """None is returned exactly on the paths on which some overflowing_* step reported overflow (or None came in):
    decided by interpreting the scanner with every step's flag decided both ways -- however the function stores it
    (bool, enum, struct field)"""
    facts = ctx.facts
    from . import scan
    for name in SIMPLE:
        f = tfn(facts, name)
        cont = "cont" in name
        entries = [("value", False)]
        if cont:
            entries = [("Some", False), ("None", True)]
        for what, ovf0 in entries:
            auto = OvfAuto()
            eng = Engine(facts, auto)
            args = [TOP for _ in range(f.argc)]
            if cont:
                args[2] = A.enum(A.OPTION, [("Some", TOP)] if what == "Some" else [("None", None)])
            try:
                res = eng.summary(scan.root_key(facts, f.id), ovf0, tuple(args))
            except (A.Recursion, A.Imprecise) as e:
                rule.bad("%s/engine" % name, "analysis failed: %r" % e, f.loc(), kind="unmodelled-idiom")
                continue
            bad = []
            seen = set()
            for av, st in res:
                opt = av[1][0] if av[0] == "t" and av[1] else None
                names = set(n for n, _ in opt[2]) if opt and opt[0] == "e" else None
                seen.add((st, tuple(sorted(names)) if names else None))
                if names is None:
                    bad.append("the returned value is not a tracked Option (%s)" % A.show(av)[:40])
                elif st and names != {"None"}:
                    bad.append("a value is returned although a step overflowed" if not (cont and what == "None") else "a value is returned although None came in")
                elif not st and names != {"Some"}:
                    bad.append("None is returned although no step overflowed")
            tag = name if not cont else "%s/incoming-%s" % (name, what)
            rule.check(not bad, "%s/none-iff-overflow" % tag, "%s%s returns None exactly on the paths where an overflowing step reported overflow%s (%d steps interpreted)%s" % (name, " (incoming %s)" % what if cont else "", " or None came in" if cont else "", auto.n_steps, "" if not bad else " -- " + sorted(set(bad))[0]), f.loc())
            if auto.n_steps == 0:
                rule.bad("%s/no-steps" % tag, "%s: no overflowing_* step was interpreted" % name, f.loc(), kind="anchor-missing")


def run_r2(ctx, rule):
    facts = ctx.facts
    want = {
        "ascii_digits": [("mul", "add")],
        "ascii_digits_cont_pos": [("mul", "add")],
        "ascii_digits_cont_neg": [("mul", "sub")],
        "signed_ascii_digits": [("mul", "sub"), ("mul", "add")],
    }
    for name in SIMPLE:
        f = tfn(facts, name)
        sy = sym(f)
        c = cfg(f)
        loops = c.loops()
        steps = []
        for h, body in sorted(loops.items()):
            ops = []
            for bb in sorted(body):
                t = f.term(bb)
                if t["k"] != "call":
                    continue
                cn = util.cname(t)
                if norm(t["callee"].get("def", "")).startswith(OVF) or cn.startswith(OVF):
                    op = cn.rsplit("::", 1)[-1].replace("overflowing_", "")
                    arg = sy.operand(t["args"][1])
                    ops.append((bb, op, arg))
            if not ops:
                continue
            kinds = tuple(o[1] for o in ops)
            steps.append(kinds)
            # multiplier 10, addend digit - b'0'
            for bb, op, arg in ops:
                fu = [x for x in subexprs(arg) if x[0] == "call" and norm(x[2]).endswith("FromPrimitive::from_u8")]
                if op == "mul":
                    ok = bool(fu) and fu[0][3][0] == ("c", 10)
                    rule.check(ok, "%s/loop-%s/multiplier" % (name, "".join(kinds)), "%s: the accumulated value is multiplied by from_u8(10)" % name, f.loc(bb))
                else:
                    ok = bool(fu) and fu[0][3][0][0] == "bin" and fu[0][3][0][1] == "Sub" and fu[0][3][0][3] == ("c", 48)
                    rule.check(ok, "%s/loop-%s/digit" % (name, "".join(kinds)), "%s: the digit value is from_u8(byte - b'0')" % name, f.loc(bb))
        rule.check(sorted(steps) == sorted(want[name]), "%s/steps" % name, "%s: accumulation steps are %s (found %s)" % (name, want[name], steps), f.loc())
    # the negative step of signed_ascii_digits is under the '-' edge, the positive one is not
    f = tfn(facts, "signed_ascii_digits")
    for bb, t in f.calls():
        cn = util.cname(t).rsplit("::", 1)[-1]
        if cn in ("overflowing_sub", "overflowing_add"):
            gm = guards.holds(f, bb, lambda fa: fa[0] == "eq" and fa[2] == 45)
            rule.check(bool(gm) == (cn == "overflowing_sub"), "signed_ascii_digits/%s-branch" % cn, "signed_ascii_digits: %s is used %s the '-' branch" % (cn, "inside" if cn == "overflowing_sub" else "outside"), f.loc(bb))


def digits_rows(o, start_label="entry"):
    """structured rows (src, (may_end, mask) | None, dst)"""
    out = [(start_label, None, "look@" + lbl(o))] if start_label else []
    k = o
    while True:
        s = "look@" + lbl(k)
        out.append((s, (False, DIG), "look@" + lbl(k + 1)))
        out.append((s, (True, ALL & ~DIG), "ret:" + lbl(k)))
        if sat(k):
            break
        k += 1
    return out


def render(rows):
    merged = {}
    for s, g0, d in rows:
        k = (s, d)
        if g0 is None:
            merged.setdefault(k, None)
        else:
            o = merged.get(k) or (False, 0)
            merged[k] = (o[0] or g0[0], o[1] | g0[1])
    return set((k[0], scan.guard_str(g0), k[1]) for k, g0 in merged.items())


def offsets_only(tr):
    """project returned tuples (Option, offset) to the offset"""
    out = set()
    for s, gd, d in tr:
        if d.startswith("ret:(") and d.endswith(")"):
            d = "ret:" + d[5:-1].rsplit(",", 1)[1]
        out.add((s, gd, d))
    return out


def run_r3(ctx, rule):
    facts = ctx.facts
    for o in (0, 1):
        for name in ("ascii_digits", "ascii_digits_cont_pos", "ascii_digits_cont_neg"):
            f = tfn(facts, name)
            args = (TOP, ("i", o)) + ((TOP,) if "cont" in name else ())
            tr, eng = scan.behaviour(facts, scan.root_key(facts, f.id), args)
            compare(rule, name, "offset=%d" % o, offsets_only(tr), render(digits_rows(o)), f)
        f = tfn(facts, "signed_ascii_digits")
        tr, eng = scan.behaviour(facts, scan.root_key(facts, f.id), (TOP, ("i", o)))
        got = offsets_only(tr)
        s0 = "look@" + lbl(o)
        s1 = "look@" + lbl(o + 1)
        rows = [("entry", None, s0)]
        # '-' : look at the next byte; only a digit makes the sign count
        rows.append((s0, (False, MINUS), s1))
        rows.append((s1, (True, ALL & ~DIG), "ret:" + lbl(o)))
        rows.append((s1, (False, DIG), "look@" + lbl(o + 2)))
        rows += digits_rows(o + 2, None)
        # no '-': the loop looks at offset o again (same answer), then scans digits from o
        rows.append((s0, (True, ALL & ~MINUS), s0))
        pos = digits_rows(o, None)
        pos = [r for r in pos if not (r[0] == s0 and r[2] == "ret:" + lbl(o))]
        pos.append((s0, (True, ALL & ~DIG & ~MINUS), "ret:" + lbl(o)))
        rows += pos
        compare(rule, "signed_ascii_digits", "offset=%d" % o, got, render(rows), f)


def run_r4(ctx, rule):
    facts = ctx.facts
    have_cold = {}
    for name, simple in (("ascii_digits_multi_cold", "ascii_digits"), ("signed_ascii_digits_multi_cold", "signed_ascii_digits")):
        ids = [i for i in facts.fns if norm(i) == T + name]
        have_cold[name] = bool(ids)
        if not ids:
            continue  # the out-of-line shim may be merged into its caller: then the caller calls the simple variant itself
        f = tfn(facts, name)
        sy = sym(f)
        calls = [(bb, t) for bb, t in f.calls()]
        ok = len(calls) == 1 and norm(util.cname(calls[0][1])) == T + simple and [sy.operand(a) for a in calls[0][1]["args"]] == [("l", 1), ("l", 2)] and calls[0][1]["dest"] == {"l": 0, "p": []}
        rule.check(ok, "%s/tail-call" % name, "%s is a tail call of %s with unchanged arguments" % (name, simple), f.loc())
    for name in ("ascii_digits_multi", "signed_ascii_digits_multi"):
        f = tfn(facts, name)
        sy = sym(f)
        n_cold = 0
        # the cold sibling (or, when the shim is merged, the simple variant itself) gets (reader, offset)
        for bb, t in f.calls():
            cn = norm(util.cname(t))
            if cn == T + name + "_cold" or (not have_cold[name + "_cold"] and cn == T + name[: -len("_multi")]):
                n_cold += 1
                ok = [sy.operand(a) for a in t["args"]] == [("l", 1), ("l", 2)]
                g0 = guards.holds(f, bb, lambda fa: guards.cmp_matches(fa, "Lt", lambda x: x[0] == "call" and norm(x[2]).endswith("buf_len"), lambda x: x == ("bin", "Add", ("l", 2), ("c", 8))))
                rule.check(ok and bool(g0), "%s/cold-call" % name, "%s defers to its cold sibling with unchanged arguments exactly when fewer than offset+8 bytes are buffered" % name, f.loc(bb))
            if cn in (T + "ascii_digits_cont_pos", T + "ascii_digits_cont_neg"):
                a = [sy.operand(x) for x in t["args"]]
                neg = cn.endswith("neg")
                want_k = 7 if neg else 8
                gk = guards.holds(f, bb, lambda fa: fa[0] == "cmp" and fa[1] == "Eq" and ("c", want_k) in (fa[2], fa[3]) and any(x[0] == "f" and x[2] == "1" and x[1][0] == "call" and norm(x[1][2]).endswith("swar_ascii_digits_u64_le") for x in (fa[2], fa[3])))
                off_ok = a[1] == ("bin", "Add", ("l", 2), ("c", 8))
                conv = "from_i32" if neg else "from_u32"
                val_ok = a[2][0] == "call" and norm(a[2][2]).endswith("FromPrimitive::" + conv)
                rule.check(bool(gk) and off_ok and val_ok, "%s/%s" % (name, short(cn)), "%s continues with %s at offset+8 exactly when all %d digit bytes of the word matched, passing the %s conversion" % (name, short(cn), want_k, conv), f.loc(bb))
                if name.startswith("signed"):
                    gm = guards.holds(f, bb, lambda fa: fa[0] == "cmp" and fa[1] in ("Eq", "Ne") and any(x[0] == "bin" and x[1] == "BitAnd" and ("c", 255) in (x[2], x[3]) for x in (fa[2], fa[3])))
                    rule.check(bool(gm) and (gm[1][1] == "Eq") == neg, "%s/%s/sign-branch" % (name, short(cn)), "%s: %s is on the %s branch" % (name, short(cn), "'-'" if neg else "unsigned"), f.loc(bb))
        if n_cold == 0:
            rule.bad("%s/cold-call-missing" % name, "%s has no byte-wise path for fewer than offset+8 buffered bytes" % name, f.loc(), kind="anchor-missing")
        # returned tuples: (converted value, offset + matched [+ sign])
        n_ret = 0
        for bi, b in enumerate(f.blocks):
            for s in b["stmts"]:
                if s["k"] == "assign" and s["lhs"]["l"] == 0 and not s["lhs"]["p"] and s["rv"]["k"] == "agg" and s["rv"]["ak"] == "tuple":
                    n_ret += 1
                    v = sy.operand(s["rv"]["ops"][0])
                    off = sy.operand(s["rv"]["ops"][1])
                    md = lambda x: x[0] == "f" and x[2] == "1" and x[1][0] == "call" and norm(x[1][2]).endswith("swar_ascii_digits_u64_le")
                    plain = off[0] == "bin" and off[1] == "Add" and off[2] == ("l", 2) and md(off[3])
                    signed_form = (
                        off[0] == "bin" and off[1] == "Add" and md(off[3]) and off[2][0] == "bin" and off[2][1] == "Add" and off[2][2] == ("l", 2)
                        and off[2][3][0] == "cast" and off[2][3][2][0] == "bin" and off[2][3][2][1] == "Ne" and md(off[2][3][2][2]) and off[2][3][2][3] == ("c", 0)
                    )
                    conv_ok = v[0] == "call" and norm(v[2]).rsplit("::", 1)[-1] in ("from_u32", "from_i32")
                    is_neg = conv_ok and norm(v[2]).endswith("from_i32")
                    # ... and only when the word was not all digits: a full word always goes on byte-wise (whatever is
                    # or is not buffered behind it -- the end of the buffered data is not the end of the number)
                    want_k = 7 if is_neg else 8
                    gr = guards.holds(f, bi, lambda fa: fa[0] == "cmp" and fa[1] == "Ne" and ("c", want_k) in (fa[2], fa[3]) and any(md(x) for x in (fa[2], fa[3])))
                    rule.check(bool(gr), "%s/return-%s/only-short-of-a-full-word" % (name, "neg" if is_neg else "pos"), "%s returns without the byte-wise continuation only when fewer than %d digit bytes of the word matched" % (name, want_k), f.loc(bi))
                    rule.check(conv_ok and (signed_form if is_neg else plain), "%s/return-%s" % (name, "neg" if is_neg else "pos"), "%s returns (checked conversion, offset + matched digits%s) [offset %s]" % (name, " + 1 for the sign iff a digit followed" if is_neg else "", sy.show(off)), f.loc(bi))
        if n_ret == 0:
            rule.bad("%s/no-return-tuple" % name, "anchor missing: returned tuple", f.loc(), kind="anchor-missing")
        # no `as` conversion into the generic result: the value operands of returns come from from_*32
        # negative conversion: from_i32(-(value as i32))
        for bb, t in f.calls():
            if norm(util.cname(t)).endswith("FromPrimitive::from_i32"):
                a0 = sy.operand(t["args"][0])
                ok = a0[0] == "un" and a0[1] == "Neg" and a0[2][0] == "cast"
                rule.check(ok, "%s/neg-conversion" % name, "%s negates the (at most 7 digit) kernel value before from_i32" % name, f.loc(bb))


# ---- R5: the SWAR kernel's digit test, lane by lane ---------------------------------------------------
class LaneCarry(Exception):
    pass


class LaneUnsupported(Exception):
    pass


def lane_eval(e, word):
    """abstract interpretation of a u64 expression as eight independent byte lanes: for every lane a table
    input byte -> result byte.  Exact for constants, and/or/xor/not, shifts by whole bytes, and for additions that
    cannot carry from one lane into the next (checked for all 256 input bytes of the lower lane); anything else
    is outside the domain"""
    k = e[0]
    if (callable(word) and word(e)) or e == word:
        return [list(range(256)) for _ in range(8)]
    if k == "c" and isinstance(e[1], int):
        return [[(e[1] >> (8 * p)) & 255] * 256 for p in range(8)]
    if k == "cast":
        return lane_eval(e[2], word)
    if k == "un" and e[1] == "Not":
        return [[(~v) & 255 for v in t] for t in lane_eval(e[2], word)]
    op, a, b = None, None, None
    if k == "bin":
        op, a, b = e[1].replace("Unchecked", ""), e[2], e[3]
    elif k == "call" and len(e[3]) == 2:
        nm = norm(e[2]).rsplit("::", 1)[-1]
        op = {"wrapping_add": "Add", "bitand": "BitAnd", "bitor": "BitOr", "bitxor": "BitXor"}.get(nm)
        a, b = e[3]
    if op in ("BitAnd", "BitOr", "BitXor"):
        ta, tb = lane_eval(a, word), lane_eval(b, word)
        fn = {"BitAnd": lambda x, y: x & y, "BitOr": lambda x, y: x | y, "BitXor": lambda x, y: x ^ y}[op]
        return [[fn(x, y) for x, y in zip(la, lb)] for la, lb in zip(ta, tb)]
    if op == "Add":
        ta, tb = lane_eval(a, word), lane_eval(b, word)
        out = []
        for p in range(8):
            lane = []
            for x, y in zip(ta[p], tb[p]):
                if x + y > 255 and p < 7:
                    raise LaneCarry("adding lane %d can carry into lane %d (e.g. input byte 0x%02x)" % (p, p + 1, ta[p].index(x) if ta[p].count(x) == 1 else 0))
                lane.append((x + y) & 255)
            out.append(lane)
        return out
    if op in ("Shl", "Shr") and b[0] == "c" and isinstance(b[1], int) and b[1] % 8 == 0 and 0 <= b[1] < 64:
        raise LaneUnsupported("byte shift changes which input byte a lane depends on")
    raise LaneUnsupported(str(e)[:60])


def kernel_zero_class(f, is_word):
    """(byte values for which a lane of the word handed to trailing_zeros is zero -- the same in all eight lanes --,
    block of the trailing_zeros call); raises LaneCarry / LaneUnsupported"""
    sy = sym(f)
    tz = [(bb, t) for bb, t in f.calls() if norm(util.cname(t)).endswith("trailing_zeros")]
    if len(tz) != 1:
        raise LaneUnsupported("no single trailing_zeros call")
    bb, t = tz[0]
    lanes = lane_eval(sy.operand(t["args"][0]), is_word)
    cls = [frozenset(bv for bv in range(256) if lanes[p][bv] == 0) for p in range(8)]
    if len(set(cls)) != 1:
        raise LaneUnsupported("the lanes test different classes")
    return cls[0], bb


def run_r5(ctx, rule):
    """the 8-byte fast path counts exactly the leading ASCII digits: the word handed to trailing_zeros has a zero byte
    in a lane iff that lane's input byte is '0'..='9' (lane-wise abstract interpretation: all 256 byte values of
    every lane, with a proof that no addition carries between lanes), the count is trailing_zeros / 8, and the digits'
    values entering the reduction are byte - b'0'.  The multiply-and-shift reduction itself is value-level (assumed)."""
    facts = ctx.facts
    f = tfn(facts, "swar_ascii_digits_u64_le")
    sy = sym(f)
    word = ("l", 1)
    tz = [(bb, t) for bb, t in f.calls() if norm(util.cname(t)).endswith("trailing_zeros")]
    if len(tz) != 1:
        rule.bad("swar/anchor", "anchor missing: the trailing_zeros call of the digit kernel (found %d)" % len(tz), kind="anchor-missing")
        return
    bb, t = tz[0]
    m = sy.operand(t["args"][0])
    try:
        lanes = lane_eval(m, word)
    except LaneCarry as e:
        rule.bad("swar/lanes-independent", "the digit test is not a per-byte test: %s" % e, f.loc(bb))
        return
    except LaneUnsupported as e:
        rule.bad("swar/lanes-domain", "the digit test uses an operation outside the lane domain: %s" % e, f.loc(bb), kind="unmodelled-idiom")
        return
    rule.ok("no addition in the digit test carries from one byte lane into the next (all 256 byte values of every lane)", f.loc(bb))
    wrong = []
    for p in range(8):
        for bv in range(256):
            if (lanes[p][bv] == 0) != (48 <= bv <= 57):
                wrong.append((p, bv))
    rule.check(not wrong, "swar/digit-class", "a lane of the tested word is zero exactly for the input bytes '0'..='9'%s" % ("" if not wrong else " (lane %d, byte 0x%02x and %d more)" % (wrong[0][0], wrong[0][1], len(wrong) - 1)), f.loc(bb))
    # count = (trailing_zeros & !7) / 8, early exit on 0
    cnt_ok = False
    val_ok = None
    for bi, b in enumerate(f.blocks):
        for s_ in b["stmts"]:
            if s_["k"] == "assign" and s_["lhs"]["l"] == 0 and not s_["lhs"]["p"] and s_["rv"]["k"] == "agg" and len(s_["rv"]["ops"]) == 2:
                e1 = sy.operand(s_["rv"]["ops"][1])
                if e1[0] == "cast":
                    e1 = e1[2]
                if e1[0] == "bin" and e1[1] == "Div" and e1[3] == ("c", 8) and mentions(e1[2], lambda x: x[0] == "call" and x[1] == bb) and mentions(e1[2], lambda x: x == ("un", "Not", ("c", 7)) or (x[0] == "c" and isinstance(x[1], int) and x[1] & 7 == 0 and x[1] > 7)):
                    cnt_ok = True
    rule.check(cnt_ok, "swar/count", "the number of digits is (trailing_zeros & !7) / 8 of the tested word", f.loc())
    # the digits entering the reduction: the shifted operand has value byte - '0' in every digit lane
    for b2, t2 in f.calls():
        if norm(util.cname(t2)).endswith("wrapping_mul"):
            a0 = sy.operand(t2["args"][0])
            if a0[0] == "bin" and a0[1] == "Shl" and mentions(a0[3], lambda x: x[0] == "call" and x[1] == bb):
                try:
                    dl = lane_eval(a0[2], word)
                    val_ok = all(dl[p][bv] == bv - 48 for p in range(8) for bv in range(48, 58))
                except (LaneCarry, LaneUnsupported):
                    val_ok = False
    rule.check(bool(val_ok), "swar/digit-values", "the bytes entering the multiply reduction are byte - b'0' for every digit byte", f.loc())


def run(ctx):
    r1 = ctx.rule("C13-R1", "all arithmetic on the accumulated value goes through overflowing_* steps (no plain or primitive arithmetic on the generic integer)", floor=8)
    run_r1(ctx, r1)
    r1b = ctx.rule("C13-R1b", "None is returned exactly when a step overflowed or None came in (typestate; independent of how the flag is stored)", floor=6)
    run_r1b(ctx, r1b)
    r2 = ctx.rule("C13-R2", "sibling agreement of the accumulation step (x10 then +/- (byte - b'0'))", floor=14)
    run_r2(ctx, r2)
    r3 = ctx.rule("C13-R3", "scanning behaviour: digit class, +1 per digit, a lone minus is not passed over (entry offsets 0 and 1)", floor=60)
    run_r3(ctx, r3)
    r5 = ctx.rule("C13-R5", "the SWAR kernel tests exactly the digit class, lane by lane, without carries between lanes", floor=4)
    run_r5(ctx, r5)
    r4 = ctx.rule("C13-R4", "fast/cold plumbing: cold tail calls, 'all matched' constants, continuation at offset+8, checked conversions", floor=10)
    run_r4(ctx, r4)
    # R6: the scanners end a digit run at the first look-ahead answer None; that this answer means "the source ended or
    # failed" - and not "a read was interrupted" or "a refill gave up" - is the read discipline of the reader (C09-R1:
    # single read site, Interrupted retried in place, refill loops leave only on enough data or on request_more() == false)
    # R7: the digits the scanners add up are the bytes of the source: appended reads, shrinking and the observers keep the
    # window (a shrink that cuts the buffered look-ahead and refills it with zeros ends a digit run early): C02-R3/R4/R7
    from . import c02
    r7 = ctx.rule("C13-R7", "the bytes the scanners read are the bytes of the source: reads are appended to the window, shrinking keeps it, the observers index it at the cursor (shared with C02-R3/R4/R7)", floor=10)
    c02.run_r3(ctx, r7)
    c02.run_r4(ctx, r7)
    c02.run_r7(ctx, r7)
    from .c09 import run_r1 as c09_r1
    r6 = ctx.rule("C13-R6", "a None answer of the look-ahead, at which the scanners end the run, is the end of the source: Interrupted is retried inside request_more, refills give up only at the end or on an error (shared with C09-R1)", floor=8)
    c09_r1(ctx, r6)
    ctx.assume("the numeric value computed by the SWAR kernel and by the accumulation loops is not decided (value-level)")
    return "other", "overflow-flag def-use discipline, sibling agreement, exact scanning behaviour over byte classes, fast/cold plumbing", {}
