"""C11 — the buffered writer delivers exactly the written bytes, in order, once.

The histories are compositions of six methods; decided are the ordering / pairing / linear-use facts that
make "in order, once, error reported once, sink not called in between" true for every composition.
R1 who-may-call the sink, only while no error is parked, inside the panicked bracket, error never dropped
R2 no duplication: every flush clears the buffer on every path, the whole buffer is what is written
R3 byte conservation in the cold path (each part of the input is used exactly once, in order)
R4 the error is reported exactly once (take), flush = flush_defer_err then check; write/write_all cannot fail
R5 drop flushes exactly when no sink write panicked
R6 integer fast path: null test, advance by the written length, cold arm goes through the buffered path
"""
from . import util, guards, aff
from .aff import Aff, PathExec
from .cfg import cfg
from .common import norm
from .sym import sym, short, mentions
from .c10 import strip_bb

DWT = "flussab::deferred_writer::DeferredWriter"
DW = DWT + "::"
SELF = ("l", 1)


def wfn(facts, name):
    ids = [i for i in facts.fns if norm(i) == name]
    if not ids:
        from .facts import FactError
        raise FactError("anchor missing: " + name)
    return facts.fns[ids[0]]


def is_sink_call(t):
    cn = norm(t["callee"].get("res") or t["callee"].get("def") or "")
    return ("std::io" in cn and "Write" in cn) and cn.rsplit("::", 1)[-1] in ("write_all", "write", "flush", "write_vectored", "write_fmt") and "DeferredWriter" not in cn


def run_r1(ctx, rule):
    facts = ctx.facts
    sites = []
    for f in facts.fns.values():
        if f.crate in ("ext", "promoted") or not norm(f.id).startswith((DW, "<" + DWT)):
            continue
        for bb, t in f.calls():
            if is_sink_call(t):
                sites.append((f, bb, t))
    is_guard = lambda fa: fa[0] == "bool" and fa[1][0] == "call" and fa[1][3] and fa[1][3][0] == ("f", SELF, "io_error") and (fa[2] is True and norm(fa[1][2]).endswith("Option::is_none") or fa[2] is False and norm(fa[1][2]).endswith("Option::is_some"))
    seen = set()
    kinds = set()
    for f, bb, t in sites:
        nid = norm(f.id)
        cn = util.cname(t)
        m = cn.rsplit("::", 1)[-1]
        sy = sym(f)
        # only sink calls on self.write count
        recv = sy.operand(t["args"][0]) if t["args"] else None
        if recv != ("f", SELF, "write"):
            continue
        seen.add(nid)
        if m != "write_all":
            rule.bad("%s/sink-%s" % (nid, m), "the sink is driven through %s: only write_all (which retries short writes) delivers every byte" % m, f.loc(bb))
            continue
        # what is handed to the sink: the whole internal buffer (a flush) or a slice parameter (a direct write)
        arg = strip_bb(sy.operand(t["args"][1]))
        if mentions(arg, lambda x: x == ("f", SELF, "buf")):
            kinds.add("flush")
        elif arg[0] == "l" and 2 <= arg[1] <= f.argc:
            kinds.add("direct")
        else:
            rule.bad("%s/sink-data" % short(nid), "the sink receives neither the internal buffer nor the caller's slice (%s)" % sy.show(arg)[:60], f.loc(bb))
        g = guards.holds(f, bb, is_guard)
        how = guards.show_fact(f, g[1]) if g else None
        if not g and not f.j.get("pub"):
            # a private helper: the guard may sit at every one of its call sites
            callers = [(f2, b2) for f2 in facts.fns.values() if f2.crate not in ("ext", "promoted") for b2, t2 in f2.calls() if norm(util.cname(t2)) == nid]
            if callers and all(guards.holds(f2, b2, is_guard) for f2, b2 in callers):
                g = True
                how = "guarded at all %d call sites of the private helper" % len(callers)
        rule.check(bool(g), "%s/sink-while-error-parked" % short(nid), "the sink is only called while no error is parked (%s)" % (how or "no dominating io_error.is_none()"), f.loc(bb))
        # the Err of the sink call is stored into io_error
        stored = False
        for f2, bi, si, name in util.field_stores(facts, DWT):
            if f2 is f and name == "io_error" and si is not None:
                e = sy.rvalue(f.blocks[bi]["stmts"][si]["rv"])
                if mentions(e, lambda x: x[0] == "v" and x[2] == "Err" and x[1][0] == "call" and x[1][1] == bb):
                    stored = True
                # `self.io_error = sink_call(..).err()` (only reached while io_error is None: the guard above)
                if e[0] == "call" and norm(e[2]).endswith("Result::err") and len(e[3]) == 1 and e[3][0][0] == "call" and e[3][0][1] == bb:
                    stored = True
            elif f2 is f and name == "io_error" and si is None:
                # `self.io_error = sink_call(..).err()` (only reached while io_error is None: the guard above)
                t2 = f.term(bi)
                if norm(util.cname(t2)).endswith("Result::err") and t2["args"]:
                    a = sy.operand(t2["args"][0])
                    if a[0] == "call" and a[1] == bb:
                        stored = True
        rule.check(stored, "%s/sink-error-parked" % short(nid), "the error of the sink call is parked in io_error", f.loc(bb))
    rule.check(kinds == {"flush", "direct"} and len(seen) >= 2, "sink/sites", "the sink is written to by a flush of the whole buffer and by the direct write of an oversized slice, and by nothing else (found %s in %s)" % (sorted(kinds), sorted(short(x) for x in seen)))
    # io_error stores: only from a sink error, or take()
    for f2, bi, si, name in util.field_stores(facts, DWT):
        if name == "panicked":
            continue


def run_r2(ctx, rule):
    facts = ctx.facts
    f = wfn(facts, DW + "flush_defer_err")
    c = cfg(f)
    sy = sym(f)
    clears = [bb for bb, t in f.calls() if util.cname(t).endswith("Vec::clear") and strip_bb(sy.operand(t["args"][0])) == ("f", SELF, "buf")]
    # every path from the entry to a return passes a clear(): without the clearing blocks no return is reachable
    ok = bool(clears) and not (set(c.exits) & c.reachable_from(0, avoid=clears))
    rule.check(ok, "flush_defer_err/clears", "flush_defer_err clears the buffer on every path (also while an error is parked or after a failed write)", f.loc(clears[0]) if clears else f.loc())
    for bb, t in f.calls():
        if is_sink_call(t):
            arg = strip_bb(sy.operand(t["args"][1]))
            whole = arg == ("call", 0, "<alloc::vec::Vec<T, A> as core::ops::deref::Deref>::deref", (("f", SELF, "buf"),)) or arg == ("f", SELF, "buf")
            rule.check(whole, "flush_defer_err/whole-buffer", "the whole buffer is handed to the sink (got %s)" % sy.show(sy.operand(t["args"][1])), f.loc(bb))
            # nothing appends to buf between the sink call and the clear
            between = c.reachable_from(t["target"]) if t["target"] is not None else set()
            grows = [b2 for b2, t2 in f.calls() if b2 in between and util.cname(t2).rsplit("::", 1)[-1] in ("push", "extend_from_slice", "set_len", "resize") ]
            rule.check(not grows, "flush_defer_err/no-append-before-clear", "nothing is appended between the sink call and the clear", f.loc(bb))


def slice_consumers(facts):
    """private DeferredWriter helpers taking (self, slice) that hand their slice to the buffer or the sink exactly once
    on every returning path (or drop it on the parked-error branch): calling one is a use of the argument"""
    out = {}
    for i, g in facts.fns.items():
        nid = norm(i)
        if g.crate in ("ext", "promoted") or not nid.startswith(DW) or g.j.get("pub") or g.argc != 2 or nid == DW + "write_all_defer_err_cold":
            continue
        if "[u8]" not in g.locals[2].get("s", ""):
            continue
        good = True
        n = 0
        kinds = set()
        try:
            for p, cut in cfg(g).paths():
                if g.term(p[-1])["k"] != "return":
                    continue
                n += 1
                st = PathExec(facts, g).run_path(p)
                calls = [(e[2][0], e[2][1]) for e in st.events if e[0] == "call"]
                uses = [a for cn, a in calls if (cn.endswith("extend_from_slice") or (cn.endswith("::write_all") and "io" in cn)) and len(a) > 1 and a[1] == Aff.sym("arg2")]
                kinds |= set("buffer" if cn.endswith("extend_from_slice") else "sink" for cn, a in calls if (cn.endswith("extend_from_slice") or (cn.endswith("::write_all") and "io" in cn)) and len(a) > 1 and a[1] == Aff.sym("arg2"))
                other = [cn for cn, a in calls if (cn.endswith("extend_from_slice") or (cn.endswith("::write_all") and "io" in cn)) and not (len(a) > 1 and a[1] == Aff.sym("arg2"))]
                skipped = any(e[0] == "branch" and isinstance(e[2][0], Aff) and e[2][1] == ("eq", 0) for e in st.events)
                if other or not (len(uses) == 1 or (len(uses) == 0 and skipped)):
                    good = False
        except Exception:
            good = False
        if good and n:
            out[nid] = kinds
    return out


def run_r3(ctx, rule):
    facts = ctx.facts
    f = wfn(facts, DW + "write_all_defer_err_cold")
    consumers = slice_consumers(facts)
    rule.note("slice_consuming_helpers", sorted(short(x) for x in consumers))
    n_paths = 0
    for p, cut in cfg(f).paths():
        if f.term(p[-1])["k"] != "return":
            continue
        n_paths += 1
        st = PathExec(facts, f).run_path(p)
        calls = [(e[1], e[2][0], e[2][1]) for e in st.events if e[0] == "call"]
        inp = Aff.sym("arg2")
        split = [(bb, a) for bb, cn, a in calls if cn.endswith("split_at")]
        uses = []
        flush_at = None
        for i, (bb, cn, a) in enumerate(calls):
            if cn == DW + "flush_defer_err":
                flush_at = i
            if cn.endswith("extend_from_slice") or (cn.endswith("::write_all") and "io" in cn) or norm(cn) in consumers:
                uses.append((i, bb, cn, a[1] if len(a) > 1 else None))
        key = "cold/path-%s" % ("split" if split else "nosplit")
        if flush_at is None:
            rule.bad(key + "/no-flush", "a path of the cold write does not flush", f.loc(p[-1]))
            continue
        skipped_ok = any(e[0] == "branch" and isinstance(e[2][0], Aff) and e[2][1] == ("eq", 0) for e in st.events)  # io_error parked branch
        if split:
            sbb, sargs = split[0]
            first = Aff.sym("call@%d.0" % sbb)
            second = Aff.sym("call@%d.1" % sbb)
            rule.check(sargs[0] == inp and len(split) == 1, key + "/split-once", "the input is split once", f.loc(sbb))
            # the split amount is capacity - len
            amt = sargs[1]
            names = {("call@%d" % bb): cn for bb, cn, a in calls}
            okamt = isinstance(amt, Aff) and amt.c == 0 and sorted(amt.t.values()) == [-1, 1] and all(s in names for s in amt.t) and \
                [names[s] for s, k in amt.t.items() if k == 1][0].endswith("Vec::capacity") and [names[s] for s, k in amt.t.items() if k == -1][0].endswith("Vec::len")
            rule.check(okamt, key + "/split-amount", "the first part fills the buffer exactly to its capacity (capacity - len) [%s]" % (amt,), f.loc(sbb))
            u_first = [u for u in uses if u[3] == first]
            u_second = [u for u in uses if u[3] == second]
            u_inp = [u for u in uses if u[3] == inp]
            rule.check(len(u_first) == 1 and u_first[0][0] < flush_at and (u_first[0][2].endswith("extend_from_slice") or consumers.get(norm(u_first[0][2])) == {"buffer"}), key + "/first-part", "the first part is buffered exactly once, before the flush", f.loc(sbb))
            rule.check((len(u_second) == 1 and u_second[0][0] > flush_at) or (len(u_second) == 0 and skipped_ok), key + "/second-part", "the second part is buffered or written exactly once, after the flush (or discarded under a parked error)", f.loc(sbb))
            rule.check(not u_inp, key + "/no-reuse", "the unsplit input is not used again after the split", f.loc(sbb))
        else:
            u_inp = [u for u in uses if u[3] == inp]
            rule.check((len(u_inp) == 1 and u_inp[0][0] > flush_at) or (len(u_inp) == 0 and skipped_ok), key + "/whole", "the input is buffered or written exactly once, after the flush (or discarded under a parked error)", f.loc(p[-1]))
        others = [u for u in uses if u[3] is None or (isinstance(u[3], Aff) and not (u[3] == inp or (split and u[3] in (first, second))))]
        rule.check(not others, key + "/foreign-bytes", "nothing else is appended or written", f.loc(p[-1]))
    if n_paths < 4:
        rule.bad("cold/paths", "fewer returning paths than expected in write_all_defer_err_cold (%d)" % n_paths, kind="anchor-missing")
    # the fast path defers to the cold path exactly when the data does not fit
    hf = wfn(facts, DW + "write_all_defer_err")
    sy = sym(hf)
    for bb, t in hf.calls():
        if norm(util.cname(t)) == DW + "write_all_defer_err_cold":
            g = guards.holds(hf, bb, lambda fa: guards.cmp_matches(fa, "Gt", lambda x: x[0] == "bin" and x[1] == "Add", lambda x: x[0] == "call" and norm(x[2]).endswith("Vec::capacity")))
            rule.check(bool(g), "fast/cold-guard", "the cold path is taken exactly when len + n > capacity", hf.loc(bb))
            rule.check(sy.operand(t["args"][1]) == ("l", 2) or strip_bb(sy.operand(t["args"][1])) == ("l", 2), "fast/cold-arg", "the cold path receives the unmodified input", hf.loc(bb))


def run_r4(ctx, rule):
    facts = ctx.facts
    f = wfn(facts, DW + "check_io_error")
    sy = sym(f)
    takes = [bb for bb, t in f.calls() if util.cname(t).endswith("Option::take") and sy.operand(t["args"][0]) == ("f", SELF, "io_error")]
    rule.check(len(takes) == 1, "check_io_error/take", "check_io_error moves the error out with Option::take (reported exactly once)", f.loc())
    # readers of io_error: only is_none tests and the take
    for f2 in facts.fns.values():
        if f2.crate in ("ext", "promoted"):
            continue
        sy2 = sym(f2)
        for bb, t in f2.calls():
            for a in t["args"]:
                e = sy2.operand(a)
                if e == ("f", SELF, "io_error") and norm(f2.id).startswith((DW, "<" + DWT)):
                    cn = util.cname(t).rsplit("::", 1)[-1]
                    rule.check(cn in ("is_none", "is_some", "take"), "%s/io_error-use-%s" % (norm(f2.id), cn), "io_error is only tested with is_none/is_some or taken (%s in %s)" % (cn, short(f2.id)), f2.loc(bb))
    # Write::flush = flush_defer_err ; check_io_error
    ff = wfn(facts, "<" + DWT + " as std::io::Write>::flush")
    order = [norm(util.cname(t)) for bb, t in sorted(ff.calls())]
    rule.check(order == [DW + "flush_defer_err", DW + "check_io_error"], "Write::flush/order", "Write::flush flushes, then reports the parked error (calls: %s)" % [short(o) for o in order], ff.loc())
    sy3 = sym(ff)
    # its return value is the check's result
    for m, want in (("write", "Ok"), ("write_all", "Ok")):
        fw = wfn(facts, "<" + DWT + " as std::io::Write>::" + m)
        aggs = [rv for f3, bi, si, rv in util.aggregates(facts, lambda a: a == "core::result::Result") if f3 is fw]
        rule.check(bool(aggs) and all(rv["variant"] == "Ok" for rv in aggs), "Write::%s/never-fails" % m, "Write::%s always returns Ok" % m, fw.loc())
        calls = [norm(util.cname(t)) for bb, t in fw.calls()]
        rule.check(DW + "write_all_defer_err" in calls, "Write::%s/delegates" % m, "Write::%s buffers through write_all_defer_err" % m, fw.loc())
        # ... the *whole* input: the integer slow path formats through itoap::write, which calls Write::write once and
        # does not look at the count, so a short write would silently drop digits
        sw = sym(fw)
        whole = [bb for bb, t in fw.calls() if norm(util.cname(t)) == DW + "write_all_defer_err" and strip_bb(sw.operand(t["args"][1])) == ("l", 2)]
        rule.check(bool(whole) and len(whole) == len([1 for c2 in calls if c2 == DW + "write_all_defer_err"]), "Write::%s/whole-input" % m, "Write::%s hands its whole input slice to write_all_defer_err (never a short write)" % m, fw.loc())
        if m == "write":
            okc = False
            for rv in aggs:
                e = sw.operand(rv["ops"][0]) if rv["ops"] else None
                if e and e[0] == "call" and norm(e[2]).endswith("len") and strip_bb(e[3][0]) == ("l", 2):
                    okc = True
            rule.check(okc, "Write::write/count", "Write::write reports the length of its whole input as written", fw.loc())


def run_r5(ctx, rule):
    facts = ctx.facts
    f = wfn(facts, "<" + DWT + " as core::ops::drop::Drop>::drop")
    fl = [bb for bb, t in f.calls() if norm(util.cname(t)) == DW + "flush_defer_err"]
    ok = len(fl) == 1 and bool(guards.holds(f, fl[0], lambda fa: fa[0] == "bool" and fa[2] is False and fa[1] == ("f", SELF, "panicked")))
    rule.check(ok, "drop/flush-unless-panicked", "drop flushes exactly on the false edge of `panicked`", f.loc())
    c = cfg(f)
    # and on the true edge it does nothing with the sink
    rule.check(len([1 for bb, t in f.calls()]) == 1, "drop/no-other-calls", "drop performs no other call", f.loc())


def run_r6(ctx, rule):
    facts = ctx.facts
    f = wfn(facts, "flussab::write::text::ascii_digits")
    sy = sym(f)
    cold = [bb for bb, t in f.calls() if norm(util.cname(t)) == "flussab::write::text::ascii_digits_cold"]
    ok = bool(cold) and bool(guards.holds(f, cold[0], lambda fa: fa[0] == "bool" and fa[2] is True and fa[1][0] == "call" and norm(fa[1][2]).endswith("is_null")))
    rule.check(ok, "ascii_digits/cold-on-null", "the buffered (cold) path is taken exactly when buf_write_ptr returned null", f.loc())
    # both paths format the caller's value itself: the fast path hands `value` to itoap::write_to_ptr, the cold path to
    # ascii_digits_cold, unchanged (a conversion to a common wider type on the way changes what is written for the
    # values that do not fit it)
    for bb in cold:
        t = f.term(bb)
        args = [strip_bb(sy.operand(a)) for a in t["args"]]
        rule.check(args == [("l", 1), ("l", 2)], "ascii_digits/cold-arguments", "the cold path receives the writer and the value unchanged (got %s)" % ", ".join(sy.show(sy.operand(a))[:40] for a in t["args"]), f.loc(bb))
    for bb, t in f.calls():
        if norm(util.cname(t)).endswith("itoap::write_to_ptr"):
            a = strip_bb(sy.operand(t["args"][1])) if len(t["args"]) > 1 else None
            rule.check(a == ("l", 2), "ascii_digits/fast-argument", "the fast path formats the value unchanged", f.loc(bb))
    from .c14 import inventory, check_op
    for f2, bi, si, kind, t in inventory(facts):
        if f2 is f:
            res = check_op(facts, f2, bi, si, kind, t)
            rule.check(bool(res and res[0]), "ascii_digits/%s" % short(kind), "%s in the integer fast path: %s" % (short(kind), res[1] if res else "unknown class"), f2.loc(bi))
    fc = wfn(facts, "flussab::write::text::ascii_digits_cold")
    calls = [norm(util.cname(t)) for bb, t in fc.calls()]
    rule.check(calls == ["itoap::write"], "ascii_digits_cold/itoap-write", "the cold path formats through itoap::write into the writer's Write impl (calls %s)" % calls, fc.loc())
    fb = wfn(facts, DW + "buf_write_ptr")
    syb = sym(fb)
    c = cfg(fb)
    # null is returned on the false edge, the pointer on the true edge of len + n <= capacity
    nulls = [bb for bb, t in fb.calls() if util.cname(t).endswith("ptr::null_mut")]
    adds = [bb for bb, t in fb.calls() if util.cname(t).endswith("mut_ptr::add")]
    g_add = adds and guards.holds(fb, adds[0], lambda fa: guards.cmp_matches(fa, "Le", lambda x: x[0] == "bin" and x[1] == "Add" and ("l", 2) in (x[2], x[3]), lambda x: x[0] == "call" and norm(x[2]).endswith("Vec::capacity")))
    g_null = nulls and guards.holds(fb, nulls[0], lambda fa: guards.cmp_matches(fa, "Gt", lambda x: x[0] == "bin" and x[1] == "Add" and ("l", 2) in (x[2], x[3]), lambda x: x[0] == "call" and norm(x[2]).endswith("Vec::capacity")))
    rule.check(bool(g_add) and bool(g_null), "buf_write_ptr/guard", "buf_write_ptr(len) returns a pointer only when len + buf.len() <= capacity, null otherwise", fb.loc())
    # advance_unchecked: set_len(old_len + len)
    fa_ = wfn(facts, DW + "advance_unchecked")
    sya = sym(fa_)
    sl = [(bb, t) for bb, t in fa_.calls() if util.cname(t).endswith("Vec::set_len")]
    ok = len(sl) == 1 and strip_bb(sya.operand(sl[0][1]["args"][1])) == ("bin", "Add", ("call", 0, "alloc::vec::Vec::len", (("f", SELF, "buf"),)), ("l", 2))
    rule.check(ok, "advance_unchecked/set_len", "advance_unchecked(len) sets the length to buf.len() + len", fa_.loc())


def run_r8(ctx, rule):
    """`check_io_error` and `Write::flush` move the parked error out; whoever calls them owns the only copy.  Every call
    site in the workspace must do something with the answer (`?`, return it, match it, unwrap it): an answer that is
    assigned and never looked at (`let _ = self.flush()`) makes the failure disappear - it is reported zero times and
    the sink is driven again afterwards."""
    from .c01 import uses_of
    facts = ctx.facts
    takers = (DW + "check_io_error", "<" + DWT + " as std::io::Write>::flush")
    n = 0
    for f, bb, t in util.calls_to(facts, lambda x: x in takers):
        if f.crate in ("ext", "promoted"):
            continue
        n += 1
        d = t["dest"]
        key = "%s/%s-answer-used" % (norm(f.id), norm(util.cname(t)).rsplit("::", 1)[-1])
        if d["p"]:
            rule.ok("answer stored into a place of the caller (%s)" % short(f.id), f.loc(bb))
            continue
        used = d["l"] == 0 or util.result_propagated(facts, f, bb) or bool(uses_of(f, d["l"]))
        # a writer the function itself built on a `Vec<u8>` has a sink that cannot fail: there is no error to lose
        for b2, t2 in f.calls():
            if norm(util.cname(t2)) == DW + "from_write" and t2["args"]:
                p2 = t2["args"][0].get("mv") or t2["args"][0].get("cp")
                if p2 is not None and f.locals[p2["l"]].get("s", "").replace(" ", "") in ("&mutalloc::vec::Vec<u8>", "&mutstd::vec::Vec<u8>"):
                    used = True
        if not used:
            # discriminant reads / switches on the answer
            for b in f.blocks:
                if b["cleanup"]:
                    continue
                for s_ in b["stmts"]:
                    if s_["k"] == "assign" and s_["rv"]["k"] == "discr" and s_["rv"]["p"]["l"] == d["l"]:
                        used = True
        rule.check(used, key, "the answer of %s in %s is handed on or examined, not dropped (it carries the only copy of the sink's error)" % (short(util.cname(t)), short(f.id)), f.loc(bb))
    if n < 2:
        rule.bad("takers/sites", "only %d call sites of check_io_error / Write::flush on the writer (2 confirmed by hand: Write::flush itself, Display for btor2::Line)" % n, kind="anchor-missing")
    # the silent flush is for the places that cannot report: the cold write path, Write::flush (which reports right after), drop
    allowed = (DW + "write_all_defer_err_cold", "<" + DWT + " as std::io::Write>::flush", "<" + DWT + " as core::ops::drop::Drop>::drop", DW + "flush_defer_err")
    for f, bb, t in util.calls_to(facts, lambda x: x == DW + "flush_defer_err"):
        if f.crate in ("ext", "promoted"):
            continue
        nid = norm(f.id).split("::{closure")[0]
        rule.check(nid in allowed, "%s/calls-flush_defer_err" % nid, "the buffer is flushed from the cold write path, Write::flush and drop only (%s)" % short(nid), f.loc(bb))


def run_r9(ctx, rule):
    """`buf_write_ptr(len)` hands out a pointer when `old_len + len <= capacity`; `advance_unchecked(n)` is then called with
    n <= len.  Its debug assertion must not be stronger than that contract: an assertion that fails for an advance
    that fills the buffer exactly (`<` for `<=`) panics inside `ascii_digits` in every build with debug assertions.
    Decided by affine path execution: every condition of advance_unchecked whose failure reaches a panic is implied
    by len(buf) + n <= capacity(buf); and the new length it sets is len(buf) + n."""
    from .aff import PathExec, Aff
    facts = ctx.facts
    f = wfn(facts, DW + "advance_unchecked")
    c = cfg(f)
    npan = 0
    okset = False
    for p, cut in c.paths(limit=200):
        ex = PathExec(facts, f)
        st = ex.run_path(p)
        if st.infeasible:
            continue
        L = K = None
        for e in st.events:
            if e[0] == "call":
                m = e[2][0].rsplit("::", 1)[-1]
                if m == "len" and "Vec" in e[2][0] and L is None:
                    L = Aff.sym("call@%d" % e[1])
                if m == "capacity" and "Vec" in e[2][0] and K is None:
                    K = Aff.sym("call@%d" % e[1])
        last = f.term(p[-1])
        ends_in_panic = last["k"] == "call" and norm(util.cname(last)).startswith("core::panicking")
        if ends_in_panic and not any(e[0] == "assert" for e in st.events[-1:]):
            # the branch that led here
            br = [e for e in st.events if e[0] == "branch" and isinstance(e[2][0], tuple) and e[2][0][0] == "cmp"]
            if not br or L is None:
                rule.bad("advance_unchecked/assertion-form", "an assertion of advance_unchecked could not be read as a comparison of linear forms", f.loc(p[-1]), kind="unmodelled-idiom")
                continue
            npan += 1
            d, taken = br[-1][2]
            op, x, y = d[1], d[2], d[3]
            holds_when = taken == ("eq", 0)  # the panic is on the false edge: the assertion is `x op y`
            n = Aff.sym("arg2")
            ok = False
            if isinstance(x, Aff) and isinstance(y, Aff) and K is not None and holds_when:
                contract = L + n - K  # <= 0
                lhs = {"Le": x - y, "Lt": x - y + Aff(1), "Ge": y - x, "Gt": y - x + Aff(1)}.get(op)
                if lhs is not None:
                    diff = lhs - contract
                    ok = diff.is_const() and diff.c <= 0
            rule.check(ok, "advance_unchecked/assertion-not-stronger-than-contract", "the debug assertion of advance_unchecked holds whenever old_len + n <= capacity (what buf_write_ptr established), also when the advance fills the buffer exactly  [%s %s %s]" % (x, op, y), f.loc(p[-1]))
        if last["k"] == "return":
            for e in st.events:
                if e[0] == "call" and e[2][0].endswith("Vec::set_len") and L is not None and len(e[2][1]) > 1:
                    okset = e[2][1][1] == L + Aff.sym("arg2")
    rule.check(okset, "advance_unchecked/new-length", "advance_unchecked(n) sets the length to old_len + n", f.loc())
    if npan == 0:
        rule.note("debug_assertions", "no assertion with a panic edge in this configuration")


def run(ctx):
    r1 = ctx.rule("C11-R1", "the sink receives only the whole buffer (flush) or the caller's oversized slice (direct), through write_all, only while no error is parked, and its error is parked", floor=5)
    run_r1(ctx, r1)
    r2 = ctx.rule("C11-R2", "every flush clears the buffer; the whole buffer is written; nothing is appended in between", floor=3)
    run_r2(ctx, r2)
    r3 = ctx.rule("C11-R3", "cold path byte conservation: each part of the input is buffered or written exactly once, in order", floor=12)
    run_r3(ctx, r3)
    r4 = ctx.rule("C11-R4", "the error is taken exactly once; Write::flush = flush then check; write/write_all never fail", floor=8)
    run_r4(ctx, r4)
    r5 = ctx.rule("C11-R5", "drop flushes exactly when no sink write panicked", floor=2)
    run_r5(ctx, r5)
    r6 = ctx.rule("C11-R6", "integer fast path: pointer only with reserved space, advance by the written length, cold arm through the buffered path", floor=6)
    run_r6(ctx, r6)
    r9 = ctx.rule("C11-R9", "advance_unchecked: its debug assertion is implied by the contract buf_write_ptr establishes (old_len + n <= capacity), and it sets the length to old_len + n", floor=1)
    run_r9(ctx, r9)
    r8 = ctx.rule("C11-R8", "the answer of every call that takes the parked error out (check_io_error, Write::flush) is handed on or examined, never dropped; silent flushes only from the cold write path, Write::flush and drop", floor=5)
    run_r8(ctx, r8)
    from .c14 import run_r3 as c14_r3
    r7 = ctx.rule("C11-R7", "the sink calls are bracketed by the panicked flag (shared with C14-R3)", floor=2)
    c14_r3(ctx, r7, writer_only=True)
    ctx.assume("canonical decimal text is itoap's contract; short writes / Interrupted are handled by std's Write::write_all")
    return "other", "ordering, pairing and linear-use facts of the writer's six methods decided on all paths", {}
