"""C08 — syntax errors point at the offending token.

The location is computed from hand-maintained state (cursor, mark, line/line_start); the rules decide how
that state is maintained on every path to an error:
R1 mark discipline (typestate, all API roots): `mark()` is only read after `set_mark()` on the current line.
R2 line-start discipline (path rule per function): after `line_at_offset(k)`, k != 0, the cursor is advanced
   over at least k bytes before any error can be raised or the function returns.
R3 every consumed newline is counted: a path that matches LF and advances passes `line_at_offset`.
R4 errors are raised at the cursor (`give_up`) or at the mark (`give_up_at(reader.mark(), ..)`) only.
R5 the mark survives refills: decided by C02-R2 (mark law), referenced here.
"""
import re
from . import absint as A
from .absint import Engine, Auto, TOP
from .common import norm
from .cfg import cfg
from .sym import sym, short, mentions
from . import util, cg, scan
from .c04 import api_roots, takes_reader, FORMAT_CRATES

DR = A.DR
LR = A.LR
GIVEUPS = (LR + "give_up", LR + "give_up_at", LR + "give_up_at_cold")


class MarkAuto(Auto):
    name = "mark"

    def __init__(self):
        self.viol = {}
        self.eng = None
        self.n_get = 0
        self.n_set = 0

    def initial(self):
        return "U"

    def event(self, state, ev, where):
        if ev[0] != "prim":
            return state
        if ev[1] == "set_mark":
            self.n_set += 1
            return "S0"
        if ev[1] == "line_at_offset":
            return "U"
        if ev[1] == "advance" and state in ("S0", "S1"):
            # S1: the marked token itself was consumed; S2: a further token was consumed, the mark is stale
            return "S1" if state == "S0" else "S2"
        if ev[1] == "mark":
            self.n_get += 1
            if state in ("U", "S2"):
                fn = where[1]
                key = norm(fn.id)
                if key not in self.viol:
                    chain = [short(self.eng.facts.inst[k]["def"]) for k in self.eng.stack] if self.eng else []
                    why = "no set_mark() happened on the current line" if state == "U" else "another token was consumed since set_mark() (stale mark)"
                    self.viol[key] = (fn.loc(where[2]), chain, why)
        return state


def run_r1(ctx, rule):
    facts = ctx.facts
    auto = MarkAuto()
    eng = Engine(facts, auto)
    auto.eng = eng
    roots = [(r, fn) for r, fn in api_roots(facts) if takes_reader(fn)]
    # every static mark() call site is an obligation
    sites = list(util.calls_to(facts, lambda n: n == DR + "mark"))
    sites = [(f, bb, t) for f, bb, t in sites if f.crate in FORMAT_CRATES]
    for r, fn in sorted(roots, key=lambda x: x[1].id):
        try:
            eng.summary(r, "U", tuple(TOP for _ in range(fn.argc)))
        except (A.Recursion, A.Imprecise) as e:
            rule.bad("%s/engine" % norm(fn.id), "analysis failed: %r" % e, fn.loc(), kind="unmodelled-idiom")
    reached = set()
    for k in eng.stats["instances"]:
        reached.add(facts.inst[k]["def"])
    for f, bb, t in sites:
        nid = norm(f.id)
        if f.id not in reached:
            rule.bad("%s/unreached" % nid, "mark() call site in %s is not reachable from any API root (cannot be decided)" % short(nid), f.loc(bb), kind="unmodelled-idiom")
            continue
        if nid in auto.viol:
            loc, chain, why = auto.viol[nid]
            rule.bad(
                "%s/mark-unset" % nid,
                "%s reads the mark although %s on some path from an API root" % (short(nid), why),
                loc,
                path=["call chain: " + " -> ".join(chain)],
            )
        else:
            rule.ok("mark() in %s is reached only after set_mark() on the current line, on every path from every API root" % short(nid), f.loc(bb))
    rule.note("set_mark_events", auto.n_set)
    rule.note("mark_events", auto.n_get)
    rule.note("roots", len(roots))
    n_set_sites = len([1 for f, bb, t in util.calls_to(facts, lambda n: n in (DR + "set_mark", DR + "set_mark_to_position")) if f.crate in FORMAT_CRATES])
    rule.note("set_mark_call_sites", n_set_sites)


# ---- R2 -----------------------------------------------------------------------------------------
def giveup_reaching(facts):
    """defs from which a give_up* call is reachable (def level, closures included)"""
    callers = {}
    for f in facts.fns.values():
        outs = set(d for _, d in cg.def_callees(facts, f))
        for b in f.blocks:
            for s in b["stmts"]:
                if s["k"] == "assign" and s["rv"]["k"] == "agg" and s["rv"].get("ak") == "closure":
                    outs.add(s["rv"]["closure"])
        for o in outs:
            callers.setdefault(norm(o), set()).add(f.id)
    seen = set()
    st = [g for g in GIVEUPS]
    res = set()
    while st:
        x = st.pop()
        if x in seen:
            continue
        seen.add(x)
        for c in callers.get(x, ()):
            res.add(c)
            st.append(norm(c))
    return res, seen


def affine1(e):
    """e as (var_local, delta) if e = var + const, (None, c) for a constant, else None"""
    if e[0] == "l":
        return (e[1], 0)
    if e[0] == "c" and isinstance(e[1], int):
        return (None, e[1])
    if e[0] == "bin" and e[1] == "Add":
        a, b = affine1(e[2]), affine1(e[3])
        if a and b:
            if a[0] is None:
                return (b[0], a[1] + b[1])
            if b[0] is None:
                return (a[0], a[1] + b[1])
    return None


def covers(n, k, kaff):
    """does advancing by expression n cover offset k?"""
    if n == k:
        return True
    # tabs_or_spaces(reader, k) >= k  (C16)
    if n[0] == "call" and norm(n[2]) == "flussab::text::tabs_or_spaces" and len(n[3]) > 1 and covers(n[3][1], k, kaff):
        return True
    na = affine1(n)
    if na and kaff and na[0] == kaff[0] and na[1] >= kaff[1]:
        return True
    return False


def run_r2(ctx, rule):
    facts = ctx.facts
    reach_defs, reach_norm = giveup_reaching(facts)
    nsites = 0
    for f, bb, t in util.calls_to(facts, lambda n: n == LR + "line_at_offset"):
        if f.crate in ("ext", "promoted"):
            continue
        sy = sym(f)
        k = sy.operand(t["args"][1])
        nsites += 1
        nid = norm(f.id)
        if k == ("c", 0):
            rule.ok("line_at_offset(0) in %s: line start at the cursor" % short(nid), f.loc(bb), "constant 0")
            continue
        kaff = affine1(k)
        c = cfg(f)
        # forward exploration from the call's successor
        start = t["target"]
        bad = None
        seen = set()
        work = [(start, kaff, k)]
        while work and bad is None:
            b, ka, ke = work.pop()
            key = (b, ka, ke if ka is None else None)
            if key in seen:
                continue
            seen.add(key)
            blk = f.blocks[b]
            covered = False
            # statements: assignments to the variable of the affine form shift delta
            for s in blk["stmts"]:
                if s["k"] == "assign" and not s["lhs"]["p"] and ka and ka[0] == s["lhs"]["l"]:
                    e = sy.rvalue(s["rv"])
                    ea = affine1(e)
                    if ea and ea[0] == ka[0]:
                        ka = (ka[0], max(ka[1] - ea[1], 0))
                    else:
                        ka = None
                        ke = ("c?", "lost")
            tt = blk["term"]
            if tt["k"] == "call":
                cn = util.cname(tt)
                if cn in (DR + "advance", DR + "advance_with_buf", DR + "advance_unchecked"):
                    n = sy.operand(tt["args"][1])
                    if covers(n, ke, ka):
                        covered = True
                    # an advance that does not cover k does not discharge; keep looking
                else:
                    reaching = cn in reach_norm or cn in GIVEUPS
                    if not reaching:
                        for a in tt["args"]:
                            p = a.get("mv") or a.get("cp")
                            if p and not p["p"] and "closure" in f.locals[p["l"]]:
                                if f.locals[p["l"]]["closure"] in reach_defs or norm(f.locals[p["l"]]["closure"]) in reach_norm:
                                    reaching = True
                    if reaching:
                        bad = ("an error can be raised (%s) while line_start is ahead of the cursor" % short(cn), b)
                        break
                    if cn == LR + "line_at_offset":
                        # a new line start replaces the pending one (its own obligation is checked separately)
                        covered = True
            elif tt["k"] == "return":
                bad = ("the function returns with line_start ahead of the cursor", b)
                break
            if covered:
                continue
            for s2 in c.succ[b]:
                work.append((s2, ka, ke))
        what = "after line_at_offset(%s) in %s the cursor is advanced over those bytes before an error or return" % (sy.show(k), short(nid))
        if bad is None:
            rule.ok(what, f.loc(bb))
        else:
            rule.bad("%s/line_at_offset/%s" % (nid, sy.show(k).replace(" ", "")), "%s: %s" % (short(nid), bad[0]), f.loc(bad[1]), path=["line_at_offset at " + f.loc(bb), "offending point at " + f.loc(bad[1])])
    rule.note("line_at_offset_sites", nsites)


# ---- R3 -----------------------------------------------------------------------------------------
R3_EXEMPT = {
    "flussab_aiger::token::remaining_file_content": "consumes to the end of the input; on success nothing can be reported afterwards, on failure it counts lines itself (store to LineReader.line)",
    "flussab_aiger::token::binary_uint": "binary section: bytes are not text, a 0x0a byte is not a line end",
}


def token_fns(facts):
    out = []
    for f in facts.fns.values():
        if f.kind == "Closure" or f.crate in ("ext", "promoted"):
            continue
        nid = norm(f.id)
        if "::token::" in nid and f.crate in FORMAT_CRATES:
            out.append(f)
    return out


class LfAuto(Auto):
    """R3: (pending, consumed).  pending = where a byte matched as LF sits relative to the cursor:
    ("num", k) exact offset, ("var", fn, local) = at the offset held by that variable; consumed = an
    advance passed over it and no line_at_offset happened yet."""

    name = "lf-count"

    def __init__(self):
        self.viol = {}
        self.eng = None

    def initial(self):
        return (None, False)

    def _flag(self, where, why):
        fn = where[1]
        key = norm(fn.id)
        if key not in self.viol:
            chain = [short(self.eng.facts.inst[k]["def"]) for k in self.eng.stack] if self.eng else []
            self.viol[key] = (fn.loc(where[2]), chain, why)

    def event(self, state, ev, where):
        pending, consumed = state
        if ev[0] == "narrow" and ev[1] == "look":
            names = dict(ev[2][2])
            if set(names) == {"Some"} and names["Some"] is not None and names["Some"][0] == "byte" and names["Some"][1] == (1 << 10):
                if consumed == "maybe":
                    consumed = False  # (an unknown earlier advance: a line feed seen ahead of the cursor now is a new one)
                tag = ev[3] if len(ev) > 3 else "look"
                if "@" in tag:
                    k = int(tag.split("@")[1])
                    if k >= 1000:
                        return (("var", where[1].id, k - 1000), consumed)
                    return (("num", k), consumed)
                return (("unk",), consumed)
            return state
        if ev[0] != "prim":
            return state
        name = ev[1]
        if name == "line_at_offset":
            # counting the line *after* the cursor moved over the line feed is only right when the cursor stands
            # directly behind it and the new line is said to start at the cursor (`advance(1); line_at_offset(0)`)
            if consumed in ("inexact", "maybe"):
                self._flag(where, "the line start is set after the cursor moved past the line feed by more than the line feed itself (the column of everything on the next line is off by the skipped bytes)")
            elif consumed is True:
                a = ev[2][1] if len(ev[2]) > 1 else TOP
                if a != ("i", 0):
                    self._flag(where, "the cursor stands directly behind the consumed line feed, so the new line starts at offset 0, not at %s" % A.show(a))
            return (None, False)
        if name == "advance":
            n = ev[2][1] if len(ev[2]) > 1 else TOP
            if pending is None:
                return state
            if pending[0] == "num":
                if n[0] == "i":
                    if n[1] == pending[1] + 1:
                        return (None, True)
                    if n[1] > pending[1]:
                        return (None, "inexact")
                    return (("num", pending[1] - n[1]), consumed)
                return (None, consumed or "maybe")
            if pending[0] == "var" and pending[1] == where[1].id:
                t = where[1].term(where[2])
                e = sym(where[1]).operand(t["args"][1]) if len(t.get("args", [])) > 1 else None
                a = affine1(e) if e else None
                if a and a[0] == pending[2]:
                    if a[1] == 1:
                        return (None, True)
                    if a[1] > 0:
                        return (None, "inexact")
                    return (None, consumed)
            return (None, consumed or "maybe")
        if name in ("give_up", "give_up_at") and consumed in (True, "inexact"):
            self._flag(where, "an error is reported after a line feed was consumed but not counted (wrong line)")
        if name == "look" and consumed in (True, "inexact"):
            self._flag(where, "further input is examined after a line feed was consumed but not counted")
            return (pending, False)
        return state


R3_EXEMPT = {
    "flussab_aiger::token::remaining_file_content": "consumes to the end of the input; on success nothing can be reported afterwards, on failure it counts lines itself (store to LineReader.line)",
}


def token_fns(facts):
    out = []
    for f in facts.fns.values():
        if f.kind == "Closure" or f.crate in ("ext", "promoted"):
            continue
        nid = norm(f.id)
        if "::token::" in nid and f.crate in FORMAT_CRATES:
            out.append(f)
    return out


def run_r3(ctx, rule):
    facts = ctx.facts
    n = 0
    for f in sorted(token_fns(facts), key=lambda x: x.id):
        nid = norm(f.id)
        auto = LfAuto()
        eng = Engine(facts, auto)
        auto.eng = eng
        try:
            key = scan.root_key(facts, f.id)
            res = eng.summary(key, auto.initial(), tuple(TOP for _ in range(f.argc)))
        except (A.Recursion, A.Imprecise, A.F.FactError) as e:
            rule.bad("%s/engine" % nid, "analysis failed: %r" % e, f.loc(), kind="unmodelled-idiom")
            continue
        bad = None
        for av, st in res:
            if st[1] in (True, "inexact"):
                bad = "returns after consuming a line feed without counting it"
        if auto.viol:
            k0 = sorted(auto.viol)[0]
            bad = "%s (in %s, %s)" % (auto.viol[k0][2], short(k0), auto.viol[k0][0])
        n += 1
        what = "%s: a byte matched as LF is never advanced over without line_at_offset" % short(nid)
        if bad is None:
            rule.ok(what, f.loc())
        elif nid in R3_EXEMPT:
            rule.ok(what + " [exempt]", f.loc(), "exempt: " + R3_EXEMPT[nid])
        else:
            rule.bad("%s/newline-not-counted" % nid, "%s %s" % (short(nid), bad), f.loc())
    rule.note("token_functions", n)
    # a line skipped wholesale (text::next_newline returns the offset just behind its line feed): consuming up to
    # that offset is consuming the line feed, so the same offset must have been given to line_at_offset first
    NN = "flussab::text::next_newline"
    m = 0
    for f in facts.fns.values():
        if f.crate not in FORMAT_CRATES:
            continue
        sy = sym(f)
        c = cfg(f)
        for bb, t in f.calls():
            if norm(util.cname(t)) != NN:
                continue
            is_nn = lambda x: x[0] == "call" and x[1] == bb and norm(x[2]) == NN
            counted = [b2 for b2, t2 in f.calls() if norm(util.cname(t2)) == LR + "line_at_offset" and is_nn(sy.operand(t2["args"][1]))]
            for b3, t3 in f.calls():
                if not norm(util.cname(t3)).startswith(DR + "advance") or len(t3["args"]) < 2:
                    continue
                if not mentions(sy.operand(t3["args"][1]), is_nn):
                    continue
                m += 1
                rule.check(any(c.dominates(b2, b3) for b2 in counted), "%s/skipped-line-counted/%d" % (norm(f.id), m), "%s consumes a whole line found by next_newline only after line_at_offset() was given the same offset" % short(f.id), f.loc(b3))
    if m < 3:
        rule.bad("skipped-line/sites", "only %d whole-line skips found (3 counted: comment, interactive_strict_comment, interactive_skip_line)" % m, kind="anchor-missing")


def run_r4(ctx, rule):
    facts = ctx.facts
    n_at = 0
    for f, bb, t in util.calls_to(facts, lambda n: n == LR + "give_up_at"):
        if f.crate in ("ext", "promoted") or norm(f.id).startswith(LR):
            continue
        n_at += 1
        sy = sym(f)
        pos = sy.operand(t["args"][1])
        # (give_up_at(reader.position(), ..) is give_up(..): the error is raised at the cursor)
        ok = pos[0] == "call" and norm(pos[2]) in (DR + "mark", DR + "position")
        rule.check(ok, "%s/give_up_at-position" % norm(f.id), "give_up_at in %s reports at reader.mark() or at the cursor (got %s)" % (short(f.id), sy.show(pos)), f.loc(bb))
    n_cur = 0
    for f, bb, t in util.calls_to(facts, lambda n: n == LR + "give_up_at_cold"):
        if norm(f.id) in (LR + "give_up", LR + "give_up_at"):
            n_cur += 1
            if norm(f.id) == LR + "give_up":
                sy = sym(f)
                pos = sy.operand(t["args"][1])
                ok = pos[0] == "call" and norm(pos[2]) == DR + "position"
                rule.check(ok, "give_up/position", "give_up reports at the cursor (reader.position())", f.loc(bb))
        else:
            rule.bad("%s/calls-give_up_at_cold" % norm(f.id), "give_up_at_cold called from outside LineReader", f.loc(bb))
    # the column computation itself
    f = facts.fn([i for i in facts.fns if norm(i) == LR + "give_up_at_cold"][0])
    sy = sym(f)
    found = False
    for fn2, bi, si, rv in util.aggregates(facts, lambda a: a == "flussab::text::LineColumn"):
        if fn2 is not f:
            continue
        col = sy.operand(rv["ops"][1])
        line = sy.operand(rv["ops"][0])
        want_col = ("bin", "Add", ("bin", "Sub", ("l", 2), ("f", ("l", 1), "line_start")), ("c", 1))
        found = True
        rule.check(col == want_col and line == ("f", ("l", 1), "line"), "give_up_at_cold/column", "column = position - line_start + 1 and line = self.line (got column %s, line %s)" % (sy.show(col), sy.show(line)), f.loc(bi))
    if not found:
        rule.bad("give_up_at_cold/no-linecolumn", "anchor missing: LineColumn construction in give_up_at_cold", kind="anchor-missing")
    rule.note("give_up_at_sites", n_at)

# ---- R6 -------------------------------------------------------------------------------------------
class Touched(Auto):
    """True once the cursor may have been advanced on this path (any amount that is not the constant 0)"""

    name = "cursor-touched"

    def initial(self):
        return False

    def event(self, state, ev, where):
        if ev[0] == "prim" and ev[1] == "advance":
            n = ev[2][1] if len(ev[2]) > 1 else TOP
            if not (n[0] == "i" and n[1] == 0):
                return True
        return state


def run_r6(ctx, rule):
    """A token whose error type is not ParseError leaves locating the error to its caller (`uint(..).map_err(|digits|
    input.give_up(..))`): the caller reports at the cursor.  That points at the token only if the token committed
    its error with the cursor still on it.  Decided per such token function: no path that returns Res(Err) -- or a
    Res whose payload the analysis cannot see into -- has advanced the cursor."""
    facts = ctx.facts
    from .c04 import shape_of
    n = 0
    for f in sorted(token_fns(facts), key=lambda x: x.id):
        nid = norm(f.id)
        ret = f.locals[0]
        if ret.get("adt") != A.PARSED or len(ret.get("targs", [])) < 2 or "ParseError" in ret["targs"][1]:
            continue
        auto = Touched()
        eng = Engine(facts, auto)
        try:
            res = eng.summary(scan.root_key(facts, f.id), False, tuple(TOP for _ in range(f.argc)))
        except (A.Recursion, A.Imprecise, A.F.FactError) as e:
            rule.bad("%s/engine" % nid, "analysis failed: %r" % e, f.loc(), kind="unmodelled-idiom")
            continue
        n += 1
        shapes = sorted(set((sh, st) for av, st in res for sh in shape_of(av)))
        bad = [sh for sh, st in shapes if st and sh in ("Res(Err)", "Res(?)", "?")]
        has_err = any(sh == "Res(Err)" for sh, st in shapes)
        rule.check(not bad, "%s/error-leaves-cursor" % nid, "%s (error type %s, located by the caller at the cursor) commits an error only with the cursor still on the token%s [outcomes: %s]" % (short(nid), ret["targs"][1].rsplit("::", 1)[-1], "" if not bad else " -- but an outcome that may be an error has advanced", ", ".join("%s%s" % (sh, "+moved" if st else "") for sh, st in shapes)), f.loc())
    rule.note("caller_located_tokens", n)

# ---- R7 -------------------------------------------------------------------------------------------
class MarkedConsumed(Auto):
    """per token function: U no mark set here; S0 mark set, marked token not consumed; S1 the marked token was consumed.
    A cursor-based give_up in S1 reports behind the token the function marked."""

    name = "marked-token-consumed"

    def __init__(self):
        self.viol = {}

    def initial(self):
        return "U"

    def event(self, state, ev, where):
        if ev[0] != "prim":
            return state
        if ev[1] == "set_mark":
            return "S0"
        if ev[1] == "advance" and state == "S0":
            n = ev[2][1] if len(ev[2]) > 1 else TOP
            if not (n[0] == "i" and n[1] == 0):
                return "S1"
        if ev[1] == "give_up" and state == "S1":
            fn = where[1]
            self.viol.setdefault(norm(fn.id), fn.loc(where[2]))
        return state


def run_r7(ctx, rule):
    """A token function that sets the mark in front of its token and then consumes the token has the mark for one
    purpose: errors about that token.  Raising such an error with the cursor-based `give_up` points behind the
    token (and its trailing blanks).  Decided per token function (typestate): no `give_up` event once the marked
    token was consumed; `give_up_at(mark)` is the form that is right there."""
    facts = ctx.facts
    n = 0
    for f in sorted(token_fns(facts), key=lambda x: x.id):
        nid = norm(f.id)
        if not any(norm(util.cname(t)) in (DR + "set_mark", DR + "set_mark_to_position") for _, t in f.calls()):
            continue
        auto = MarkedConsumed()
        eng = Engine(facts, auto)
        try:
            eng.summary(scan.root_key(facts, f.id), "U", tuple(TOP for _ in range(f.argc)))
        except (A.Recursion, A.Imprecise, A.F.FactError) as e:
            rule.bad("%s/engine" % nid, "analysis failed: %r" % e, f.loc(), kind="unmodelled-idiom")
            continue
        n += 1
        if auto.viol:
            for k, loc in sorted(auto.viol.items()):
                rule.bad("%s/cursor-error-behind-marked-token/%s" % (nid, short(k)), "%s marks its token, consumes it, and then %s raises an error at the cursor: the column lies behind the token (give_up_at(mark) points at it)" % (short(nid), short(k)), loc)
        else:
            rule.ok("%s: once the marked token is consumed, errors are raised at the mark only" % short(nid), f.loc())
    rule.note("marking_token_functions", n)

# ---- R8 -------------------------------------------------------------------------------------------
def run_r8(ctx, rule):
    """The AIGER comment section is the one token that spans lines; when it is rejected, the error is located by hand:
    the cursor is moved behind the last line feed in front of the offending position and the line feeds before that
    are counted.  With n = number of bytes in front of the offending position and p = index of the last line feed among
    them, the first `advance` must move by p + 1 and the counted slice must end at p.  Decided by evaluating both
    expressions to linear forms over n and p, with `iter().rev().position(LF)` = n - 1 - p and
    `iter().rposition(LF)` = p (the two ways to find that line feed)."""
    facts = ctx.facts
    fs = [g for i, g in facts.fns.items() if norm(i) == "flussab_aiger::token::remaining_file_content"]
    if not fs:
        rule.bad("remaining_file_content/anchor", "anchor missing: aiger token::remaining_file_content", kind="anchor-missing")
        return
    f = fs[0]
    sy = sym(f)
    from .c03 import _derivation_calls

    def lin(e, depth=0):
        """(coef_n, coef_p, const) or None"""
        if depth > 10:
            return None
        k = e[0]
        if k == "c" and isinstance(e[1], int):
            return (0, 0, e[1])
        if k == "cast":
            return lin(e[2], depth + 1)
        if k == "l":
            o = sy.origin(e)
            return lin(o, depth + 1) if o != e else None
        if k in ("bin", "ovf") and e[1].replace("Unchecked", "") in ("Add", "Sub", "AddWithOverflow", "SubWithOverflow"):
            a, b = lin(e[2], depth + 1), lin(e[3], depth + 1)
            if a is None or b is None:
                return None
            sgn = 1 if e[1].startswith("Add") else -1
            return (a[0] + sgn * b[0], a[1] + sgn * b[1], a[2] + sgn * b[2])
        if k == "f" and e[2] == "0" and e[1][0] == "v" and e[1][2] == "Some":
            return lin(e[1][1], depth + 1)
        if k == "f" and e[2] == "0" and e[1][0] in ("ovf", "bin"):
            return lin(e[1], depth + 1)
        if k == "call":
            m = norm(e[2]).rsplit("::", 1)[-1]
            if m == "len":
                return (1, 0, 0)
            if m in ("position", "rposition") and e[3]:
                via = _derivation_calls(f, e[3][0])
                rev = "rev" in via
                from_back = (m == "rposition") != rev
                if m == "position" and not rev:
                    return None  # the first line feed, not the last
                # searching from the back yields: position-after-rev = n-1-p ; rposition = p ; rposition-after-rev = n-1-p'
                return (0, 1, 0) if (m == "rposition" and not rev) else (1, -1, -1) if (m == "position" and rev) else None
        return None

    advs = [(bb, t) for bb, t in f.calls() if norm(util.cname(t)) == DR + "advance"]
    c = cfg(f)
    n = 0
    found = False
    for bb, t in advs:
        e = sy.operand(t["args"][1])
        v = lin(e)
        if v is None or v[1] == 0:
            continue
        found = True
        n += 1
        rule.check(v == (0, 1, 1), "remaining_file_content/advance-behind-last-line-feed", "the cursor is moved behind the last line feed in front of the offending byte: by p + 1 (got %d*n + %d*p + %d from %s)" % (v[0], v[1], v[2], sy.show(e)[:50]), f.loc(bb))
    # the slice whose line feeds are counted ends at p
    for bb, t in f.calls():
        cn = norm(util.cname(t))
        if cn.rsplit("::", 1)[-1] == "index" and len(t["args"]) > 1:
            r = sy.operand(t["args"][1])
            if r[0] == "agg" and r[1].endswith("RangeTo") and len(r[3]) == 1:
                v = lin(r[3][0])
                if v is not None and v[1] != 0:
                    n += 1
                    rule.check(v == (0, 1, 0), "remaining_file_content/counted-lines-end", "the line feeds counted are those in front of the last one: the slice ends at p (got %d*n + %d*p + %d)" % v, f.loc(bb))
    if not found:
        rule.bad("remaining_file_content/advance", "no advance by an amount derived from the position of the last line feed found", f.loc(), kind="anchor-missing")

# ---- R9 -------------------------------------------------------------------------------------------
LRT = "flussab::text::LineReader"


def run_r9(ctx, rule):
    """the line bookkeeping itself, by affine path execution: `new` starts at line 1 with the line starting at the
    reader's position, `line_at_offset(k)` adds exactly one line and puts its start at position + k, `give_up_at`
    hands its position on unchanged, and nothing else writes the two fields"""
    from .aff import PathExec, field, entry, Aff
    facts = ctx.facts

    def fn_of(name):
        ids = [i for i in facts.fns if norm(i) == LR + name and facts.fns[i].crate not in ("ext", "promoted")]
        if not ids:
            rule.bad("%s/missing" % name, "anchor missing: LineReader::%s" % name, kind="anchor-missing")
            return None
        return facts.fn(ids[0])

    def ret_paths(fn):
        out = []
        for p, cut in cfg(fn).paths():
            if fn.term(p[-1])["k"] != "return":
                continue
            st = PathExec(facts, fn).run_path(p)
            if not st.infeasible:
                out.append((p, st))
        return out

    def is_position(v, root=None):
        """pos_of_buf + pos_in_buf of one reader, nothing else"""
        if not isinstance(v, Aff) or v.c != 0 or len(v.t) != 2 or set(v.t.values()) != {1}:
            return False
        names = sorted(k.split("@")[0] for k in v.t)
        strip = lambda n: re.sub(r"^reader\.|\[[^\]]*\]$", "", n)
        return sorted(strip(n) for n in names) == ["pos_in_buf", "pos_of_buf"]

    a = facts.adts.get(LRT)
    if a is None:
        rule.bad("adt/missing", "anchor missing: LineReader", kind="anchor-missing")
        return
    fields = [f["name"] for f in a["variants"][0]["fields"]]
    # the fields are public (tokens of the format crates may keep the books themselves); the one function that does
    # so today is decided by C08-R8 (linear forms over the line feeds it passes) - any other store is reported
    BOOKKEEPERS = {LR + "line_at_offset": "this rule", LR + "new": "this rule", "flussab_aiger::token::remaining_file_content": "C08-R8"}
    for f, bi, si, name in util.field_stores(facts, LRT):
        if name in ("line", "line_start"):
            nid = norm(f.id)
            base = nid.split("::{closure")[0]
            rule.check(base in BOOKKEEPERS, "%s/stores-%s" % (nid, name), "LineReader.%s is stored by line_at_offset, or by a function whose arithmetic is decided separately (%s)" % (name, short(nid)), f.loc(bi))
    for f, bi, si, name in util.mut_field_borrows(facts, LRT):
        if name in ("line", "line_start"):
            rule.bad("%s/borrows-%s" % (norm(f.id), name), "LineReader.%s is borrowed mutably in %s" % (name, short(f.id)), f.loc(bi))
    fn = fn_of("line_at_offset")
    if fn is not None:
        n = 0
        for p, st in ret_paths(fn):
            n += 1
            line = field(st, "line")
            ls = field(st, "line_start")
            rule.check(line == entry("line") + Aff(1), "line_at_offset/line", "line_at_offset: line' = line + 1  [computed %s]" % (line,), fn.loc(p[-1]))
            rest = ls - Aff.sym("arg2") if isinstance(ls, Aff) else None
            rule.check(rest is not None and is_position(rest), "line_at_offset/line_start", "line_at_offset(k): line_start' = reader.position() + k  [computed %s]" % (ls,), fn.loc(p[-1]))
        if not n:
            rule.bad("line_at_offset/no-path", "no returning path in line_at_offset", fn.loc(), kind="anchor-missing")
    fn = fn_of("new")
    if fn is not None and "line" in fields and "line_start" in fields:
        n = 0
        for p, st in ret_paths(fn):
            for ev in st.events:
                if ev[0] == "return" and isinstance(ev[2], tuple) and ev[2][0] == "agg" and norm(ev[2][1]) == LRT:
                    n += 1
                    ops = ev[2][3]
                    line, ls = ops[fields.index("line")], ops[fields.index("line_start")]
                    rule.check(line == Aff(1), "new/line", "LineReader::new starts at line 1  [computed %s]" % (line,), fn.loc(p[-1]))
                    rule.check(is_position(ls), "new/line_start", "LineReader::new: line 1 starts at the reader's current position  [computed %s]" % (ls,), fn.loc(p[-1]))
        if not n:
            rule.bad("new/no-aggregate", "LineReader::new does not build the reader from explicit fields", fn.loc(), kind="unmodelled-idiom")
    for name, want in (("give_up_at", "arg2"), ("give_up", "position")):
        fn = fn_of(name)
        if fn is None:
            continue
        n = 0
        for p, st in ret_paths(fn):
            for ev in st.events:
                if ev[0] == "call" and ev[2][0] == LR + "give_up_at_cold":
                    n += 1
                    v = ev[2][1][1]
                    if want == "arg2":
                        rule.check(v == Aff.sym("arg2"), "give_up_at/position-unchanged", "give_up_at(p) locates the error at p itself  [computed %s]" % (v,), fn.loc(ev[1]))
                    else:
                        rule.check(is_position(v), "give_up/at-cursor", "give_up locates the error at the reader's position  [computed %s]" % (v,), fn.loc(ev[1]))
        if not n:
            rule.bad("%s/no-cold-call" % name, "%s does not reach give_up_at_cold" % name, fn.loc(), kind="anchor-missing")


# ---- R10 ------------------------------------------------------------------------------------------
def run_r10(ctx, rule):
    """A dispatcher tries alternatives: `if token_a(input).matches()? { .. } else if token_b(input).matches()? { .. } else
    { return Err(unexpected(input, "a, b or c")) }`.  A token that matched has consumed itself; the error of the last arm
    says what was expected *where the alternatives were tried* and is raised at the cursor.  So an error site must not
    be reachable both from the edge on which a consuming token matched and from the edge on which it did not (without
    going through that token's test again): for one of the two the cursor stands in the wrong place.  (`a(input)
    .matches()? && flag` instead of `flag && a(input).matches()?` consumes the marker and then refuses the branch.)"""
    facts = ctx.facts
    n = 0
    for fid, fn in sorted(facts.fns.items()):
        if fn.crate not in FORMAT_CRATES:
            continue
        sy = sym(fn)
        c = cfg(fn)
        errs = [bb for bb, t in fn.calls() if norm(util.cname(t)).rsplit("::", 1)[-1] in ("unexpected", "give_up", "give_up_at") and ("::token::" in norm(util.cname(t)) or norm(util.cname(t)).startswith(LR))]
        if not errs:
            continue
        for bi, b in enumerate(fn.blocks):
            t = b["term"]
            if b["cleanup"] or t["k"] != "switch" or bi not in c.reach:
                continue
            d = sy.operand(t["discr"])
            tok = []
            mentions(d, lambda x: x[0] == "call" and norm(x[2]).endswith("Parsed::matches") and x[3] and x[3][0][0] == "call" and "::token::" in norm(x[3][0][2]) and not tok.append(x[3][0]) and False)
            if not tok:
                continue
            tname = norm(tok[0][2])
            if tname.rsplit("::", 1)[-1] in ("eof",):
                continue  # matches without consuming
            arms = dict((v, tg) for v, tg in t["arms"])
            if 0 not in arms:
                continue
            f_edge, t_edge = arms[0], t["otherwise"]
            n += 1
            # within the same round of the enclosing loops: the next statement starts at the loop header again
            heads = [h for h, body in c.loops().items() if bi in body]
            rt = c.reachable_from(t_edge, avoid=[bi] + heads)
            rf = c.reachable_from(f_edge, avoid=[bi] + heads)
            shared = [e for e in errs if e in rt and e in rf]
            rule.check(not shared, "%s/matched-alternative-committed/%s@%d" % (norm(fid), short(tname), len([1 for b2 in range(bi) if fn.blocks[b2]["term"]["k"] == "switch"])), "%s: once %s matched (and consumed itself) no error site is reached that is also reached when it did not match%s" % (short(norm(fid)), short(tname), "" if not shared else " - the error at %s is raised at the cursor for both" % fn.loc(shared[0])), fn.loc(bi))
    if n < 6:
        rule.bad("alternatives/sites", "only %d tests of consuming alternatives found (6 expected)" % n, kind="anchor-missing")


def run(ctx):
    r1 = ctx.rule("C08-R1", "mark() is read only after set_mark() for the current token on every path from every API root", floor=8)
    run_r1(ctx, r1)
    r2 = ctx.rule("C08-R2", "line_start is never ahead of the cursor when an error can be raised or a token function returns", floor=11)
    run_r2(ctx, r2)
    r3 = ctx.rule("C08-R3", "every token that matches a line feed and advances over it counts the line (typestate, exact for offsets up to 3)", floor=60)
    run_r3(ctx, r3)
    r4 = ctx.rule("C08-R4", "errors are raised at the cursor or at the mark only; column = position - line_start + 1", floor=10)
    run_r4(ctx, r4)
    r8 = ctx.rule("C08-R8", "rejected AIGER comment section: the cursor moves behind the last line feed before the offending byte and the line feeds before it are counted (linear forms over n and p)", floor=2)
    run_r8(ctx, r8)
    r7 = ctx.rule("C08-R7", "once a token function consumed the token it marked, it raises errors at the mark, not at the cursor", floor=5)
    run_r7(ctx, r7)
    r6 = ctx.rule("C08-R6", "a token that leaves locating its error to the caller commits the error with the cursor still on the token", floor=3)
    run_r6(ctx, r6)
    r10 = ctx.rule("C08-R10", "a matched alternative is committed: no error site is reachable both from the edge on which a consuming token matched and from the edge on which it fell through", floor=6)
    run_r10(ctx, r10)
    # R11: where a number token ends is where the digit scanner says it ends: a lone '-' is not passed over (it is then
    # reported where it stands, not swallowed as a 0 with the error turning up at a later token), the end offset is
    # +1 per digit: the exact scanning behaviour and hand-over plumbing of C13, run here too
    from . import c13
    r11 = ctx.rule("C08-R11", "a number token ends where the scanners' documented behaviour says: +1 per digit, a lone minus sign is not passed over, fast and byte-wise paths agree (shared with C13-R3/R4)", floor=60)
    c13.run_r3(ctx, r11)
    c13.run_r4(ctx, r11)
    r9 = ctx.rule("C08-R9", "the line state itself: new starts at line 1 at the reader's position, line_at_offset(k) adds one line starting at position + k, give_up_at passes its position on, nothing else writes line / line_start", floor=9)
    run_r9(ctx, r9)
    from .c02 import run_r2 as c02_r2
    r5 = ctx.rule("C08-R5", "the mark (and the position) keep designating the same stream offset across refills and realignment (shared with C02-R2)", floor=25)
    c02_r2(ctx, r5)
    ctx.assume("tabs_or_spaces returns an offset >= its argument (decided by C16-R3)")
    return "other", "typestate/path rules on the maintenance of mark, line and line_start on every path to an error", {}
