"""E-CFG: per-body control-flow graph (normal edges only), dominators, post-dominators, loops."""


class CFG:
    def __init__(self, fn):
        self.fn = fn
        n = len(fn.blocks)
        self.n = n
        self.succ = [[] for _ in range(n)]
        self.pred = [[] for _ in range(n)]
        for i, b in enumerate(fn.blocks):
            if b["cleanup"]:
                continue
            for s in fn.succs(i):
                if fn.blocks[s]["cleanup"]:
                    continue
                if s not in self.succ[i]:
                    self.succ[i].append(s)
                    self.pred[s].append(i)
        # reachable set from entry
        self.reach = set()
        st = [0]
        while st:
            x = st.pop()
            if x in self.reach:
                continue
            self.reach.add(x)
            st.extend(self.succ[x])
        self.exits = [
            i
            for i in self.reach
            if fn.blocks[i]["term"]["k"] in ("return", "tailcall")
        ]
        # diverging blocks: reachable, no successors, not an exit (panic calls, unreachable)
        self.diverge = [i for i in self.reach if not self.succ[i] and i not in self.exits]
        self._dom = None
        self._pdom = None

    # --- dominators (set based; bodies are small) ---------------------------------
    def dom(self):
        if self._dom is None:
            self._dom = self._solve(self.succ, self.pred, [0])
        return self._dom

    def pdom(self):
        """post-dominators w.r.t. normal exits (return); diverging blocks are ignored as exits"""
        if self._pdom is None:
            self._pdom = self._solve(self.pred, self.succ, list(self.exits))
        return self._pdom

    def _solve(self, succ, pred, starts):
        nodes = set()
        st = list(starts)
        while st:
            x = st.pop()
            if x in nodes:
                continue
            nodes.add(x)
            st.extend(succ[x])
        allset = set(nodes)
        d = {x: (set([x]) if x in starts else set(allset)) for x in nodes}
        changed = True
        order = sorted(nodes)
        while changed:
            changed = False
            for x in order:
                if x in starts:
                    continue
                ps = [p for p in pred[x] if p in nodes]
                if not ps:
                    new = set([x])
                else:
                    new = set(d[ps[0]])
                    for p in ps[1:]:
                        new &= d[p]
                    new.add(x)
                if new != d[x]:
                    d[x] = new
                    changed = True
        return d

    def dominates(self, a, b):
        d = self.dom()
        return b in d and a in d[b]

    def postdominates(self, a, b):
        """a post-dominates b (every path from b to a return passes a)"""
        d = self.pdom()
        return b in d and a in d[b]

    # --- loops -----------------------------------------------------------------------------
    def back_edges(self):
        out = []
        for a in self.reach:
            for b in self.succ[a]:
                if self.dominates(b, a):
                    out.append((a, b))
        return out

    def loops(self):
        """natural loops: {header: set(body blocks)}"""
        res = {}
        for a, h in self.back_edges():
            body = res.setdefault(h, set([h]))
            st = [a]
            while st:
                x = st.pop()
                if x in body:
                    continue
                body.add(x)
                st.extend(self.pred[x])
        return res

    def reachable_from(self, start, avoid=()):
        """blocks reachable from `start` (inclusive) without passing through blocks in `avoid`"""
        seen = set()
        st = [start]
        avoid = set(avoid)
        while st:
            x = st.pop()
            if x in seen or x in avoid:
                continue
            seen.add(x)
            st.extend(self.succ[x])
        return seen

    def edge_dominates(self, a, b, x):
        """does edge a->b dominate block x? (every path entry->x uses the edge)"""
        if not self.dominates(a, x) and a != x:
            return False
        # remove the edge and test reachability of x from entry
        seen = set()
        st = [0]
        while st:
            y = st.pop()
            if y in seen:
                continue
            seen.add(y)
            for s in self.succ[y]:
                if y == a and s == b:
                    continue
                st.append(s)
        if x not in seen:
            return True
        return False

    def paths(self, start=0, limit=20000):
        """all acyclic paths (back edges cut) from start to an exit or diverging block; yields lists"""
        be = set(self.back_edges())
        out = []
        st = [(start, [start])]
        while st:
            x, p = st.pop()
            ss = [s for s in self.succ[x] if (x, s) not in be]
            cut = [s for s in self.succ[x] if (x, s) in be]
            if not ss:
                out.append((p, cut[0] if cut else None))
                if len(out) > limit:
                    raise RuntimeError("path explosion in " + self.fn.id)
                continue
            if cut:
                out.append((p, cut[0]))
            for s in ss:
                st.append((s, p + [s]))
        return out


def cfg(fn):
    if fn._cfg is None:
        fn._cfg = CFG(fn)
    return fn._cfg
