"""C09 — items are delivered without reading past the line that completes them.

R1 the reader's read discipline: one call site of Read::read in the workspace, inside request_more, behind
   the `complete` test; the only cycle through it is the Interrupted arm; look-ahead and request reach
   request_more only when the buffered data does not satisfy the request.
R2 typestate over all API roots: at every success return the last look-ahead answer was the line
   terminator (LF) or end of input - no byte beyond the consumed text has been asked for.
R3 the fast/cold selectors perform no look-ahead on the fast arm before the kernel result says so.
"""
from . import absint as A
from .absint import Engine, Auto
from .common import norm
from .cfg import cfg
from .sym import sym, short, mentions
from . import util, guards, cg
from .c04 import api_roots, takes_reader, shape_of

DR = A.DR
READ = "std::io::Read::read"


def is_read_call(t):
    c = t.get("callee", {})
    d = norm(c.get("def", ""))
    r = norm(c.get("res", "") or "")
    return d == "std::io::Read::read" or r.endswith("::read") and "std::io" in r and "Read for" in r


def run_r1(ctx, rule):
    facts = ctx.facts
    sites = []
    for f in facts.fns.values():
        if f.crate in ("ext", "promoted"):
            continue
        for bb, t in f.calls():
            if is_read_call(t):
                sites.append((f, bb, t))
    home = DR + "request_more"
    inside = [s for s in sites if norm(s[0].id) == home]
    for f, bb, t in sites:
        if norm(f.id) != home:
            rule.bad("%s/calls-read" % norm(f.id), "Read::read is called outside request_more (the reader must be the only one to read, once per refill)", f.loc(bb))
    if len(inside) != 1:
        rule.bad("request_more/read-sites", "expected exactly one Read::read call site in request_more, found %d" % len(inside), kind="anchor-missing" if not inside else "violation")
        return
    f, rbb, t = inside[0]
    c = cfg(f)
    sy = sym(f)
    rule.ok("exactly one Read::read call site in the workspace, inside request_more", f.loc(rbb))
    # (a) dominated by complete == false
    g = guards.holds(f, rbb, lambda fa: fa[0] == "bool" and fa[2] is False and fa[1] == ("f", ("l", 1), "complete"))
    stores = [(bi) for (ff, bi, si, name) in util.field_stores(facts, "flussab::deferred_reader::DeferredReader") if ff is f and name == "complete"]
    # a store to `complete` must not lie on a path from the guard to the read (other than through loop exit)
    bad_store = False
    if g:
        for sb in stores:
            if rbb in c.reachable_from(sb) and sb in c.reachable_from(g[0]):
                # the store is followed by the read again: only allowed if it sets complete and leaves the loop
                bad_store = True
    rule.check(bool(g) and not bad_store, "request_more/read-after-complete", "the read is dominated by the false edge of `self.complete` and no store to `complete` can be followed by another read", f.loc(rbb))
    # (b) the only cycle through the read block is the Interrupted arm
    loops = c.loops()
    cyc = [h for h, body in loops.items() if rbb in body]
    ok_cycle = True
    detail = "no cycle through the read"
    for h in cyc:
        for (a, b) in c.back_edges():
            if b != h:
                continue
            # the back edge must be dominated by `kind == Interrupted` being true
            ff = guards.holds(
                f, a,
                lambda fa: fa[0] == "bool" and fa[2] is True and fa[1][0] == "call" and "PartialEq" in fa[1][2]
                and any(x[0] == "agg" and x[2] == "Interrupted" for x in fa[1][3])
                and any(x[0] == "call" and x[2].endswith("Error::kind") for x in fa[1][3]),
            )
            if not ff:
                ok_cycle = False
                detail = "back edge bb%d->bb%d not guarded by err.kind() == Interrupted" % (a, b)
            else:
                detail = "cycle only via err.kind() == ErrorKind::Interrupted"
                # identity transfer: no field store inside the loop on that path
                path_blocks = c.reachable_from(ff[0]) & loops[h]
    rule.check(ok_cycle and len(cyc) == 1, "request_more/read-cycle", "there is exactly one cycle through the read and it is the Interrupted retry (%s)" % detail, f.loc(rbb))
    # (b3) ... and an interruption always leads back to the read: from the true edge of `kind == Interrupted` nothing
    # but the read can be reached (no exit from the retry that a run of interruptions could take: the same bytes
    # would end in an error or not, depending on how often the source was interrupted)
    if cyc:
        h = cyc[0]
        n_int = 0
        for s_bb in sorted(loops[h]):
            if f.term(s_bb)["k"] != "switch":
                continue
            for tgt, fa in guards.switch_edges(f, s_bb):
                if (fa[0] == "bool" and fa[2] is True and fa[1][0] == "call" and "PartialEq" in fa[1][2]
                        and any(x[0] == "agg" and x[2] == "Interrupted" for x in fa[1][3])):
                    n_int += 1
                    away = c.reachable_from(tgt, avoid=[rbb])
                    leaves = sorted(x for x in away if x not in loops[h] or f.term(x)["k"] == "return")
                    rule.check(not leaves, "request_more/interrupted-always-retries", "an Interrupted answer always leads back to the read (no way out of the retry%s)" % ("" if not leaves else ": bb%d is reachable without reading again" % leaves[0]), f.loc(s_bb))
        if n_int == 0:
            rule.bad("request_more/interrupted-test", "no `kind() == Interrupted` test found in the read loop", f.loc(rbb), kind="anchor-missing")
    # (b2) no field store on the Interrupted arm (retry without touching any state)
    if cyc:
        h = cyc[0]
        for (a, b) in c.back_edges():
            if b != h:
                continue
            # blocks that are on a path read -> back edge
            on_path = c.reachable_from(c.succ[rbb][0] if c.succ[rbb] else rbb) & set(x for x in loops[h] if a in c.reachable_from(x))
            st = [(bi, name) for (ff2, bi, si, name) in util.field_stores(facts, "flussab::deferred_reader::DeferredReader") if ff2 is f and bi in on_path]
            rule.check(not st, "request_more/interrupted-identity", "the Interrupted retry stores to no reader field (identity transfer); stores: %s" % st, f.loc(a))
    # (c) request_more is called only where the buffered data falls short of what the caller asked for: every call
    # site inside the reader (hot path, cold path or a merged form of the two) sits behind `valid_len < n` /
    # `valid_len <= offset` for the function's own argument
    n_sites = 0
    for cid, cf in sorted(facts.fns.items()):
        if cf.crate in ("ext", "promoted") or not norm(cid).startswith(DR) or norm(cid) == home:
            continue
        for bb, t2 in util.calls_in(cf, lambda n: n == home):
            n_sites += 1
            def missing_nonzero(fa, cf=cf):
                # `len.saturating_sub(valid_len) != 0` (or `> 0`): the same test as valid_len < len
                if fa[0] != "cmp" or fa[1] not in ("Ne", "Gt") or fa[3] != ("c", 0):
                    return False
                x = fa[2]
                for _ in range(3):
                    if x[0] == "l":
                        x2 = sym(cf).origin(x)
                        if x2 == x:
                            break
                        x = x2
                return x[0] == "call" and norm(x[2]).rsplit("::", 1)[-1] in ("saturating_sub", "checked_sub") and len(x[3]) == 2 and x[3][0][0] == "l" and 2 <= x[3][0][1] <= cf.argc and x[3][1] == ("f", ("l", 1), "valid_len")
            ff = guards.holds(cf, bb, lambda fa: (guards.cmp_matches(fa, "Lt", lambda x: x == ("f", ("l", 1), "valid_len"), lambda x: x[0] == "l" and 2 <= x[1] <= cf.argc)
                                                   or guards.cmp_matches(fa, "Le", lambda x: x == ("f", ("l", 1), "valid_len"), lambda x: x[0] == "l" and 2 <= x[1] <= cf.argc)
                                                   or missing_nonzero(fa)))
            how = guards.show_fact(cf, ff[1]) if ff else None
            if not ff and not cf.j.get("reachable_pub"):
                # `loop { refill; if enough { break } }` in a private helper: the first refill is justified by the callers
                # (all of them hand over only when their own, unchanged argument is not satisfied -- checked below), and
                # every later one by the test on the way back to the call
                is_short = lambda fa: (guards.cmp_matches(fa, "Lt", lambda x: x == ("f", ("l", 1), "valid_len"), lambda x: x[0] == "l" and 2 <= x[1] <= cf.argc)
                                       or guards.cmp_matches(fa, "Le", lambda x: x == ("f", ("l", 1), "valid_len"), lambda x: x[0] == "l" and 2 <= x[1] <= cf.argc))
                cc = cfg(cf)
                cut = set()
                for sb in range(len(cf.blocks)):
                    if cf.blocks[sb]["cleanup"] or cf.term(sb)["k"] != "switch":
                        continue
                    es = guards.switch_edges(cf, sb)
                    if any(is_short(fa) for tgt, fa in es):
                        # only the edge on which the data falls short may lead back to the refill
                        for tgt, fa in es:
                            if not is_short(fa):
                                cut.add((sb, tgt))
                            else:
                                cut.add((sb, None))  # marks sb as a test block
                tests = set(sb for sb, _ in cut)
                # is there a cycle from the call back to itself that avoids every test block?
                seen, st = set(), list(cf.succs(bb))
                cyc = False
                while st:
                    x = st.pop()
                    if x in seen or x in tests:
                        continue
                    seen.add(x)
                    if x == bb:
                        cyc = True
                        break
                    st.extend(cf.succs(x))
                # and from a test block only its falls-short edge may reach the call again
                leak = False
                for sb in tests:
                    for tgt, fa in guards.switch_edges(cf, sb):
                        if not is_short(fa) and bb in cc.reachable_from(tgt, avoid=list(tests)):
                            leak = True
                callers = [(f2, b2) for f2 in facts.fns.values() if f2.crate not in ("ext", "promoted") for b2, t3 in f2.calls() if norm(util.cname(t3)) == norm(cid)]
                if tests and not cyc and not leak and callers:
                    ff = True
                    how = "first refill justified by the %d guarded hand-over(s), later ones by the falls-short test in the loop" % len(callers)
            rule.check(bool(ff), "%s/refill-guard" % short(norm(cid)), "%s refills only when the buffered data does not satisfy the request (%s)" % (short(norm(cid)), how or "guard not found"), cf.loc(bb))
    # ... and the same holds one level up: a reader function that hands over to a refilling helper does so only when
    # its own argument is not satisfied, and passes that argument on unchanged
    refillers = set(norm(cid) for cid, cf in facts.fns.items() if cf.crate not in ("ext", "promoted") and norm(cid).startswith(DR) and norm(cid) != home and util.calls_in(cf, lambda n: n == home))
    for cid, cf in sorted(facts.fns.items()):
        if cf.crate in ("ext", "promoted") or not norm(cid).startswith(DR):
            continue
        sy2 = sym(cf)
        for bb, t2 in util.calls_in(cf, lambda n: n in refillers and n != norm(cid)):
            params = [a for a in (sy2.operand(x) for x in t2["args"][1:]) if a[0] == "l" and 2 <= a[1] <= cf.argc]
            ok_arg = len(params) == len(t2["args"]) - 1 and len(params) >= 1
            ff = ok_arg and guards.holds(cf, bb, lambda fa: any(
                guards.cmp_matches(fa, "Lt", lambda x: x == ("f", ("l", 1), "valid_len"), lambda x: x == pa)
                or guards.cmp_matches(fa, "Le", lambda x: x == ("f", ("l", 1), "valid_len"), lambda x: x == pa) for pa in params))
            rule.check(bool(ff), "%s/cold-guard" % short(norm(cid)), "%s hands over to %s only when the buffer falls short of its own argument, which it passes on unchanged (%s)" % (short(norm(cid)), short(util.cname(t2)), guards.show_fact(cf, ff[1]) if ff else ("argument changed" if not ok_arg else "guard not found")), cf.loc(bb))
    if n_sites < 2:
        rule.bad("refill/sites", "only %d refill call sites found in the reader (2 counted: byte look-ahead and bulk request)" % n_sites, kind="anchor-missing")
    # explicit bulk requests are not used by the tokenizers (they would wait for a fixed amount of data)
    for f2, bb2, t2 in util.calls_to(facts, lambda n: n in (DR + "request", DR + "set_chunk_size")):
        if f2.crate == "flussab" and norm(f2.id).startswith(DR):
            continue
        rule.bad("%s/calls-%s" % (norm(f2.id), short(util.cname(t2))), "%s issues an explicit request/chunk-size call; tokenizers must use byte-wise look-ahead only" % short(f2.id), f2.loc(bb2))
    # who calls request_more at all
    for f2, bb2, t2 in util.calls_to(facts, lambda n: n == home):
        n2 = norm(f2.id)
        ok = n2.startswith(DR) and f2.crate == "flussab"
        rule.check(ok, "%s/calls-request_more" % n2, "request_more is called only from inside the reader, behind the guards above (caller %s)" % short(n2), f2.loc(bb2))


class LastLook(Auto):
    """classification of the most recent look-ahead answer: X exact (LF), E end, O over (another byte), I none yet"""

    name = "last-look"

    def initial(self):
        return ("I", None, None, False)

    def key(self, s):
        return s[0]

    def event(self, state, ev, where):
        if ev[0] == "prim" and ev[1] == "look":
            return ("O", "%s [%s]" % (short(where[1].id), where[1].loc(where[2])), ev[3] if len(ev) > 3 else "look", True)
        if ev[0] == "prim" and ev[1] in ("request", "request_more"):
            return ("O", "%s [%s] explicit request" % (short(where[1].id), where[1].loc(where[2])), None, True)
        if ev[0] == "prim" and ev[1] in ("advance", "advance_with_buf"):
            n = ev[2][1] if len(ev[2]) > 1 else A.TOP
            if not (n[0] == "i" and n[1] == 0):
                # what was looked at so far lies (for a record that is not line terminated: entirely) behind the cursor
                return (state[0], state[1], state[2], False)
            return state
        if ev[0] == "narrow" and ev[1] == "look":
            # the answer that is being examined may be an older one (`let a = look(o); let b = look(o + 1); match (a, b)`):
            # what counts is the most recent request, and that one went further
            last = state[2] if len(state) > 2 else None
            if len(ev) > 3 and last is not None and ev[3] != last and ("@" in ev[3] or "@" in last):
                return state
            names = dict(ev[2][2])
            site = "%s [%s]" % (short(where[1].id), where[1].loc(where[2]))
            behind = state[3] if len(state) > 3 else True
            if set(names) == {"None"}:
                return ("E", site, last, behind)
            if set(names) == {"Some"} and names["Some"] is not None and names["Some"][0] == "byte" and names["Some"][1] == (1 << 10):
                return ("X", site, last, behind)
            return ("O", site, last, behind)
        return state


_HDR = "the header-absent path must look at the first byte of the next line to know there is no header (header-present path checked on parse_header Ok(Some))"
R2_EXEMPT = {}
for _m in ("cnf", "wcnf", "gcnf"):
    for _f in ("new", "from_read", "from_buf_reader", "from_boxed_dyn_read"):
        R2_EXEMPT[("flussab_cnf::%s::Parser::%s" % (_m, _f), "Ok")] = _HDR
    R2_EXEMPT[("flussab_cnf::%s::Parser::parse_header" % _m, "Ok(None)")] = _HDR
for _m in ("ascii", "binary"):
    R2_EXEMPT[("flussab_aiger::%s::ParseSymbols::next_symbol" % _m, "Ok(None)")] = "deciding that no further symbol follows needs the first byte of the next line"
# binary and-gate records are not line terminated: the varint's continuation bit ends the item
R2_EXEMPT[("flussab_aiger::binary::ParseAndGates::next_and_gate", "Ok(Some)")] = "binary and-gate records end with the last varint byte, not with a newline"
R2_EXEMPT[("flussab_aiger::binary::ParseAndGates::symbols", "Ok")] = "follows the last binary and-gate record (no newline)"
R2_RECORD = {("flussab_aiger::binary::ParseAndGates::next_and_gate", "Ok(Some)"), ("flussab_aiger::binary::ParseAndGates::symbols", "Ok")}


def run_r2(ctx, rule):
    facts = ctx.facts
    auto = LastLook()
    eng = Engine(facts, auto)
    roots = [(r, fn) for r, fn in api_roots(facts) if takes_reader(fn)]
    for r, fn in sorted(roots, key=lambda x: x[1].id):
        nid = norm(fn.id)
        if nid.endswith("sat_solver_log::parse_log") or nid.endswith("Parser::parse"):
            # whole-file parsers are not streaming interfaces
            continue
        try:
            res = eng.summary(r, auto.initial(), tuple(A.TOP for _ in range(fn.argc)))
        except (A.Recursion, A.Imprecise) as e:
            rule.bad("%s/engine" % nid, "analysis failed: %r" % e, fn.loc(), kind="unmodelled-idiom")
            continue
        by_shape = {}
        for av, s in res:
            for sh in shape_of(av):
                by_shape.setdefault(sh, []).append(s)
        for sh, states in sorted(by_shape.items()):
            if sh.startswith("Err") or sh in ("Fallthrough", "Res(Err)"):
                continue
            over = sorted(set(s[1] for s in states if s[0] == "O"))
            what = "%s returns %s with the last look-ahead answer being the line terminator or end of input" % (nid, sh)
            if not over:
                rule.ok(what, fn.loc(), "exit states %s" % sorted(set(s[0] for s in states)))
            elif (nid, sh) in R2_EXEMPT and (nid, sh) in R2_RECORD:
                # a record that ends with its last byte instead of a line end: nothing may be requested behind the cursor
                beyond = sorted(set(s[1] for s in states if s[0] == "O" and len(s) > 3 and s[3]))
                if beyond:
                    rule.bad("%s/%s" % (nid, sh), "%s can return %s after asking for a byte behind the record it consumed (an interactive source would block)" % (nid, sh), fn.loc(), path=["look-ahead behind the consumed record at: " + p for p in beyond])
                else:
                    rule.ok(what.replace("the line terminator or end of input", "inside the record it consumed") + " [record without a line end]", fn.loc(), R2_EXEMPT[(nid, sh)])
            elif (nid, sh) in R2_EXEMPT:
                rule.ok(what + " [exempt shape]", fn.loc(), "exempt: " + R2_EXEMPT[(nid, sh)])
            else:
                rule.bad(
                    "%s/%s" % (nid, sh),
                    "%s can return %s after asking for a byte beyond the text it consumed (an interactive source would block)" % (nid, sh),
                    fn.loc(),
                    path=["last look-ahead at: " + p for p in over],
                )
    rule.note("summaries", eng.stats["summaries"])
    rule.note("configs", eng.stats["configs"])


def run_r3(ctx, rule):
    """fast arms of the fast/cold selectors contain no look-ahead before the continuation on 'all matched'"""
    facts = ctx.facts
    sels = ["flussab::text::ascii_digits_multi", "flussab::text::signed_ascii_digits_multi", "flussab_btor2::token::ascii_lowercase_u64"]
    for fid in sels:
        fn = facts.fn(fid)
        # direct calls in the selector body: only buf_len, buf_ptr, the kernel, the cold sibling and the continuation
        direct = [util.cname(t) for bb, t in fn.calls()]
        looks = [d for d in direct if d in (DR + "request_byte_at_offset", DR + "request_byte", DR + "request", DR + "request_more", DR + "buf")]
        rule.check(not looks, "%s/look-on-fast-path" % short(fid), "%s performs no look-ahead or request itself (fast arm uses buffered bytes only)" % short(fid), fn.loc())
        # continuation calls are guarded by "all bytes matched"
        for bb, t in fn.calls():
            cn = util.cname(t)
            if cn.endswith("ascii_digits_cont_pos") or cn.endswith("ascii_digits_cont_neg"):
                g = guards.holds(fn, bb, lambda fa: (fa[0] == "cmp" and fa[1] == "Eq" and (fa[3] in (("c", 8), ("c", 7)) or fa[2] in (("c", 8), ("c", 7)))) or (fa[0] == "eq" and fa[2] in (7, 8)))
                rule.check(bool(g), "%s/cont-guard/%s" % (short(fid), short(cn)), "%s continues byte-wise only when the whole word matched (%s)" % (short(fid), guards.show_fact(fn, g[1]) if g else "no guard"), fn.loc(bb))


def run(ctx):
    r1 = ctx.rule("C09-R1", "single guarded Read::read; refill only when the buffer falls short; Interrupted is the only retry", floor=8)
    run_r1(ctx, r1)
    r2 = ctx.rule("C09-R2", "every streaming API success return is reached with the last look-ahead answer = LF or end of input", floor=60)
    run_r2(ctx, r2)
    r3 = ctx.rule("C09-R3", "fast arms of the fast/cold selectors never look ahead; continuation only on 'all matched'", floor=5)
    run_r3(ctx, r3)
    ctx.assume("the number of reads per item depends on the source's chunking and is not decided")
    return "other", "read discipline of the reader (CFG/guard rules) and last-look-ahead typestate at every streaming API return", {}
