"""C04 — a failing source is always reported as an I/O error.

Decided clause: no API function returns success on the strength of an end-of-input answer unless the
parked I/O error was consulted afterwards (R1, typestate over all paths of all API roots); every
SyntaxError is constructed behind the parked-error check (R2); the eof tokens (R3); the error value
returned by the check is never dropped (R4).
"""
from . import absint as A
from .absint import Engine, Auto
from .common import norm
from .cfg import cfg
from .sym import sym, short
from . import cg, util
from .sym import mentions

FORMAT_CRATES = ("flussab_cnf", "flussab_aiger", "flussab_btor2")


class PendingEnd(Auto):
    """C = clean, P = a success would rest on an unchecked end-of-input answer"""

    name = "pending-end"

    def __init__(self):
        self.pending_sites = {}

    def initial(self):
        return ("C", None)

    def key(self, state):
        return state[0]

    def event(self, state, ev, where):
        if state[0] == "R":
            return state  # absorbing: the parked error has been taken out of the reader
        if ev[0] == "prim" and ev[1] in ("give_up", "give_up_at"):
            # raising an error consults *and takes* the parked I/O error: the value must be returned
            site = "%s [%s]" % (short(where[1].id), where[1].loc(where[2]))
            return ("R", site)
        if ev[0] == "narrow":
            tag, now = ev[1], ev[2]
            names = set(n for n, _ in now[2])
            if tag == "iochk" and names == {"Err"}:
                site = "%s [%s]" % (short(where[1].id), where[1].loc(where[2]))
                return ("R", site)
            if tag == "look":
                if names == {"Some"}:
                    return ("C", None)
                # None, or still possibly None: the end answer is (possibly) what the path rests on
                site = "%s [%s]" % (short(where[1].id), where[1].loc(where[2]))
                return ("P", site)
            if tag == "ioerr" and names == {"None"}:
                return ("C", None)
            if tag == "iochk" and names == {"Ok"}:
                return ("C", None)
            return state
        if ev[0] == "bool" and ev[1] == "is_at_end" and ev[2] is True:
            site = "%s [%s]" % (short(where[1].id), where[1].loc(where[2]))
            return ("P", site)
        return state


# return shapes that are exempt, with the reason (frozen, confirmed by reading)
_HDR = "header-absent path: nothing is handed out and next_clause re-examines the input (it is analysed with entry P); the header-present path is checked on parse_header's Ok(Some)"
EXEMPT = {}
for _m in ("cnf", "wcnf", "gcnf"):
    for _f in ("new", "from_read", "from_buf_reader", "from_boxed_dyn_read"):
        EXEMPT[("flussab_cnf::%s::Parser::%s" % (_m, _f), "Ok")] = _HDR
    EXEMPT[("flussab_cnf::%s::Parser::parse_header" % _m, "Ok(None)")] = _HDR
for _m in ("ascii", "binary"):
    # 'no further symbol' is not a final outcome: comment() must follow and is analysed with entry P
    EXEMPT[("flussab_aiger::%s::ParseSymbols::next_symbol" % _m, "Ok(None)")] = "not a final outcome; comment() follows and is checked with entry P"

# private helpers analysed as additional roots (so that an exemption above does not hide a path)
EXTRA_ROOTS = tuple("flussab_cnf::%s::Parser::parse_header" % m for m in ("cnf", "wcnf", "gcnf"))

# roots that may legitimately be entered in state P (they follow an exempt return)
ENTRY_P = (
    "flussab_cnf::cnf::Parser::next_clause",
    "flussab_cnf::wcnf::Parser::next_clause",
    "flussab_cnf::gcnf::Parser::next_clause",
    "flussab_aiger::ascii::ParseSymbols::next_symbol",
    "flussab_aiger::binary::ParseSymbols::next_symbol",
    "flussab_aiger::ascii::ParseSymbols::comment",
    "flussab_aiger::binary::ParseSymbols::comment",
)


def shape_of(av):
    """success shapes of a returned Result/Parsed: list of names like Ok, Ok(None), Ok(Some), Res(Ok)"""
    out = []
    if av[0] != "e":
        return ["?"]
    for n, p in av[2]:
        if av[1] == A.RESULT:
            if n == "Ok":
                if p is not None and p[0] == "e" and p[1] == A.OPTION:
                    for m, _ in p[2]:
                        out.append("Ok(%s)" % m)
                else:
                    out.append("Ok")
            else:
                out.append("Err")
        elif av[1] == A.PARSED:
            if n == "Res":
                if p is not None and p[0] == "e":
                    for m, _ in p[2]:
                        out.append("Res(%s)" % m)
                else:
                    out.append("Res(?)")
            else:
                out.append("Fallthrough")
        else:
            out.append(n)
    return out


def api_roots(facts):
    roots = []
    for r in facts.roots:
        n = facts.inst.get(r)
        if n is None or not n["has_mir"]:
            continue
        fn = facts.fns.get(n["def"])
        if fn is None or fn.crate not in FORMAT_CRATES or fn.kind == "Closure":
            continue
        if not fn.j.get("reachable_pub") and norm(fn.id) not in EXTRA_ROOTS:
            continue
        ret = fn.locals[0]
        if ret.get("adt") not in (A.RESULT, A.PARSED):
            continue
        # must take the parser / reader: some argument mentions a flussab type or Self
        roots.append((r, fn))
    return roots


def takes_reader(fn):
    for i in range(1, fn.argc + 1):
        s = fn.locals[i]["s"]
        if "Parser" in s or "LineReader" in s or "Parse" in s or "DeferredReader" in s or "Read" in s:
            return True
    return False


def run_r1(ctx, rule):
    facts = ctx.facts
    auto = PendingEnd()
    eng = Engine(facts, auto)
    roots = [(r, fn) for r, fn in api_roots(facts) if takes_reader(fn)]
    checked = 0
    for r, fn in sorted(roots, key=lambda x: x[1].id):
        nid = norm(fn.id)
        entries = [("C", None)]
        if nid in ENTRY_P:
            entries.append(("P", "entry (follows an exempt return)"))
        for st in entries:
            args = tuple(A.TOP for _ in range(fn.argc))
            try:
                res = eng.summary(r, st, args)
            except A.Recursion as e:
                rule.bad("%s/recursion" % nid, "recursive call graph below %s (%s): summaries undefined" % (nid, e), fn.loc())
                continue
            except A.Imprecise as e:
                rule.bad("%s/imprecise" % nid, "configuration limit exceeded in %s" % e, fn.loc(), kind="unmodelled-idiom")
                continue
            by_shape = {}
            for av, s in res:
                for sh in shape_of(av):
                    by_shape.setdefault(sh, set()).add(s)
            for sh, states in sorted(by_shape.items()):
                if sh.startswith("Err") or sh == "Fallthrough" or sh == "Res(Err)":
                    continue
                checked += 1
                raised = sorted(set(s[1] for s in states if s[0] == "R"))
                rule.check(
                    not raised,
                    "%s/%s/entry-%s/raised" % (nid, sh, st[0]),
                    "%s never returns %s (entry %s) after an error value was raised: raising takes the parked I/O error out of the reader, so the value must be what is returned%s"
                    % (nid, sh, st[0], "" if not raised else " -- raised at: " + "; ".join(raised)),
                    fn.loc(),
                )
                pend = sorted(s[1] for s in states if s[0] == "P")
                what = "%s returns %s (entry %s) only after the parked I/O error was consulted" % (nid, sh, st[0])
                if not pend:
                    rule.ok(what, fn.loc(), "all %d exit states clean" % len(states))
                    continue
                if (nid, sh) in EXEMPT:
                    rule.ok(what + " [exempt shape]", fn.loc(), "exempt: " + EXEMPT[(nid, sh)])
                    continue
                rule.bad(
                    "%s/%s/entry-%s" % (nid, sh, st[0]),
                    "%s can return %s resting on an end-of-input answer that nobody checked against the parked I/O error"
                    % (nid, sh),
                    fn.loc(),
                    path=["end-of-input answer accepted at: " + p for p in pend],
                )
    rule.note("roots", len(roots))
    rule.note("summaries", eng.stats["summaries"])
    rule.note("instances_analysed", len(eng.stats["instances"]))
    rule.note("configs", eng.stats["configs"])
    rule.note("unmodelled_callees", dict(sorted(eng.stats["unknown_callees"].items(), key=lambda kv: -kv[1])[:25]))
    return eng


class EofAuto(Auto):
    """(saw end-of-input edge, saw io_error()==None edge)"""

    name = "eof-token"

    def initial(self):
        return (False, False)

    def event(self, state, ev, where):
        if ev[0] == "narrow":
            names = set(n for n, _ in ev[2][2])
            if ev[1] == "look":
                return (names == {"None"}, False)
            if ev[1] == "ioerr" and names == {"None"}:
                return (state[0], True)
            if ev[1] == "iochk" and names == {"Ok"}:
                return (state[0], True)
        return state


def run_r2(ctx, rule):
    facts = ctx.facts
    SE = "flussab::text::SyntaxError"
    home = "flussab::text::LineReader::give_up_at_cold"
    n_home = 0
    for f, bb, si, rv in util.aggregates(facts, lambda a: a == SE):
        if norm(f.id) != home:
            rule.bad("%s/constructs-SyntaxError" % norm(f.id), "SyntaxError is constructed outside give_up_at_cold, bypassing the parked-error check", f.loc(bb))
            continue
        n_home += 1
        c = cfg(f)
        chk = util.calls_in(f, lambda n: n == A.DR + "check_io_error")
        ok = False
        why = "no call to check_io_error in give_up_at_cold"
        for cbb, t in chk:
            if not c.dominates(cbb, bb):
                why = "the check does not dominate the construction"
                continue
            # the Err edge of the check must not reach the construction
            sy = sym(f)
            err_targets = []
            for sb in c.reach:
                tt = f.term(sb)
                if tt["k"] == "switch":
                    e = sy.operand(tt["discr"])
                    if e[0] == "discr" and e[1][0] == "call" and e[1][1] == cbb:
                        for val, tgt in tt["arms"]:
                            if val == 1:
                                err_targets.append(tgt)
                        if not any(v == 1 for v, _ in tt["arms"]):
                            err_targets.append(tt["otherwise"])
            if not err_targets:
                why = "the result of check_io_error is not branched on"
                continue
            if any(bb in c.reachable_from(e) for e in err_targets):
                why = "SyntaxError construction reachable on the Err edge of the check"
                continue
            ok = True
        rule.check(ok, "give_up_at_cold/check-dominates", "SyntaxError construction is dominated by the Ok edge of check_io_error (%s)" % ("ok" if ok else why), f.loc(bb))
    if n_home == 0:
        rule.bad("give_up_at_cold/no-construction", "positive control failed: give_up_at_cold no longer constructs SyntaxError", kind="anchor-missing")
    # InnerParseError variants only inside the From impls
    for f, bb, si, rv in util.aggregates(facts, lambda a: a.endswith("::error::InnerParseError")):
        nid = norm(f.id)
        ok = " as core::convert::From<" in nid or "impl core::convert::From<" in nid
        rule.check(ok, "%s/constructs-%s" % (nid, rv["variant"]), "InnerParseError::%s constructed in %s (only the From impls may)" % (rv["variant"], sym_short(nid)), f.loc(bb))


def sym_short(x):
    return short(x)


def run_r3(ctx, rule):
    facts = ctx.facts
    for crate in ("flussab_cnf", "flussab_aiger", "flussab_btor2"):
        fid = crate + "::token::eof"
        fn = facts.fn(fid)
        key = [r for r in facts.roots if facts.inst[r]["def"] == fid]
        if not key:
            rule.bad(fid + "/root", "no instance for " + fid, kind="anchor-missing")
            continue
        eng = Engine(facts, EofAuto())
        res = eng.summary(key[0], (False, False), (A.TOP,))
        n_ok = 0
        for av, st in res:
            for sh in shape_of(av):
                if sh == "Res(Ok)":
                    n_ok += 1
                    rule.check(st == (True, True), fid + "/Res(Ok)", "%s returns Res(Ok) only after an end-of-input answer and io_error()==None (state %s)" % (fid, st), fn.loc())
                elif sh in ("Res(Err)", "Res(?)"):
                    rule.bad(fid + "/" + sh, "%s can return %s" % (fid, sh), fn.loc())
        if n_ok == 0:
            rule.bad(fid + "/never-ok", "%s never succeeds (positive control)" % fid, fn.loc(), kind="anchor-missing")


def run_r4(ctx, rule):
    """the Err of check_io_error() flows into the function's returned error on every use"""
    facts = ctx.facts
    n = 0
    for f, bb, t in util.calls_to(facts, lambda x: x == A.DR + "check_io_error"):
        if norm(f.id).startswith("flussab::deferred_reader"):
            continue
        n += 1
        d = t["dest"]
        sy = sym(f)
        key = "%s/check_io_error" % norm(f.id)
        if d["p"]:
            rule.bad(key, "result of check_io_error stored through a projection (unrecognised idiom)", f.loc(bb), kind="unmodelled-idiom")
            continue
        dl = d["l"]
        used_branch = False
        used_err = False
        for b2, t2 in f.calls():
            cn = util.cname(t2)
            for a in t2["args"]:
                e = sy.operand(a)
                if cn.endswith("::branch") and e[0] == "call" and e[1] == bb:
                    used_branch = True
                if mentions(e, lambda x: x[0] == "v" and x[2] == "Err" and x[1][0] == "call" and x[1][1] == bb):
                    # payload of the Err moved into a conversion whose result is returned
                    if t2["dest"]["l"] == 0 and not t2["dest"]["p"]:
                        used_err = True
                    else:
                        # or flows into an aggregate Err(..) assigned to the return place
                        used_err = used_err or _flows_to_return(f, t2["dest"]["l"])
        # payload may also be bound to a local first: (d as Err).0 -> err -> into()
        if not (used_branch or used_err):
            for b2, t2 in f.calls():
                for a in t2["args"]:
                    p = a.get("mv") or a.get("cp")
                    if p and not p["p"] and _is_err_payload_of(f, p["l"], dl):
                        if (t2["dest"]["l"] == 0 and not t2["dest"]["p"]) or _flows_to_return(f, t2["dest"]["l"]):
                            used_err = True
        rule.check(used_branch or used_err, key, "the Err of check_io_error() in %s is propagated with `?` or converted into the returned error" % short(f.id), f.loc(bb))
    rule.note("call_sites", n)


def _is_err_payload_of(f, l, dl):
    for b in f.blocks:
        for s in b["stmts"]:
            if s["k"] == "assign" and s["lhs"]["l"] == l and not s["lhs"]["p"] and s["rv"]["k"] == "use":
                p = s["rv"]["a"].get("mv") or s["rv"]["a"].get("cp")
                if p and p["l"] == dl and any(isinstance(q, dict) and q.get("vname") == "Err" for q in p["p"]):
                    return True
    return False


def _flows_to_return(f, l, depth=0):
    if l == 0:
        return True
    if depth > 4:
        return False
    for b in f.blocks:
        for s in b["stmts"]:
            if s["k"] == "assign" and not s["lhs"]["p"]:
                rv = s["rv"]
                ops = []
                if rv["k"] == "use":
                    ops = [rv["a"]]
                elif rv["k"] == "agg":
                    ops = rv["ops"]
                for o in ops:
                    p = o.get("mv") or o.get("cp")
                    if p and p["l"] == l and _flows_to_return(f, s["lhs"]["l"], depth + 1):
                        return True
    return False


def run(ctx):
    _run(ctx)
    # R5: every error of the source other than Interrupted is parked (and ends the input): the flag law of C02-R5, run here too
    from .c02 import run_r5 as c02_r5
    r5 = ctx.rule("C04-R5", "a failing read is parked as the I/O error whatever its kind; only Ok(0) is a clean end (shared with C02-R5)", floor=20)
    c02_r5(ctx, r5)
    # R6: the parked error is reported because the parser comes to an end: a token that matches without consuming lets
    # a loop over alternatives spin on the spot where the source failed (eof falls through while an error is parked)
    from .c05 import run_r7 as c05_r7
    r6 = ctx.rule("C04-R6", "a token that reports a match has moved the cursor: no loop can spin in front of a parked error (shared with C05-R7)", floor=30)
    c05_r7(ctx, r6)
    return _RET[0]


_RET = [None]


def _run(ctx):
    r1 = ctx.rule(
        "C04-R1",
        "no API success return rests on an end-of-input answer without a later check of the parked I/O error",
        floor=100,
    )
    run_r1(ctx, r1)
    r2 = ctx.rule("C04-R2", "SyntaxError is constructed only in give_up_at_cold behind the Ok edge of check_io_error; InnerParseError only in From impls", floor=4)
    run_r2(ctx, r2)
    r3 = ctx.rule("C04-R3", "each crate's eof token succeeds only on end-of-input AND no parked error", floor=3)
    run_r3(ctx, r3)
    r4 = ctx.rule("C04-R4", "the Err returned by check_io_error() is never dropped in the format crates and LineReader", floor=3)
    run_r4(ctx, r4)
    ctx.assume("unresolved leaf calls do not touch reader state; unwinding edges are not taken")
    ctx.assume("a look-ahead whose result is never branched on does not decide a success (no event is generated for it)")
    _RET[0] = ("other", "typestate (clean/pending-end/raised) decided on every path of every public parser function that returns Result/Parsed; plus who-may-construct, eof-token, no-dropped-error and error-parking rules", {})
