"""C04 — a failing source is always reported as an I/O error.

Decided clause: no API function returns success on the strength of an end-of-input answer unless the
parked I/O error was consulted afterwards (R1, typestate over all paths of all API roots); every
SyntaxError is constructed behind the parked-error check (R2); the eof tokens (R3); the error value
returned by the check is never dropped (R4).
"""
from . import absint as A
from .absint import Engine, Auto
from .common import norm
from .cfg import cfg
from .sym import sym, short
from . import cg

FORMAT_CRATES = ("flussab_cnf", "flussab_aiger", "flussab_btor2")


class PendingEnd(Auto):
    """C = clean, P = a success would rest on an unchecked end-of-input answer"""

    name = "pending-end"

    def __init__(self):
        self.pending_sites = {}

    def initial(self):
        return ("C", None)

    def key(self, state):
        return state[0]

    def event(self, state, ev, where):
        if ev[0] == "narrow":
            tag, now = ev[1], ev[2]
            names = set(n for n, _ in now[2])
            if tag == "look":
                if names == {"Some"}:
                    return ("C", None)
                # None, or still possibly None: the end answer is (possibly) what the path rests on
                site = "%s [%s]" % (short(where[1].id), where[1].loc(where[2]))
                return ("P", site)
            if tag == "ioerr" and names == {"None"}:
                return ("C", None)
            if tag == "iochk" and names == {"Ok"}:
                return ("C", None)
            return state
        if ev[0] == "bool" and ev[1] == "is_at_end" and ev[2] is True:
            site = "%s [%s]" % (short(where[1].id), where[1].loc(where[2]))
            return ("P", site)
        return state


# return shapes that are exempt, with the reason (frozen, confirmed by reading)
_HDR = "header-absent path: nothing is handed out and next_clause re-examines the input (it is analysed with entry P); the header-present path is checked on parse_header's Ok(Some)"
EXEMPT = {}
for _m in ("cnf", "wcnf", "gcnf"):
    for _f in ("new", "from_read", "from_buf_reader", "from_boxed_dyn_read"):
        EXEMPT[("flussab_cnf::%s::Parser::%s" % (_m, _f), "Ok")] = _HDR
    EXEMPT[("flussab_cnf::%s::Parser::parse_header" % _m, "Ok(None)")] = _HDR
for _m in ("ascii", "binary"):
    # 'no further symbol' is not a final outcome: comment() must follow and is analysed with entry P
    EXEMPT[("flussab_aiger::%s::ParseSymbols::next_symbol" % _m, "Ok(None)")] = "not a final outcome; comment() follows and is checked with entry P"

# private helpers analysed as additional roots (so that an exemption above does not hide a path)
EXTRA_ROOTS = tuple("flussab_cnf::%s::Parser::parse_header" % m for m in ("cnf", "wcnf", "gcnf"))

# roots that may legitimately be entered in state P (they follow an exempt return)
ENTRY_P = (
    "flussab_cnf::cnf::Parser::next_clause",
    "flussab_cnf::wcnf::Parser::next_clause",
    "flussab_cnf::gcnf::Parser::next_clause",
    "flussab_aiger::ascii::ParseSymbols::next_symbol",
    "flussab_aiger::binary::ParseSymbols::next_symbol",
    "flussab_aiger::ascii::ParseSymbols::comment",
    "flussab_aiger::binary::ParseSymbols::comment",
)


def shape_of(av):
    """success shapes of a returned Result/Parsed: list of names like Ok, Ok(None), Ok(Some), Res(Ok)"""
    out = []
    if av[0] != "e":
        return ["?"]
    for n, p in av[2]:
        if av[1] == A.RESULT:
            if n == "Ok":
                if p is not None and p[0] == "e" and p[1] == A.OPTION:
                    for m, _ in p[2]:
                        out.append("Ok(%s)" % m)
                else:
                    out.append("Ok")
            else:
                out.append("Err")
        elif av[1] == A.PARSED:
            if n == "Res":
                if p is not None and p[0] == "e":
                    for m, _ in p[2]:
                        out.append("Res(%s)" % m)
                else:
                    out.append("Res(?)")
            else:
                out.append("Fallthrough")
        else:
            out.append(n)
    return out


def api_roots(facts):
    roots = []
    for r in facts.roots:
        n = facts.inst.get(r)
        if n is None or not n["has_mir"]:
            continue
        fn = facts.fns.get(n["def"])
        if fn is None or fn.crate not in FORMAT_CRATES or fn.kind == "Closure":
            continue
        if not fn.j.get("reachable_pub") and norm(fn.id) not in EXTRA_ROOTS:
            continue
        ret = fn.locals[0]
        if ret.get("adt") not in (A.RESULT, A.PARSED):
            continue
        # must take the parser / reader: some argument mentions a flussab type or Self
        roots.append((r, fn))
    return roots


def takes_reader(fn):
    for i in range(1, fn.argc + 1):
        s = fn.locals[i]["s"]
        if "Parser" in s or "LineReader" in s or "Parse" in s or "DeferredReader" in s or "Read" in s:
            return True
    return False


def run_r1(ctx, rule):
    facts = ctx.facts
    auto = PendingEnd()
    eng = Engine(facts, auto)
    roots = [(r, fn) for r, fn in api_roots(facts) if takes_reader(fn)]
    checked = 0
    for r, fn in sorted(roots, key=lambda x: x[1].id):
        nid = norm(fn.id)
        entries = [("C", None)]
        if nid in ENTRY_P:
            entries.append(("P", "entry (follows an exempt return)"))
        for st in entries:
            args = tuple(A.TOP for _ in range(fn.argc))
            try:
                res = eng.summary(r, st, args)
            except A.Recursion as e:
                rule.bad("%s/recursion" % nid, "recursive call graph below %s (%s): summaries undefined" % (nid, e), fn.loc())
                continue
            except A.Imprecise as e:
                rule.bad("%s/imprecise" % nid, "configuration limit exceeded in %s" % e, fn.loc(), kind="unmodelled-idiom")
                continue
            by_shape = {}
            for av, s in res:
                for sh in shape_of(av):
                    by_shape.setdefault(sh, set()).add(s)
            for sh, states in sorted(by_shape.items()):
                if sh.startswith("Err") or sh == "Fallthrough" or sh == "Res(Err)":
                    continue
                checked += 1
                pend = sorted(s[1] for s in states if s[0] == "P")
                what = "%s returns %s (entry %s) only after the parked I/O error was consulted" % (nid, sh, st[0])
                if not pend:
                    rule.ok(what, fn.loc(), "all %d exit states clean" % len(states))
                    continue
                if (nid, sh) in EXEMPT:
                    rule.ok(what + " [exempt shape]", fn.loc(), "exempt: " + EXEMPT[(nid, sh)])
                    continue
                rule.bad(
                    "%s/%s/entry-%s" % (nid, sh, st[0]),
                    "%s can return %s resting on an end-of-input answer that nobody checked against the parked I/O error"
                    % (nid, sh),
                    fn.loc(),
                    path=["end-of-input answer accepted at: " + p for p in pend],
                )
    rule.note("roots", len(roots))
    rule.note("summaries", eng.stats["summaries"])
    rule.note("instances_analysed", len(eng.stats["instances"]))
    rule.note("configs", eng.stats["configs"])
    rule.note("unmodelled_callees", dict(sorted(eng.stats["unknown_callees"].items(), key=lambda kv: -kv[1])[:25]))
    return eng


def run(ctx):
    r1 = ctx.rule(
        "C04-R1",
        "no API success return rests on an end-of-input answer without a later check of the parked I/O error",
        floor=40,
    )
    run_r1(ctx, r1)
    ctx.assume("unresolved leaf calls do not touch reader state; unwinding edges are not taken")
    return "other", "typestate (clean/pending-end) decided on every path of every public parser function that returns Result/Parsed", {}
