"""E-TAINT: which values are numbers the input merely *declares* (as opposed to measures of consumed input).

Sources (frozen from the repository's vocabulary, DESIGN.md section 4 C05-R2):
  * results of the number tokens (uint/int/braced_uint/binary_uint/header_field/lit/symbol_index/delta_code/
    var_count/uint_count/clause_group and the value component of text::ascii_digits*),
  * the fields they are stored in (header counts, max_lit, code, *_left, limits, total_local_fairness_count),
  * Lit::code(), Dimacs::dimacs().
Propagation: through assignments, arithmetic, casts, aggregates, `?`; into callees through arguments (global
fixpoint over the def-level call graph); through closure captures.
"""
from .common import norm
from .sym import sym, subexprs, mentions

SOURCE_CALLS = (
    "flussab_cnf::token::uint", "flussab_cnf::token::int", "flussab_cnf::token::braced_uint", "flussab_cnf::token::var_count",
    "flussab_cnf::token::uint_count", "flussab_cnf::token::clause_group",
    "flussab_aiger::token::uint", "flussab_aiger::token::binary_uint", "flussab_aiger::token::header_field", "flussab_aiger::token::lit",
    "flussab_aiger::token::symbol_index", "flussab_aiger::token::delta_code",
    "flussab_btor2::token::uint", "flussab_btor2::token::positive_int", "flussab_btor2::token::nonnegative_int",
    "flussab_btor2::token::required_positive_int", "flussab_btor2::token::required_nonnegative_int",
    "flussab_aiger::lit::Lit::code", "flussab_cnf::dimacs_trait::Dimacs::dimacs",
    "core::num::nonzero::NonZero::get",
)
# scanners return (value, offset): only component 0 is a declared number
SOURCE_TUPLE0 = (
    "flussab::text::ascii_digits", "flussab::text::signed_ascii_digits", "flussab::text::ascii_digits_multi", "flussab::text::signed_ascii_digits_multi",
    "flussab::text::ascii_digits_cont_pos", "flussab::text::ascii_digits_cont_neg", "flussab::text::ascii_digits_multi_cold",
    "flussab::text::signed_ascii_digits_multi_cold", "flussab::text::swar_ascii_digits_u64_le",
)
SOURCE_FIELDS = (
    "max_var_index", "input_count", "latch_count", "output_count", "and_gate_count", "bad_state_property_count", "invariant_constraint_count",
    "justice_property_count", "fairness_constraint_count", "max_lit", "code", "inputs_left", "latches_left", "outputs_left", "bad_left",
    "constraints_left", "justice_left", "fairness_left", "ands_left", "local_fairness_left", "total_local_fairness_count", "lit_limit",
    "clause_limit", "group_limit", "var_count", "group_count",
)
# header fields named `clause_count` are declared numbers, the parser's own `clause_count` field counts consumed clauses
HEADER_ADTS = ("::Header",)


class Taint:
    def __init__(self, facts):
        self.facts = facts
        self.param = {}  # fn id -> set of tainted param locals
        self.local_cache = {}
        self.upvar = {}  # closure id -> set of tainted upvar indices
        self.ret = set()  # fns returning a tainted value (beyond SOURCE_CALLS)
        self._fix()

    def expr_tainted(self, fn, e, locs):
        def hit(x):
            if x[0] == "call":
                n = norm(x[2])
                if n in SOURCE_CALLS or n in self.ret:
                    return True
            if x[0] == "f" and isinstance(x[1], tuple) and x[1][0] == "call" and norm(x[1][2]) in SOURCE_TUPLE0 and x[2] == "0":
                return True
            if x[0] == "f" and x[2] in SOURCE_FIELDS:
                return True
            if x[0] == "f" and x[2] == "clause_count" and mentions(x[1], lambda y: y[0] == "l" and "Header" in fn.locals[y[1]]["s"] if y[0] == "l" else False):
                return True
            if x[0] == "l" and x[1] in locs:
                return True
            if x[0] == "f" and x[1] == ("l", 1) and x[2].isdigit() and fn.kind == "Closure" and int(x[2]) in self.upvar.get(fn.id, ()):
                return True
            return False

        # the offset component of a scanner result is not tainted: cut it out
        def walk(x):
            if not isinstance(x, tuple) or not x:
                return False
            if x[0] == "f" and isinstance(x[1], tuple) and x[1][0] == "call" and norm(x[1][2]) in SOURCE_TUPLE0 and x[2] == "1":
                return any(walk(a) for a in x[1][3][1:2])  # the offset argument may itself be tainted
            if hit(x):
                return True
            for y in x[1:]:
                if isinstance(y, tuple):
                    if y and isinstance(y[0], str):
                        if walk(y):
                            return True
                    else:
                        for z in y:
                            if isinstance(z, tuple) and walk(z):
                                return True
            return False

        return walk(e)

    def locals_of(self, fn):
        """tainted locals of a body (fixpoint over its assignments)"""
        sy = sym(fn)
        locs = set(self.param.get(fn.id, ()))
        changed = True
        while changed:
            changed = False
            for l, defs in sy.defs.items():
                if l in locs:
                    continue
                for d in defs:
                    if d[0] == "stmt":
                        e = sy.rvalue(d[3])
                    else:
                        t = d[2]
                        c = t.get("callee", {})
                        e = ("call", d[1], c.get("res") or c.get("def") or "?", tuple(sy.operand(a) for a in t["args"]))
                        # a call result is tainted only if the callee is a source (not merely because an argument is)
                        n = norm(e[2])
                        if not (n in SOURCE_CALLS or n in self.ret or n.endswith(("Try>::branch", "::unwrap", "::expect", "::into", "::from", "::clone", "::min", "::max"))):
                            continue
                    if self.expr_tainted(fn, e, locs):
                        locs.add(l)
                        changed = True
                        break
        return locs

    def _fix(self):
        facts = self.facts
        fns = [f for f in facts.fns.values() if f.crate not in ("ext", "promoted")]
        for _ in range(8):
            changed = False
            for f in fns:
                locs = self.locals_of(f)
                self.local_cache[f.id] = locs
                sy = sym(f)
                # returns
                if 0 in locs and norm(f.id) not in self.ret and f.locals[0].get("prim", "").startswith(("u", "i")):
                    self.ret.add(norm(f.id))
                    changed = True
                for bb, t in f.calls():
                    c = t.get("callee", {})
                    callee = c.get("res") or c.get("def") or ""
                    cf = facts.fns.get(callee)
                    if cf is None or cf.crate in ("ext", "promoted"):
                        continue
                    for i, a in enumerate(t["args"]):
                        e = sy.operand(a)
                        if self.expr_tainted(f, e, locs):
                            ps = self.param.setdefault(cf.id, set())
                            if (i + 1) not in ps and cf.locals[i + 1].get("prim", "").startswith(("u", "i")):
                                ps.add(i + 1)
                                changed = True
                # closure captures
                for b in f.blocks:
                    for s in b["stmts"]:
                        if s["k"] == "assign" and s["rv"]["k"] == "agg" and s["rv"].get("ak") == "closure":
                            cid = s["rv"]["closure"]
                            for i, o in enumerate(s["rv"]["ops"]):
                                e = sy.operand(o)
                                if self.expr_tainted(f, e, locs):
                                    us = self.upvar.setdefault(cid, set())
                                    if i not in us:
                                        us.add(i)
                                        changed = True
            if not changed:
                break

    def tainted(self, fn, e):
        return self.expr_tainted(fn, e, self.local_cache.get(fn.id, set()))
