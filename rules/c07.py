"""C07 — DIMACS-family and solver-log parsing is independent of layout (the structural part).

Decided here (necessary conditions of the property that are visible in the shape of the code):
R1 blank-normal form (typestate over all parser entry points of flussab-cnf): whenever a token parser that
   decides on the byte at the cursor is attempted, the cursor is known not to stand on a space or tab --
   i.e. the last thing consumed was consumed together with the blanks following it (`advance(tabs_or_spaces(..))`)
   and nothing was consumed since.  The effect of every token function is derived from its body.
R2 the end-of-word class is exactly {space, tab, CR, LF, end of input}.
R3 statement loops (cnf / wcnf / gcnf `next_clause`, the three `parse_header`s): a comment and a blank line are
   alternatives whose success continues the loop; the three siblings dispatch the same alternatives in the same order.
R4 a required line end is always `newline or end of input` (missing final newline), never a bare newline.
R5 a clause may continue on the next line: where the literal parser falls through inside a clause the
   line-break/comment skipper is attempted before any error; the skipper loops over comments and newlines.
R6 the clause / value-line terminator is decided on the parsed number (`== 0`), not on its spelling.
Not decided: that two renderings of the same formula produce equal values (runtime equality); numeral
spelling (leading zeros) is the value-level part of C13; the byte classes of text::newline /
text::tabs_or_spaces are C16-R3.
"""
from . import absint as A
from .absint import Engine, Auto, TOP
from .common import norm
from .cfg import cfg
from .sym import sym, short, mentions
from . import util, cg, scan, guards
from .c04 import api_roots, takes_reader

DR = A.DR
TOK = "flussab_cnf::token::"
# token parsers that look at the byte at the cursor and fall through on a blank (frozen from token.rs; R1 checks
# each of them is reached).  `fixed` and the `interactive_*` family are column-strict by design (solver logs).
CURSOR_DECIDING = ("word", "uint", "int", "braced_uint", "comment", "newline", "eof")
SKIP = ("skip",)  # abstract value: a result of text::tabs_or_spaces not yet consumed


def _prim_tabs(eng, fn, bb, t, env, state, args, where, n):
    state = eng.auto.event(state, ("prim", "tabs_or_spaces", tuple(args)), where)
    return [(SKIP, env, state)]


class BlankAuto(Auto):
    """state: (nf, pending)   nf: the cursor does not stand on a space/tab;  pending: a tabs_or_spaces scan
    happened after the last advance (its result is the only value that re-establishes nf)"""
    name = "blank-normal-form"
    wants_calls = True
    extra_prims = {"flussab::text::tabs_or_spaces": _prim_tabs}

    def __init__(self, exempt=()):
        self.viol = {}
        self.seen = {}
        self.eng = None
        self.exempt = set(exempt)
        self.n_adv = self.n_skip_adv = 0

    def initial(self):
        return (False, False, None)

    def event(self, state, ev, where):
        nf, pending, nb = state
        if ev[0] == "narrow" and ev[1] == "look" and len(ev) > 3 and "@" in ev[3]:
            # a look-ahead answer narrowed to "not a space or tab" (or the end): advancing exactly to that offset
            # leaves the cursor in blank-normal form
            names = dict(ev[2][2])
            p = names.get("Some")
            mask = p[1] if (p is not None and p[0] == "byte") else (0 if "Some" not in names else A.ALL)
            k = int(ev[3].split("@")[1])
            key = ("var", where[1].id, k - 1000) if k >= 1000 else ("num", k)
            if not (mask & ((1 << 32) | (1 << 9))):
                return (nf, pending, key)
            return (nf, pending, None if nb == key else nb)
        if ev[0] == "prim":
            if ev[1] == "tabs_or_spaces":
                return (nf, True, nb)
            if ev[1] == "advance":
                self.n_adv += 1
                amount = ev[2][1] if len(ev[2]) > 1 else TOP
                if amount == SKIP and pending:
                    self.n_skip_adv += 1
                    return (True, False, None)
                if amount == ("i", 0):
                    return (nf, False, nb)
                if nb is not None:
                    fn = where[1]
                    t = fn.term(where[2])
                    e = sym(fn).operand(t["args"][1]) if len(t.get("args", [])) > 1 else None
                    hit = False
                    if nb[0] == "num" and amount == ("i", nb[1]):
                        hit = True
                    if nb[0] == "var" and nb[1] == fn.id and e == ("l", nb[2]):
                        hit = True
                    if hit:
                        self.n_skip_adv += 1
                        return (True, False, None)
                return (False, False, None)
            return state
        if ev[0] == "call" and ev[1].startswith(TOK) and ev[1][len(TOK):] in CURSOR_DECIDING:
            name = ev[1][len(TOK):]
            fn = where[1]
            site = (norm(fn.id), where[2], name)
            self.seen[site] = fn.loc(where[2])
            if not nf and name not in self.exempt and site not in self.viol:
                chain = [short(self.eng.facts.inst[k]["def"]) for k in self.eng.stack] if self.eng else []
                self.viol[site] = (fn.loc(where[2]), chain)
        return state


PARSER_ROOTS = ("flussab_cnf::cnf::Parser::", "flussab_cnf::wcnf::Parser::", "flussab_cnf::gcnf::Parser::")
LOG_ROOT = "flussab_cnf::sat_solver_log::parse_log"


def run_r1(ctx, rule):
    facts = ctx.facts
    roots = [(r, fn) for r, fn in api_roots(facts) if takes_reader(fn) and fn.crate == "flussab_cnf"]
    groups = (
        ("dimacs", [(r, fn) for r, fn in roots if norm(fn.id).startswith(PARSER_ROOTS)], ()),
        # a solver log is column-strict at the start of a line ("s ", "v ", "c " / end of input): `eof` is not obliged there
        ("log", [(r, fn) for r, fn in roots if norm(fn.id) == LOG_ROOT], ("eof",)),
    )
    sites_static = [(f, bb, t) for f, bb, t in util.calls_to(facts, lambda n: n.startswith(TOK) and n[len(TOK):] in CURSOR_DECIDING) if f.crate == "flussab_cnf"]
    reached = {}
    viol = {}
    n_roots = 0
    stats = {}
    for gname, rs, exempt in groups:
        if not rs:
            rule.bad("%s/roots" % gname, "anchor missing: no parser entry points found for %s" % gname, kind="anchor-missing")
            continue
        auto = BlankAuto(exempt)
        eng = Engine(facts, auto)
        auto.eng = eng
        for r, fn in sorted(rs, key=lambda x: x[1].id):
            n_roots += 1
            try:
                # entry: nothing is known about the cursor (a previous call ended with an interactive line end)
                eng.summary(r, auto.initial(), tuple(TOP for _ in range(fn.argc)))
            except (A.Recursion, A.Imprecise) as e:
                rule.bad("%s/engine" % norm(fn.id), "analysis failed: %r" % e, fn.loc(), kind="unmodelled-idiom")
        for k, v in auto.seen.items():
            reached.setdefault(k, v)
            if k[2] in exempt:
                reached[k] = v
        for k, v in auto.viol.items():
            viol.setdefault(k, (gname,) + v)
        stats[gname] = {"roots": len(rs), "advance_events": auto.n_adv, "advance_over_blanks": auto.n_skip_adv, "summaries": eng.stats["summaries"]}
    for f, bb, t in sites_static:
        name = norm(util.cname(t))[len(TOK):]
        key = (norm(f.id), bb, name)
        sid = "%s/%s@%d" % (short(norm(f.id)), name, _ordinal(f, bb, name))
        if key not in reached:
            # token-level helpers that no format parser uses are library surface with the documented precondition
            rule.note("unreached:" + sid, f.loc(bb))
            continue
        if key in viol:
            gname, loc, chain = viol[key]
            rule.bad("nf/" + sid, "token::%s is attempted while the cursor may stand on a space or tab (something was consumed without the blanks after it, or nothing skipped them): leading blanks make it fall through" % name, loc, path=["call chain: " + " -> ".join(chain), "entry group: " + gname])
        else:
            rule.ok("token::%s in %s is attempted only in blank-normal form, on every path from every parser entry point" % (name, short(norm(f.id))), f.loc(bb))
    rule.note("engine", stats)
    rule.note("roots", n_roots)


def _ordinal(f, bb, name):
    n = 0
    for b2, t in f.calls():
        if norm(util.cname(t)) == TOK + name:
            if b2 == bb:
                return n
            n += 1
    return n


# ---- R2 -----------------------------------------------------------------------------------------
def run_r2(ctx, rule):
    facts = ctx.facts
    fid = [i for i in facts.fns if norm(i) == TOK + "is_end_of_word"]
    if not fid:
        rule.bad("is_end_of_word/anchor", "anchor missing: token::is_end_of_word", kind="anchor-missing")
        return
    got, eng = scan.behaviour(facts, scan.root_key(facts, fid[0]), (TOP, TOP))
    want = {("entry", "-", "look@?"), ("look@?", "{TAB,LF,CR,SP}|END", "ret:true"), ("look@?", "not{TAB,LF,CR,SP}", "ret:false")}
    f = facts.fns[fid[0]]
    for tr in sorted(want):
        rule.check(tr in got, "is_end_of_word/" + tr[1], "a word ends exactly before space, tab, CR, LF or the end of input: %s --%s--> %s" % tr, f.loc())
    for tr in sorted(got - want, key=str):
        rule.bad("is_end_of_word/extra/" + str(tr[1]), "undocumented behaviour of is_end_of_word: %s --%s--> %s" % tr, f.loc())
    # every word-like token (word, uint, int) consumes only after a look-ahead answered "space, tab, CR, LF or end"
    # for a byte behind the token -- through is_end_of_word or a test of its own -- on every path (typestate)
    EOW = (1 << 32) | (1 << 9) | (1 << 13) | (1 << 10)

    class WordEnd(Auto):
        name = "end-of-word-seen"

        def __init__(self):
            self.bad = None

        def initial(self):
            return False

        def event(self, state, ev, where):
            if ev[0] == "narrow" and ev[1] == "look":
                names = dict(ev[2][2])
                p = names.get("Some")
                if "Some" not in names:
                    return True  # end of input
                if p is not None and p[0] == "byte" and p[1] and not (p[1] & ~EOW):
                    return True
                return state
            if ev[0] == "prim" and ev[1] == "advance":
                if not state and self.bad is None:
                    self.bad = where[1].loc(where[2])
                return False
            return state

    for name in ("word", "uint", "int"):
        ids = [i for i in facts.fns if norm(i) == TOK + name]
        if not ids:
            rule.bad("%s/anchor" % name, "anchor missing: token::%s" % name, kind="anchor-missing")
            continue
        g = facts.fns[ids[0]]
        auto = WordEnd()
        eng = Engine(facts, auto)
        try:
            eng.summary(scan.root_key(facts, g.id), auto.initial(), tuple(TOP for _ in range(g.argc)))
        except (A.Recursion, A.Imprecise) as e:
            rule.bad("%s/engine" % name, "analysis failed: %r" % e, g.loc(), kind="unmodelled-idiom")
            continue
        rule.check(auto.bad is None, "%s/end-of-word-before-advance" % name, "token::%s consumes only after a look-ahead found space, tab, CR, LF or the end behind the token" % name, auto.bad or g.loc())


# ---- R3 -----------------------------------------------------------------------------------------
def continue_alternatives(fn):
    """token parsers called directly in fn inside a loop whose success (`matches()? == true`) leads back to the
    loop header on every path: [(loop header, token name, call block)], plus all direct token calls in dominance order"""
    c = cfg(fn)
    loops = c.loops()
    sy = sym(fn)
    out = []
    for bi in range(len(fn.blocks)):
        if fn.blocks[bi]["cleanup"] or fn.term(bi)["k"] != "switch":
            continue
        for tgt, fact in guards.switch_edges(fn, bi):
            if fact[0] != "bool" or fact[2] is not True:
                continue
            toks = []
            e = fact[1]
            if e[0] == "l":
                e = sy.origin(e)  # (`val` of the `?` desugaring is a named snapshot)
            mentions(e, lambda x: x[0] == "call" and norm(x[2]).startswith(TOK) and not toks.append((norm(x[2])[len(TOK):], x[1])) and False)
            if len(toks) != 1:
                continue
            for h, body in loops.items():
                if bi not in body:
                    continue
                r = c.reachable_from(tgt, avoid=[h])
                inside = all(b in body for b in r if not fn.blocks[b]["cleanup"])
                leaves = any(s not in body and s != h and not fn.blocks[s]["cleanup"] for b in r for s in c.succ[b] if not fn.blocks[b]["cleanup"])
                returns = any(fn.term(b)["k"] in ("return", "unreachable") for b in r if not fn.blocks[b]["cleanup"])
                if inside and not leaves and not returns and h in set(s for b in r for s in c.succ[b]):
                    out.append((h, toks[0][0], toks[0][1]))
    calls = [(bb, norm(util.cname(t))[len(TOK):]) for bb, t in fn.calls() if norm(util.cname(t)).startswith(TOK)]
    calls.sort(key=lambda x: len(c.dom().get(x[0], ())))
    return out, calls


def run_r3(ctx, rule):
    facts = ctx.facts
    seqs = {}
    for mod in ("cnf", "wcnf", "gcnf"):
        for meth, need in (("next_clause", ("comment", "newline")), ("parse_header", ("comment", "newline"))):
            fs = [f for i, f in facts.fns.items() if norm(i) == "flussab_cnf::%s::Parser::%s" % (mod, meth)]
            if not fs:
                rule.bad("%s/%s/anchor" % (mod, meth), "anchor missing: %s::Parser::%s" % (mod, meth), kind="anchor-missing")
                continue
            f = fs[0]
            alts, calls = continue_alternatives(f)
            for tok in need:
                hit = [a for a in alts if a[1] == tok]
                rule.check(bool(hit), "%s/%s/%s-continues" % (mod, meth, tok), "%s::Parser::%s: a %s is an alternative of the statement loop and its success continues the loop" % (mod, meth, {"comment": "comment line", "newline": "blank line"}[tok]), f.loc(hit[0][2]) if hit else f.loc())
            hs = set(a[0] for a in alts if a[1] in need)
            rule.check(len(hs) == 1, "%s/%s/same-loop" % (mod, meth), "comment and blank line continue the same loop", f.loc())
            # (alternatives may sit in the function or in the closures it hands to the combinators)
            inner = []
            for i2, g2 in facts.fns.items():
                if g2.kind == "Closure" and norm(i2).startswith(norm(f.id) + "::{closure"):
                    inner += [norm(util.cname(t2))[len(TOK):] for _, t2 in g2.calls() if norm(util.cname(t2)).startswith(TOK)]
            seqs[(mod, meth)] = [n for bb, n in calls] + inner
    # sibling agreement: same alternatives in the same order (first-token parser of the statement aside)
    for meth in ("next_clause", "parse_header"):
        ss = {m: seqs.get((m, meth)) for m in ("cnf", "wcnf", "gcnf") if (m, meth) in seqs}
        def tail(seq):
            return sorted(n for n in seq if n in ("comment", "newline", "eof", "word"))
        ts = set(tuple(tail(v)) for v in ss.values())
        rule.check(len(ts) == 1 and len(ss) == 3, "siblings/%s" % meth, "cnf, wcnf and gcnf %s dispatch the same layout alternatives (%s)" % (meth, " | ".join("%s: %s" % (k, ",".join(tail(v))) for k, v in sorted(ss.items()))), "")


# ---- R4 -----------------------------------------------------------------------------------------
def run_r4(ctx, rule):
    facts = ctx.facts
    P = "flussab::parser::Parsed::"
    n = 0
    for i, f in sorted(facts.fns.items()):
        if f.crate != "flussab_cnf":
            continue
        sy = sym(f)
        for bb, t in f.calls():
            cn = norm(util.cname(t))
            if cn not in (P + "or_give_up", P + "or_give_up_with"):
                continue
            recv = sy.operand(t["args"][0])
            bare = []
            mentions(recv, lambda x: x[0] == "call" and norm(x[2]) in (TOK + "newline", TOK + "interactive_newline") and not bare.append(x) and False)
            eol = mentions(recv, lambda x: x[0] == "call" and norm(x[2]) == TOK + "interactive_end_of_line")
            if bare:
                rule.bad("%s/bare-newline-required/#%d" % (short(norm(i)), len(bare)), "%s demands a newline where the end of input must also be accepted (missing final newline)" % short(norm(i)), f.loc(bb))
            elif eol:
                n += 1
                rule.ok("%s demands `newline or end of input`" % short(norm(i)), f.loc(bb))
    if n < 8 and not getattr(ctx, "floor_off", False):
        rule.bad("line-end/floor", "only %d required line ends found (8 counted: 3 headers, 3 clauses, value line, solution line)" % n, kind="anchor-missing")
    # interactive_end_of_line = interactive_newline or eof
    fs = [f for i, f in facts.fns.items() if norm(i) == TOK + "interactive_end_of_line"]
    if not fs:
        rule.bad("interactive_end_of_line/anchor", "anchor missing", kind="anchor-missing")
        return
    f = fs[0]
    sy = sym(f)
    ok_first = ok_alt = False
    for bb, t in f.calls():
        if norm(util.cname(t)) == P + "or_parse":
            recv = sy.operand(t["args"][0])
            ok_first = recv[0] == "call" and norm(recv[2]) in (TOK + "interactive_newline", TOK + "newline")
            clo = sy.operand(t["args"][1])
            for cid, g in facts.fns.items():
                if g.kind == "Closure" and norm(cid).startswith(TOK + "interactive_end_of_line"):
                    ok_alt = ok_alt or any(norm(util.cname(t2)) == TOK + "eof" for _, t2 in g.calls())
    if not (ok_first and ok_alt):
        # the same thing spelled out: `match newline(input) { Fallthrough => eof(input), parsed => parsed }` - eof is
        # attempted exactly on the edge on which the line-end token fell through
        fall = [v.get("discr") for v in (facts.adts.get("flussab::parser::Parsed") or {"variants": []})["variants"] if v["name"] == "Fallthrough"]
        for bb, t in f.calls():
            if norm(util.cname(t)) != TOK + "eof" or not fall:
                continue
            for _s, fa in guards.facts_at(f, bb):
                if fa[0] == "eq" and fa[2] == fall[0] and fa[1][0] == "discr" and fa[1][1][0] == "call" and norm(fa[1][1][2]) in (TOK + "interactive_newline", TOK + "newline"):
                    first_bb = fa[1][1][1]
                    others = [b2 for b2, t2 in f.calls() if b2 not in (first_bb, bb) and not norm(util.cname(t2)).startswith("core::")]
                    if not others:
                        ok_first = ok_alt = True
    rule.check(ok_first and ok_alt, "interactive_end_of_line/shape", "interactive_end_of_line is `newline, or else end of input`", f.loc())


# ---- R5 -----------------------------------------------------------------------------------------
def run_r5(ctx, rule):
    facts = ctx.facts
    # (a) inside clause_lits: no "expected literal" error before the line-break skipper was tried
    clos = [f for i, f in facts.fns.items() if f.kind == "Closure" and norm(i).startswith(TOK + "clause_lits")]
    hit = 0
    for f in clos:
        c = cfg(f)
        ntl = [bb for bb, t in f.calls() if norm(util.cname(t)) == TOK + "non_terminating_linebreaks"]
        ints = [bb for bb, t in f.calls() if norm(util.cname(t)) == TOK + "int"]
        if not ntl:
            continue
        hit += 1
        for bb, t in f.calls():
            if norm(util.cname(t)) == TOK + "unexpected":
                rule.check(any(c.dominates(n, bb) for n in ntl), "clause_lits/continue-before-error/%d" % bb, "inside a clause `expected literal` is raised only after the line-break / comment skipper was tried", f.loc(bb))
        # the skipper is tried on the path where the literal parser fell through (dominated by the first int attempt in the loop)
        rule.check(any(c.dominates(i2, n) for i2 in ints for n in ntl), "clause_lits/skipper-after-int", "the skipper is attempted after the literal parser fell through", f.loc(ntl[0]))
        # and a literal is tried again behind it
        rule.check(any(c.dominates(n, i2) for i2 in ints for n in ntl), "clause_lits/int-after-skipper", "a literal is parsed again on the continuation line", f.loc(ntl[0]))
    if hit != 1:
        rule.bad("clause_lits/anchor", "anchor missing: the clause loop with non_terminating_linebreaks (found %d)" % hit, kind="anchor-missing")
    # (b) the skipper: newline, then a loop over comment | newline
    fs = [f for i, f in facts.fns.items() if norm(i) == TOK + "non_terminating_linebreaks"]
    if not fs:
        rule.bad("non_terminating_linebreaks/anchor", "anchor missing", kind="anchor-missing")
    else:
        f = fs[0]
        alts, calls = continue_alternatives(f)
        names = [n for bb, n in calls]
        rule.check(names[:1] == ["newline"], "non_terminating_linebreaks/newline-first", "a continuation starts with a line break", f.loc())
        inner = set()
        for cid, g in facts.fns.items():
            if g.kind == "Closure" and norm(cid).startswith(TOK + "non_terminating_linebreaks"):
                inner |= set(norm(util.cname(t2))[len(TOK):] for _, t2 in g.calls() if norm(util.cname(t2)).startswith(TOK))
        looped = set(a[1] for a in alts)
        rule.check("comment" in looped and ("newline" in inner or "newline" in looped), "non_terminating_linebreaks/loop", "after the line break any number of comment lines and blank lines is skipped (loop over comment | newline)", f.loc())
    # (c) wcnf / gcnf: between weight / group and the literals a line break may occur
    for mod in ("wcnf", "gcnf"):
        ok = False
        where = ""
        for i, f in facts.fns.items():
            if f.crate == "flussab_cnf" and norm(i).startswith("flussab_cnf::%s::Parser::" % mod):
                c = cfg(f)
                ntl = [bb for bb, t in f.calls() if norm(util.cname(t)) == TOK + "non_terminating_linebreaks"]
                cl = [bb for bb, t in f.calls() if norm(util.cname(t)) == TOK + "clause_lits"]
                if ntl and cl and all(any(c.dominates(n, x) for n in ntl) for x in cl):
                    ok = True
                    where = f.loc(ntl[0])
        rule.check(ok, "%s/linebreak-after-prefix" % mod, "%s: a line break (with comments) is accepted between the clause prefix and its literals" % mod, where)

# ---- R7 -------------------------------------------------------------------------------------------
def run_r7(ctx, rule):
    """A scan that starts at a constant offset K > 0 steps over the K bytes in front of it without looking at
    them.  That is only right where those bytes were examined on the way: each was matched against a byte
    other than a line feed (`Some(b'c') = request_byte()`), or a literal without a line feed was matched at
    offset 0 (`fixed(reader, 0, b"c ") != 0`), and nothing was consumed in between.  An unexamined byte may
    be the line end itself: the scan would run into the next line."""
    facts = ctx.facts
    n = 0
    for fn in sorted(facts.fns.values(), key=lambda f: f.id):
        if fn.crate not in ("flussab_cnf", "flussab_aiger", "flussab_btor2"):
            continue
        sy = sym(fn)
        c = cfg(fn)
        for bb, t in fn.calls():
            cn = norm(util.cname(t))
            if not cn.startswith("flussab::text::") or cn.startswith(A.LR) or len(t["args"]) < 2:
                continue
            a = sy.operand(t["args"][1])
            if a[0] != "c" or not isinstance(a[1], int) or a[1] <= 0 or a[1] > 16:
                continue
            K = a[1]
            n += 1
            key = "%s/%s/start=%d" % (norm(fn.id), short(cn), K)
            known = {}
            for s, fa in guards.decision_facts(fn, bb):
                j = None
                if fa[0] == "eq" and fa[1][0] == "f" and fa[1][1][0] == "v" and fa[1][1][2] == "Some" and fa[1][1][1][0] == "call":
                    call = fa[1][1][1]
                    cnm = norm(call[2])
                    if cnm == DR + "request_byte":
                        j = 0
                    elif cnm in (DR + "request_byte_at_offset",) and len(call[3]) > 1 and call[3][1][0] == "c":
                        j = call[3][1][1]
                    if j is not None and fa[2] != 10:
                        known[j] = (s, "byte %d == %r" % (j, chr(fa[2]) if 32 <= fa[2] < 127 else fa[2]))
                elif fa[0] == "bool" and fa[1][0] == "call" and len(fa[1][3]) == 2 and ((fa[2] is True and fa[1][2].endswith(("PartialEq>::eq", "PartialEq::eq"))) or (fa[2] is False and fa[1][2].endswith(("PartialEq>::ne", "PartialEq::ne")))):
                    # `request_byte() == Some(b'c')`
                    for x, y in (fa[1][3], fa[1][3][::-1]):
                        if x[0] == "call" and y[0] == "agg" and y[2] == "Some" and len(y[3]) == 1 and y[3][0][0] == "c" and isinstance(y[3][0][1], int):
                            cnm = norm(x[2])
                            if cnm == DR + "request_byte":
                                j = 0
                            elif cnm == DR + "request_byte_at_offset" and len(x[3]) > 1 and x[3][1][0] == "c":
                                j = x[3][1][1]
                            if j is not None and y[3][0][1] != 10:
                                known[j] = (s, "byte %d == %r" % (j, chr(y[3][0][1]) if 32 <= y[3][0][1] < 127 else y[3][0][1]))
                elif fa[0] == "cmp" and fa[1] == "Ne" and fa[2][0] == "call" and norm(fa[2][2]) == "flussab::text::fixed" and fa[3] == ("c", 0):
                    args = fa[2][3]
                    lit = args[2] if len(args) > 2 else None
                    while lit is not None and lit[0] == "cast":
                        lit = lit[2]
                    if len(args) > 2 and args[1] == ("c", 0) and lit is not None and lit[0] == "cb":
                        for j, ch in enumerate(lit[1]):
                            if ch != 10:
                                known[j] = (s, "literal %r matched at offset 0" % lit[1])
                            else:
                                break
            missing = [j for j in range(K) if j not in known]
            if missing:
                rule.bad(key + "/unexamined-prefix", "%s starts %s at offset %d although byte %s in front of it was not matched against a byte other than a line feed on the way (an empty line would be stepped over)" % (short(norm(fn.id)), short(cn), K, missing), fn.loc(bb))
                continue
            stale = None
            for j in range(K):
                s = known[j][0]
                between = set()
                for x in fn.succs(s):
                    between |= c.reachable_from(x, avoid=[s])
                between = {x for x in between if x != bb and bb in c.reachable_from(x, avoid=[s])}
                for x in between:
                    tt = fn.term(x)
                    if tt["k"] != "call":
                        continue
                    d = norm(util.cname(tt))
                    if d.startswith(("core::", "<core::", "std::", "<std::")) or d in (DR + "request_byte", DR + "request_byte_at_offset", A.LR + "reader") or (d.startswith("flussab::text::") and not d.startswith(A.LR)):
                        continue
                    stale = d
            rule.check(stale is None, key + "/examined-prefix", "%s starts %s at offset %d over examined bytes only (%s)%s" % (short(norm(fn.id)), short(cn), K, "; ".join(sorted(set(v[1] for v in known.values()))), "" if stale is None else " -- but %s is called in between" % short(stale)), fn.loc(bb))
    rule.note("constant_offset_scans", n)


def run(ctx):
    r1 = ctx.rule("C07-R1", "blank-normal form: cursor-deciding token parsers are attempted only where leading blanks have been consumed", floor=28)
    run_r1(ctx, r1)
    r2 = ctx.rule("C07-R2", "a word ends exactly before space, tab, CR, LF or the end of input", floor=6)
    run_r2(ctx, r2)
    r3 = ctx.rule("C07-R3", "statement loops: comment lines and blank lines are skipped, alike in cnf / wcnf / gcnf", floor=20)
    run_r3(ctx, r3)
    r4 = ctx.rule("C07-R4", "a required line end accepts the end of input (missing final newline)", floor=9)
    run_r4(ctx, r4)
    r5 = ctx.rule("C07-R5", "a clause may continue behind a line break and comment lines", floor=7)
    run_r5(ctx, r5)
    r7 = ctx.rule("C07-R7", "a scan starting at a constant offset steps over examined bytes only (none of them can be the line end)", floor=2)
    run_r7(ctx, r7)
    # R8: a clause may continue on the next line -- also when it then fails: the error for a literal on a continuation
    # line is computed from a mark set on that line (mark discipline of C08-R1, run here too)
    from .c08 import run_r1 as c08_r1
    r8 = ctx.rule("C07-R8", "errors for tokens on a continuation line are located from a mark set on that line (shared with C08-R1)", floor=8)
    c08_r1(ctx, r8)
    # R9: numeral spelling -- leading zeros and `-0` leave the value unchanged because the digit scanners pass over the
    # whole run of digits, however long, and report the exact value or overflow: the exact-behaviour and None-iff-overflow
    # rules of C13, run here too
    from . import c13
    r9 = ctx.rule("C07-R9", "the digit scanners pass over every digit of a numeral and report its exact value or overflow, however it is spelled (shared with C13-R1b/R3/R4)", floor=60)
    c13.run_r1b(ctx, r9)
    c13.run_r3(ctx, r9)
    c13.run_r4(ctx, r9)
    # R6: the byte classes the layout freedoms rest on (LF | CRLF, space | tab) -- the exact behaviour comparison
    # of C16-R3 for text::newline and text::tabs_or_spaces, and their schedule independence (no reader call
    # other than the look-ahead: a CRLF split between two reads must still be one line end)
    from . import c16
    r6 = ctx.rule("C07-R6", "line ends are exactly LF | CRLF, blanks exactly space | tab, a skipped comment line reaches to its line feed -- however the bytes arrive (shared with C16-R1/R3)", floor=30)
    facts = ctx.facts
    for h, spec in (("newline", c16.spec_newline), ("tabs_or_spaces", c16.spec_tabs), ("next_newline", c16.spec_next_newline)):
        fid = c16.T + h
        fn = facts.fn(fid)
        for o in (0, 1):
            got, eng = scan.behaviour(facts, scan.root_key(facts, fid), (TOP, ("i", o)))
            c16.compare(r6, h, "offset=%d" % o, got, spec(o), fn, [a(o) for a in getattr(spec, "alternatives", [])])
        bad = []
        for k in cg.reach_above(facts, [scan.root_key(facts, fid)], set(c16.LOOKS)):
            if norm(facts.inst[k]["def"]) in c16.LOOKS:
                continue
            for c in facts.inst[k]["calls"]:
                d = norm(c.get("to_def") or c.get("def") or "")
                if (d.startswith(A.DR) or d.startswith(A.LR)) and d not in c16.LOOKS:
                    bad.append(d)
        r6.check(not bad, "%s/reader-effects" % h, "%s decides through the look-ahead primitive only (forbidden: %s)" % (h, sorted(set(bad))), fn.loc())
    # R11: a long comment line, blank run or skipped line is looked at across many refills: that the window survives
    # appending, realigning and shrinking is the reader's law (C02-R3/R4), run here for the layout freedoms that depend on it
    from . import c02
    r11 = ctx.rule("C07-R11", "long comment lines and blank runs: refills append to the window, realigning and shrinking keep it (shared with C02-R3/R4)", floor=6)
    c02.run_r3(ctx, r11)
    c02.run_r4(ctx, r11)
    from . import builders
    r10 = ctx.rule("C07-R10", "ignore_unknown_lines (sat_solver_log::Config) is set by its own setter only", floor=2)
    builders.run(ctx, r10, ["flussab_cnf::sat_solver_log::Config"], 1)
    return (
        "other",
        "typestate (blank-normal form) over all flussab-cnf parser entry points; exact end-of-word class; loop / dispatch shape rules for comments, blank lines, line continuation and missing final newline. Decides these structural necessary conditions, not the equality of the values parsed from two renderings.",
        {},
    )
