"""C12 — AIG renumbering preserves the circuit and yields a binary-legal order.

Functional equivalence over all circuits and assignments is value-level and NOT decided.  Decided are
structural clauses that are necessary for it:
R1 no recursion in the renumbering code (explicit stack); part of C05-R1, re-checked for these functions
R2 definition coverage: every kind of literal that is inserted as a *key* into the renumbering map
   (inputs, latch states, and-gate outputs) is covered by a redefinition test that yields LitAlreadyDefined
R3 every error variant has a producer on the right path and errors are propagated, never dropped
R4 ordering facts: inputs are sorted before a gate is hashed/pushed; a fresh code is taken (+2) before each
   pushed gate; inputs are numbered before latches before any transfer
R5 polarity discipline of LitMap (key masked with !1, polarity xor-ed in and out symmetrically)
"""
from . import util, guards, cg
from .cfg import cfg
from .common import norm
from .sym import sym, short, mentions, subexprs
from .c10 import strip_bb

AIG = "flussab_aiger::aig::"
KEY_KINDS = {"inputs": "input", "latches": "latch state", "and_gates": "and-gate output", "state": "latch state", "output": "and-gate output"}


def afn(facts, name):
    ids = [i for i in facts.fns if norm(i) == AIG + name]
    if not ids:
        from .facts import FactError
        raise FactError("anchor missing: " + AIG + name)
    return facts.fns[ids[0]]


def source_fields(f, e, seen=None, depth=0):
    """names of struct fields an expression's value is (transitively) read from, following locals through
    all of their definitions (iterators included)"""
    sy = sym(f)
    seen = seen if seen is not None else set()
    out = set()
    if depth > 8 or not isinstance(e, tuple):
        return out
    for x in subexprs(e):
        if x[0] == "f" and not x[2].isdigit():
            out.add(x[2])
        if x[0] == "l" and x[1] not in seen:
            seen.add(x[1])
            for d in sy.defs.get(x[1], []):
                if d[0] == "stmt":
                    out |= source_fields(f, sy.rvalue(d[3]), seen, depth + 1)
                else:
                    t = d[2]
                    for a in t["args"]:
                        out |= source_fields(f, sy.operand(a), seen, depth + 1)
    return out


def kinds_of(fields):
    ks = set()
    if "inputs" in fields and "and_gates" not in fields:
        ks.add("input")
    if "latches" in fields or "state" in fields and "next_state" not in fields:
        ks.add("latch state")
    if "and_gates" in fields or "output" in fields:
        ks.add("and-gate output")
    return ks


def run_r1(ctx, rule):
    facts = ctx.facts
    roots = [r for r in facts.roots if r in facts.inst and norm(facts.inst[r]["def"]).startswith((AIG + "Renumber::", AIG + "Aig::lit_defs", AIG + "LitMap::"))]
    reach = cg.reach(facts, roots)
    ws = set(k for k in reach if facts.inst[k]["crate"].startswith("flussab"))
    comps = [c for c in cg.sccs(facts, ws) if len(c) > 1 or cg.self_loop(facts, c[0])]
    rule.check(not comps and len(roots) >= 6, "renumber/recursion", "the renumbering code (%d roots, %d instances) is not recursive: the work list is the explicit stack" % (len(roots), len(ws)))
    f = afn(facts, "Renumber::transfer")
    sy = sym(f)
    pushes = [bb for bb, t in f.calls() if util.cname(t).endswith("Vec::push") and strip_bb(sy.operand(t["args"][0])) == ("f", ("l", 1), "stack")]
    pops = [bb for bb, t in f.calls() if util.cname(t).endswith("Vec::pop") and strip_bb(sy.operand(t["args"][0])) == ("f", ("l", 1), "stack")]
    rule.check(len(pushes) >= 2 and len(pops) >= 1, "transfer/explicit-stack", "transfer keeps its continuations on self.stack (%d pushes, %d pops)" % (len(pushes), len(pops)), f.loc())


def run_r2(ctx, rule):
    facts = ctx.facts
    # keys inserted into the renumbering map
    key_kinds = {}
    for name in ("Renumber::initialize", "Renumber::transfer"):
        f = afn(facts, name)
        sy = sym(f)
        for bb, t in f.calls():
            if norm(util.cname(t)) == AIG + "LitMap::insert":
                key = sy.operand(t["args"][1])
                ks = kinds_of(source_fields(f, key))
                for k in ks:
                    key_kinds.setdefault(k, []).append(f.loc(bb))
    # literals covered by a redefinition test
    tested = {}
    for f, bi, si, rv in util.aggregates(facts, lambda a: a == AIG + "AigStructureError"):
        if rv["variant"] != "LitAlreadyDefined":
            continue
        sy = sym(f)
        lit = sy.operand(rv["ops"][0])
        for k in kinds_of(source_fields(f, lit)):
            tested.setdefault(k, []).append(f.loc(bi))
    for k in ("input", "latch state", "and-gate output"):
        rule.check(k in key_kinds, "keys/%s" % k.replace(" ", "-"), "%s literals are inserted as keys of the renumbering map (%s)" % (k, key_kinds.get(k, ["nowhere"])[0]))
        rule.check(k in tested, "redefinition-test/%s" % k.replace(" ", "-"), "%s literals pass a redefinition test that yields LitAlreadyDefined (%s)" % (k, tested.get(k, ["no test found"])[0]))
    for k in key_kinds:
        if k not in ("input", "latch state", "and-gate output"):
            rule.bad("keys/unknown-%s" % k, "unknown kind of key inserted into the renumbering map: %s" % k)


def run_r3(ctx, rule):
    facts = ctx.facts
    prod = {}
    for f, bi, si, rv in util.aggregates(facts, lambda a: a == AIG + "AigStructureError"):
        prod.setdefault(rv["variant"], []).append((f, bi))
    f = afn(facts, "Renumber::transfer")
    sy = sym(f)
    for v in ("LitAlreadyDefined", "LitNotDefined", "FoundCycle"):
        rule.check(v in prod, "producer/%s" % v, "error %s has a producer (%s)" % (v, [short(x[0].id) for x in prod.get(v, [])]))
    # LitNotDefined: only where no definition was found (def is None)
    for f2, bi in prod.get("LitNotDefined", []):
        g = guards.holds(f2, bi, lambda fa: fa[0] in ("eq", "notin") and fa[1][0] == "discr" and fa[1][2] == "core::option::Option" and (fa[0] == "eq" and fa[2] == 0 or fa[0] == "notin" and 1 in fa[2]))
        rule.check(norm(f2.id) == AIG + "Renumber::transfer" and bool(g), "LitNotDefined/path", "LitNotDefined is produced in transfer only when no definition was found (%s)" % (guards.show_fact(f2, g[1])[:60] if g else "no None edge"), f2.loc(bi))
    # FoundCycle: behind the comparison of the literal with the one in the middle of the stack
    for f2, bi in prod.get("FoundCycle", []):
        # every way into the producing block is the true edge of a literal comparison (the or-pattern gives two)
        c2 = cfg(f2)
        s2 = sym(f2)
        g = True
        st = [bi]
        seenb = set()
        n_cmp = 0
        while st:
            x = st.pop()
            if x in seenb:
                continue
            seenb.add(x)
            for p in c2.pred[x]:
                tp = f2.term(p)
                if tp["k"] == "goto":
                    st.append(p)
                elif tp["k"] == "switch":
                    e = s2.operand(tp["discr"])
                    true_edge = any(v != 0 and tgt == x for v, tgt in tp["arms"]) or (tp["otherwise"] == x and all(v == 0 for v, _ in tp["arms"]))
                    if e[0] == "call" and "PartialEq" in e[2] and true_edge:
                        n_cmp += 1
                    else:
                        g = False
                else:
                    g = False
        g = g and n_cmp >= 1
        has_mid = any(util.cname(t).endswith("slice::get") and mentions(sy.operand(t["args"][1]), lambda x: x[0] == "bin" and x[1] == "Div" and x[3] == ("c", 2)) for bb, t in f.calls())
        rule.check(norm(f2.id) == AIG + "Renumber::transfer" and bool(g) and has_mid, "FoundCycle/path", "FoundCycle is produced when the literal equals the one stored in the middle of the stack", f2.loc(bi))
    # propagation: results of the fallible steps are passed to `?`
    n = 0
    for caller, callee in (("Renumber::initialize", "Renumber::transfer"), ("Renumber::new", "Renumber::initialize"), ("Renumber::new", "Aig::lit_defs"), ("Renumber::renumber_aig", "Renumber::new")):
        fc = afn(facts, caller)
        sc = sym(fc)
        for bb, t in fc.calls():
            if norm(util.cname(t)) != AIG + callee:
                continue
            n += 1
            used = util.result_propagated(facts, fc, bb)
            rule.check(used, "propagate/%s->%s/%d" % (caller, callee, n), "the error of %s in %s is handed on to the caller (`?`, returned as is, or `Err(e) => return Err(e)`)" % (callee, caller), fc.loc(bb))
    if n < 7:
        rule.bad("propagate/sites", "only %d fallible call sites found (7 expected)" % n, kind="anchor-missing")


def run_r4(ctx, rule):
    facts = ctx.facts
    f = afn(facts, "Renumber::transfer")
    sy = sym(f)
    c = cfg(f)
    sorts = [bb for bb, t in f.calls() if "sort_unstable_by_key" in util.cname(t)]
    gate_pushes = [bb for bb, t in f.calls() if util.cname(t).endswith("Vec::push") and strip_bb(sy.operand(t["args"][0])) == ("f", ("l", 1), "and_gates")]
    entries = [bb for bb, t in f.calls() if util.cname(t).endswith("HashMap::entry")]
    ok = bool(sorts) and all(c.dominates(sorts[0], b) for b in gate_pushes + entries) and len(gate_pushes) >= 2
    rule.check(ok, "transfer/sort-before-push", "the gate's inputs are sorted before the gate is hashed or pushed (%d pushes, %d hash lookups)" % (len(gate_pushes), len(entries)), f.loc(sorts[0]) if sorts else f.loc())
    aggs = [bi for f2, bi, si_, rv in util.aggregates(facts, lambda a: a == AIG + "OrderedAndGate") if f2 is f]
    ok2 = bool(sorts) and bool(aggs) and all(c.dominates(sorts[0], b) and b != sorts[0] for b in aggs)
    rule.check(ok2, "transfer/sort-before-gate-value", "every OrderedAndGate value in transfer is built from the inputs after they were sorted (%d values)" % len(aggs), f.loc(sorts[0]) if sorts else f.loc())
    # the sort key puts the larger code first: key = !code
    keyf = [x for i, x in facts.fns.items() if norm(i).startswith(AIG + "Renumber::transfer::{closure") and x.kind == "Closure"]
    okk = False
    for kf in keyf:
        ks = sym(kf)
        for b in kf.blocks:
            for s in b["stmts"]:
                if s["k"] == "assign" and s["lhs"]["l"] == 0 and s["rv"]["k"] == "un" and s["rv"]["op"] == "Not":
                    e = ks.rvalue(s["rv"])
                    if e[2][0] == "call" and norm(e[2][2]).endswith("Lit::code"):
                        okk = True
    rule.check(okk, "transfer/sort-key", "inputs are sorted by descending code (key = !code)", f.loc())
    # last_code += 2 dominates each push, and no other push lies between
    incs = []
    for f2, bi, si, name in util.field_stores(facts, AIG + "Renumber"):
        if f2 is f and name == "last_code" and si is not None:
            e = sy.rvalue(f.blocks[bi]["stmts"][si]["rv"])
            if e[0] == "bin" and e[1] == "Add" and e[3] == ("c", 2):
                incs.append(bi)
    for pb in gate_pushes:
        dom = [i for i in incs if c.dominates(i, pb) and not any(c.dominates(i, o) and c.dominates(o, pb) and o != pb for o in gate_pushes)]
        rule.check(bool(dom), "transfer/fresh-code-before-push", "a fresh code (last_code += 2) is taken before the gate is pushed", f.loc(pb))
    # initialize: inputs numbered before latches before any transfer
    fi = afn(facts, "Renumber::initialize")
    si_ = sym(fi)
    ci = cfg(fi)
    ins = []
    for bb, t in fi.calls():
        if norm(util.cname(t)) == AIG + "LitMap::insert":
            ks = kinds_of(source_fields(fi, si_.operand(t["args"][1])))
            ins.append((bb, ks))
    inp = [bb for bb, ks in ins if "input" in ks]
    lat = [bb for bb, ks in ins if "latch state" in ks]
    trs = [bb for bb, t in fi.calls() if norm(util.cname(t)) == AIG + "Renumber::transfer"]
    # loop order: the latch loop is only reachable after the input loop finished, etc.
    def after(a, b):
        """b is reachable from a but a is not reachable from b (loops are sequential)"""
        return b in ci.reachable_from(a) and a not in ci.reachable_from(b)
    ok = bool(inp) and bool(lat) and bool(trs) and all(after(i, l) for i in inp for l in lat) and all(after(l, t) for l in lat for t in trs)
    rule.check(ok, "initialize/order", "inputs are numbered first, then latches, then the roots are transferred (%d / %d / %d sites)" % (len(inp), len(lat), len(trs)), fi.loc())
    # each numbering step takes a fresh code
    for bb in inp + lat:
        t = fi.term(bb)
        v = si_.operand(t["args"][2])
        rule.check(v[0] == "call" and norm(v[2]).endswith("Lit::from_code") and v[3][0] == ("f", ("l", 1), "last_code"), "initialize/fresh-code/%d" % bb, "inputs / latches are mapped to from_code(last_code) after last_code += 2", fi.loc(bb))


def run_r5(ctx, rule):
    facts = ctx.facts
    def code_of(x, what):
        return x[0] == "call" and norm(x[2]).endswith("Lit::code") and x[3][0] == what
    mask = lambda x, key: x[0] == "bin" and x[1] == "BitAnd" and code_of(x[2], key) and x[3] == ("un", "Not", ("c", 1))
    pol = lambda x, key: x[0] == "bin" and x[1] == "BitAnd" and code_of(x[2], key) and x[3] == ("c", 1)
    # insert(key, value): entry key = code(key) & !1 ; entry value = code(value) ^ (code(key) & 1)
    f = afn(facts, "LitMap::insert")
    sy = sym(f)
    fc = [(bb, sy.operand(t["args"][0])) for bb, t in f.calls() if norm(util.cname(t)).endswith("Lit::from_code")]
    key_ok = any(mask(e, ("l", 2)) for bb, e in fc)
    val_ok = any(e[0] == "bin" and e[1] == "BitXor" and code_of(e[2], ("l", 3)) and pol(e[3], ("l", 2)) for bb, e in fc)
    rule.check(key_ok, "LitMap::insert/key-mask", "insert stores under the even key (code & !1)", f.loc())
    rule.check(val_ok, "LitMap::insert/value-polarity", "insert stores value ^ polarity(key)", f.loc())
    for name in ("LitMap::get", "LitMap::contains_key"):
        f = afn(facts, name)
        sy = sym(f)
        fc = [(bb, sy.operand(t["args"][0])) for bb, t in f.calls() if norm(util.cname(t)).endswith("Lit::from_code")]
        rule.check(any(mask(e, ("l", 2)) for bb, e in fc), "%s/key-mask" % name, "%s looks up the even key (code & !1)" % name, f.loc())
    # the polarity is xor-ed back out of what was found (in the function itself or in a closure of it)
    for name in ("LitMap::get", "LitMap::insert"):
        ok = False
        where = ""
        for i, f in facts.fns.items():
            if not norm(i).startswith(AIG + name) or f.crate != "flussab_aiger":
                continue
            sy = sym(f)
            for bb, t in f.calls():
                if not norm(util.cname(t)).endswith("Lit::from_code"):
                    continue
                e = sy.operand(t["args"][0])
                if e[0] == "bin" and e[1] == "BitXor":
                    for a, b in ((e[2], e[3]), (e[3], e[2])):
                        is_code = a[0] == "call" and norm(a[2]).endswith("Lit::code") and not (f.kind != "Closure" and a[3][0] in (("l", 2), ("l", 3)))
                        is_pol = b[0] == "bin" and b[1] == "BitAnd" and b[3] == ("c", 1)
                        if not is_pol and f.kind == "Closure" and b[0] == "f" and b[1] == ("l", 1):
                            # the polarity bit was computed by the enclosing function and captured
                            from .c06 import upvar_parent_expr
                            up = upvar_parent_expr(facts, f, b)
                            if up is not None:
                                pe = up[1]
                                for _ in range(4):
                                    if pe[0] == "l":
                                        pe2 = sym(up[0]).origin(pe)
                                        if pe2 == pe:
                                            break
                                        pe = pe2
                                is_pol = pe[0] == "bin" and pe[1] == "BitAnd" and pe[3] == ("c", 1)
                        if is_code and is_pol:
                            ok = True
                            where = f.loc(bb)
        rule.check(ok, "%s/polarity-out" % name, "%s returns found ^ polarity(key)" % name, where)
    # transfer: the returned literal carries the polarity difference lit ^ def.output
    f = afn(facts, "Renumber::transfer")
    sy = sym(f)
    n = 0
    for bb, t in f.calls():
        if norm(util.cname(t)).endswith("Lit::from_code"):
            e = sy.operand(t["args"][0])
            if e[0] == "bin" and e[1] == "BitXor" and e[2][0] == "bin" and e[2][1] == "BitXor":
                n += 1
                leaves = [e[3], e[2][2], e[2][3]]
                has_lit = any(code_of(x, ("l", 2)) or x[0] == "call" and norm(x[2]).endswith("Lit::code") and x[3][0][0] == "l" for x in leaves)
                has_out = any(x[0] == "call" and norm(x[2]).endswith("Lit::code") and x[3][0][0] == "f" and x[3][0][2] == "output" for x in leaves)
                rule.check(has_lit and has_out, "transfer/polarity/%d" % n, "the transferred literal is new ^ code(lit) ^ code(def.output)", f.loc(bb))
    if n < 2:
        rule.bad("transfer/polarity-sites", "only %d polarity computations found in transfer (2 expected)" % n, kind="anchor-missing")
    # every result handed back from the gate arm (State::Input1) is  map-value ^ code(lit) ^ code(def.output):
    # exactly three xor leaves -- the requested literal of this state, the defined output, and the code of
    # the value that a dominating LitMap::insert stored for that output (so get() later agrees with it)
    from . import table
    g = cfg(f)
    is_code = lambda x: x[0] == "call" and norm(x[2]).endswith("Lit::code")
    def leaves(e):
        if e[0] == "bin" and e[1] == "BitXor":
            return leaves(e[2]) + leaves(e[3])
        return [e]
    def state_field(e, name):
        if e[0] == "l":
            ds = def_exprs(e[1])  # (the gate definition is updated in place, so not sy.origin)
            if len(ds) != 1:
                return False
            e = ds[0][1]
        return e[0] == "f" and e[2] == name and e[1][0] == "v" and e[1][2] == "Input1"
    def def_exprs(l):
        out = []
        for d in sy.defs.get(l, []):
            if d[0] == "stmt":
                out.append((d[1], sy.rvalue(d[3], 1)))
            else:
                c = d[2].get("callee", {})
                out.append((d[1], ("call", d[1], c.get("res") or c.get("def") or "?", tuple(sy.operand(a, 1) for a in d[2]["args"]))))
        return out
    def same_value(x, v):
        """x is (always) the code of the literal v"""
        if is_code(x) and x[3][0] == v:
            return True
        if x[0] != "l" or v[0] != "l":
            return False
        xs, vs = def_exprs(x[1]), def_exprs(v[1])
        if not xs or not vs:
            return False
        # both unpacked from one tuple that every branch builds as (literal, its code) [in any field order]
        if len(xs) == 1 and len(vs) == 1 and xs[0][1][0] == "f" and vs[0][1][0] == "f" and xs[0][1][1] == vs[0][1][1] and xs[0][1][1][0] == "l":
            T = xs[0][1][1][1]
            try:
                ix, iv = int(xs[0][1][2]), int(vs[0][1][2])
            except ValueError:
                return False
            tdefs = def_exprs(T)
            def rel(xe, ve):
                xo = sy.origin(xe) if xe[0] == "l" else xe
                vo = sy.origin(ve) if ve[0] == "l" else ve
                if is_code(xo) and xo[3][0] in (ve, vo):
                    return True
                return vo[0] == "call" and norm(vo[2]).endswith("Lit::from_code") and vo[3][0] in (xe, xo)
            ok = bool(tdefs)
            for tb, te in tdefs:
                if not (te[0] == "agg" and te[1] == "tuple" and max(ix, iv) < len(te[3]) and rel(te[3][ix], te[3][iv])):
                    ok = False
            return ok
        def linked(xa, va):
            (xb, xe), (vb, ve) = xa, va
            if is_code(xe) and xe[3][0] == v and g.dominates(vb, xb):
                return True
            return ve[0] == "call" and norm(ve[2]).endswith("Lit::from_code") and ve[3][0] == x and g.dominates(xb, vb)
        return all(any(linked(xa, va) for va in vs) for xa in xs) and all(any(linked(xa, va) for xa in xs) for va in vs)
    inserts = [(bb, sy.operand(t["args"][1]), sy.operand(t["args"][2])) for bb, t in f.calls() if norm(util.cname(t)).endswith("LitMap::insert")]
    m = 0
    for f2, bi, si, rv in util.aggregates(facts, lambda a: a == AIG + "State"):
        if f2 is not f or rv["variant"] != "Return":
            continue
        ctxv = table.variant_context(facts, f, bi)
        if ("State", "Input1") not in ctxv:
            continue
        m += 1
        e = sy.operand(rv["ops"][0])
        if e[0] == "l":
            e = sy.origin(e)
        why = None
        if not (e[0] == "call" and norm(e[2]).endswith("Lit::from_code")):
            why = "not built by from_code"
        else:
            ls = leaves(e[3][0])
            lit = [x for x in ls if is_code(x) and state_field(x[3][0], "lit")]
            out = [x for x in ls if is_code(x) and x[3][0][0] == "f" and x[3][0][2] == "output" and state_field(x[3][0][1], "def")]
            rest = [x for x in ls if x not in lit and x not in out]
            if len(ls) != 3 or len(lit) != 1 or len(out) != 1 or len(rest) != 1:
                why = "xor leaves are not {value, code(lit), code(def.output)}"
            else:
                dom = [(bb, k, v) for bb, k, v in inserts if g.dominates(bb, bi) and k == out[0][3][0]]
                if not dom:
                    why = "no dominating lit_map.insert(def.output, ..)"
                elif not any(same_value(rest[0], v) for bb, k, v in dom):
                    why = "the value leaf is not the code of the literal stored by lit_map.insert(def.output, ..)"
        rule.check(why is None, "transfer/return-polarity/%d" % m, "a literal returned from the gate arm is from_code(code(stored) ^ code(lit) ^ code(def.output))%s" % (" -- " + why + ": " + sy.show(e)[:80] if why else ""), f.loc(bi))
    if m < 2:
        rule.bad("transfer/return-sites", "only %d returns from the gate arm found (2 expected)" % m, kind="anchor-missing")

# ---- R6 -----------------------------------------------------------------------------------------
def run_r6(ctx, rule):
    """every constant fold is an identity of AND: for each path of the fold decision that assigns a replacement,
    AND(lit(c0), lit(c1)) == replacement for every pair of input codes satisfying the path's conditions.  The
    conditions only compare the two codes with 0 / 1 / each other (possibly through `& !1`, `^ 1`, `| 1`), so the
    six codes {false, true, x, !x, y, !y} exhibit every case (small-model argument); decided by enumeration of
    the extracted *conditions*, the function is not run."""
    facts = ctx.facts
    f = afn(facts, "Renumber::transfer")
    sy = sym(f)
    c = cfg(f)
    maps = [(bb, t) for bb, t in f.calls() if norm(util.cname(t)).endswith("::map") and "array" in util.cname(t)]
    if len(maps) != 1 or maps[0][1]["dest"]["p"]:
        rule.bad("fold/anchor", "anchor missing: `codes = inputs.map(|l| l.code())` in transfer (found %d)" % len(maps), kind="anchor-missing")
        return
    mbb, mt = maps[0]
    CL = mt["dest"]["l"]
    arr = sy.operand(mt["args"][0])
    clo = sy.operand(mt["args"][1])
    # the closure maps a literal to its code
    ok_clo = False
    for i, g in facts.fns.items():
        if g.kind == "Closure" and clo[0] == "agg" and clo[1] == g.id or (g.kind == "Closure" and norm(i).startswith(norm(f.id) + "::{closure") and any(norm(util.cname(t2)).endswith("Lit::code") for _, t2 in g.calls()) and len(list(g.calls())) == 1):
            ok_clo = True
    rule.check(ok_clo and arr[0] == "f" and arr[2] == "inputs", "fold/codes", "codes[i] is the code of def.inputs[i]", f.loc(mbb))
    start = mt["target"]
    # replacement assignments: X = Some(v) in the region behind the map call, stored into one local
    repl = []
    for fn2, bi, si, rv in util.aggregates(facts, lambda a: a == "core::option::Option"):
        if fn2 is f and rv["variant"] == "Some" and c.dominates(start, bi):
            v = sy.operand(rv["ops"][0])
            repl.append((bi, v))
    M64 = (1 << 64) - 1

    def ev(e, cs):
        k = e[0]
        if k == "c":
            return e[1]
        if k == "idx" and (e[1] == ("l", CL) or (e[1][0] == "call" and e[1][1] == mbb)):
            i = ev(e[2], cs)
            return cs[i]
        if k == "cast":
            return ev(e[2], cs)
        if k == "un" and e[1] == "Not":
            v = ev(e[2], cs)
            return (not v) if isinstance(v, bool) else (~v) & M64
        if k == "bin":
            a, b = ev(e[2], cs), ev(e[3], cs)
            op = e[1].replace("Unchecked", "")
            return {"Eq": lambda: a == b, "Ne": lambda: a != b, "Lt": lambda: a < b, "Le": lambda: a <= b, "Gt": lambda: a > b, "Ge": lambda: a >= b,
                    "BitAnd": lambda: a & b, "BitOr": lambda: a | b, "BitXor": lambda: a ^ b, "Add": lambda: (a + b) & M64, "Sub": lambda: (a - b) & M64}[op]()
        raise KeyError(str(e)[:60])

    def holds(fact, cs):
        if fact[0] == "cmp":
            return ev(("bin", fact[1], fact[2], fact[3]), cs)
        if fact[0] == "bool":
            return bool(ev(fact[1], cs)) == fact[2]
        if fact[0] == "eq":
            return ev(fact[1], cs) == fact[2]
        if fact[0] == "notin":
            return ev(fact[1], cs) not in fact[2]
        raise KeyError(str(fact)[:60])

    def code_of(v):
        """replacement literal as (kind, payload): constant code or one of the inputs"""
        if v[0] == "call" and norm(v[2]).endswith("Lit::from_code") and v[3][0][0] == "c":
            return ("const", v[3][0][1])
        if v[0] == "idx" and v[1][0] == "f" and v[1][2] == "inputs" and v[2][0] == "c":
            return ("input", v[2][1])
        return None

    def val(code, env):
        if code < 2:
            return bool(code)
        b = env[(code >> 1) - 1]
        return (not b) if code & 1 else b

    D = range(6)
    n_paths = 0
    targets = {}
    for bi, v in repl:
        co = code_of(v)
        if co is None:
            continue  # not a fold replacement (e.g. Some(..) of another computation)
        targets[bi] = co
    if len(targets) < 3:
        rule.bad("fold/replacements", "only %d fold replacements found (3 counted: constant false, inputs[1], inputs[0])" % len(targets), kind="anchor-missing")
    # acyclic paths from the start of the decision to each replacement block
    def paths_to(goal):
        out = []
        st = [(start, [start])]
        while st:
            x, p = st.pop()
            if x == goal:
                out.append(p)
                continue
            if x in targets or len(p) > 60:
                continue
            for s2 in c.succ[x]:
                if s2 not in p and not f.blocks[s2]["cleanup"] and c.dominates(start, s2):
                    st.append((s2, p + [s2]))
        return out
    per = {}
    for goal, co in sorted(targets.items()):
        cname = "const%d" % co[1] if co[0] == "const" else "inputs%d" % co[1]
        for p in sorted(paths_to(goal)):
            n_paths += 1
            per[cname] = per.get(cname, 0) + 1
            conds = []
            for a, b in zip(p, p[1:]):
                if f.term(a)["k"] == "switch":
                    fs = [fa for tgt, fa in guards.switch_edges(f, a) if tgt == b]
                    conds += fs
            bad = None
            try:
                for c0 in D:
                    for c1 in D:
                        if c1 > c0:
                            continue  # inputs are sorted by descending code (C12-R4)
                        if not all(holds(fa, (c0, c1)) for fa in conds):
                            continue
                        rc = co[1] if co[0] == "const" else (c0, c1)[co[1]]
                        for env in ((False, False), (False, True), (True, False), (True, True)):
                            if (val(c0, env) and val(c1, env)) != val(rc, env):
                                bad = "inputs with codes (%d, %d) are folded to %s, but AND differs (e.g. for x=%s, y=%s)" % (c0, c1, "code %d" % rc, env[0], env[1])
                                break
                        if bad:
                            break
                    if bad:
                        break
            except KeyError as e:
                rule.bad("fold/condition/%s/%d" % (cname, per[cname]), "a fold condition is outside the decided fragment: %s" % e, f.loc(goal), kind="unmodelled-idiom")
                continue
            names = {0: "x", 1: "true"}
            rule.check(bad is None, "fold/identity/%s/%d" % (cname, per[cname]), "fold to %s under [%s] is an identity of AND%s" % ("constant %d" % co[1] if co[0] == "const" else "inputs[%d]" % co[1], "; ".join(guards.show_fact(f, fa) for fa in conds)[:120], "" if bad is None else " -- " + bad), f.loc(goal))
    rule.note("fold_paths", n_paths)


# ---- R7 -----------------------------------------------------------------------------------------
def run_r7(ctx, rule):
    """two numberings live side by side in transfer, with the same type: literals of the source circuit (the requested
    `lit`, a definition's `output`, its `inputs` as long as they have not been replaced) and literals of the renumbered
    circuit (`transferred`, what the map returns, an input slot after `inputs[i] = transferred`).  Comparing one with
    the other, descending into a renumbered literal, or keying the map with one is meaningless.  Decided with a
    flow-sensitive tag per expression (slot stores by dominance); untagged expressions are not judged."""
    facts = ctx.facts
    f = afn(facts, "Renumber::transfer")
    sy = sym(f)
    c = cfg(f)
    from . import table

    # stores  D.inputs[i] = X
    slot_stores = []
    for bi, b in enumerate(f.blocks):
        if b["cleanup"]:
            continue
        for si, s_ in enumerate(b["stmts"]):
            if s_["k"] != "assign":
                continue
            pr = s_["lhs"]["p"]
            if len(pr) == 2 and isinstance(pr[0], dict) and pr[0].get("name") == "inputs" and isinstance(pr[1], dict) and ("cidx" in pr[1] or "index" in pr[1]):
                idx = pr[1].get("cidx")
                if idx is None:
                    iv = sy.local(pr[1]["index"], 1)
                    idx = iv[1] if iv[0] == "c" else None
                slot_stores.append((bi, s_["lhs"]["l"], idx, sy.operand(s_["rv"]["a"]) if s_["rv"]["k"] == "use" else sy.rvalue(s_["rv"])))

    def tag(e, bb, depth=0):
        if depth > 4:
            return None
        if e[0] == "l":
            o = sy.origin(e)
            if o != e:
                return tag(o, bb, depth + 1)
            return None
        if e[0] == "f" and e[2] == "transferred":
            return "new"
        if e[0] == "f" and e[2] in ("lit", "output"):
            return "old"
        if e[0] == "idx" and e[1][0] == "f" and e[1][2] == "inputs" and e[2][0] == "c":
            base = e[1][1]
            # replaced in this arm?
            for sb, dl, idx, val in slot_stores:
                if idx == e[2][1] and base == ("l", dl) and (c.dominates(sb, bb)) and tag(val, sb, depth + 1) == "new":
                    return "new"
            ctxv = table.variant_context(facts, f, bb)
            if ("State", "Input1") in ctxv and e[2][1] == 0:
                return "new"  # replaced in the Input0 arm and carried here by Continuation::Input1 (checked below)
            if any(v in ctxv for v in (("State", "Input0"), ("State", "Input1"), ("State", "Transfer"))):
                return "old"
            return None
        if e[0] == "f" and e[1][0] == "v" and e[1][2] == "Some" and e[1][1][0] == "call" and norm(e[1][1][2]).endswith("LitMap::get"):
            return "new"
        return None

    n = 0
    for bb, t in f.calls():
        cn = norm(util.cname(t))
        d = norm(t["callee"].get("def", ""))
        if d in ("core::cmp::PartialEq::eq", "core::cmp::PartialEq::ne") and len(t["args"]) == 2:
            a, b2 = sy.operand(t["args"][0]), sy.operand(t["args"][1])
            ta, tb = tag(a, bb), tag(b2, bb)
            if ta and tb:
                n += 1
                rule.check(ta == tb, "numbering/compare/%d" % n, "literals compared in transfer belong to the same numbering (%s is %s, %s is %s)" % (sy.show(a)[:30], ta, sy.show(b2)[:30], tb), f.loc(bb))
        if cn.endswith("LitMap::insert") and len(t["args"]) == 3:
            tk, tv = tag(sy.operand(t["args"][1]), bb), tag(sy.operand(t["args"][2]), bb)
            if tk:
                n += 1
                rule.check(tk == "old" and tv in (None, "new"), "numbering/insert/%d" % n, "lit_map is keyed by a source literal and stores a renumbered one (key %s, value %s)" % (tk, tv), f.loc(bb))
    # descending: State::Transfer { lit } always gets a source literal; Continuation::Input1 is built only after slot 0 was replaced
    for f2, bi, si, rv in util.aggregates(facts, lambda a: a in (AIG + "State", AIG + "Continuation")):
        if f2 is not f:
            continue
        if rv["adt"].endswith("State") and rv["variant"] == "Transfer":
            tg = tag(sy.operand(rv["ops"][0]), bi)
            if tg:
                n += 1
                rule.check(tg == "old", "numbering/descend/%d" % n, "the traversal descends into a literal of the source circuit (got a %s one)" % tg, f.loc(bi))
        if rv["adt"].endswith("Continuation") and rv["variant"] == "Input1":
            names = rv.get("fields") or []
            if "def" in names:
                dexp = sy.operand(rv["ops"][names.index("def")])
                ok = dexp[0] == "l" and any(dl == dexp[1] and idx == 0 and c.dominates(sb, bi) and tag(val, sb) == "new" for sb, dl, idx, val in slot_stores)
                n += 1
                rule.check(ok, "numbering/continuation-input1", "Continuation::Input1 carries a definition whose first input has been replaced by its renumbered literal", f.loc(bi))
    if n < 4:
        rule.bad("numbering/sites", "only %d tagged sites found in transfer (at least 4 counted: cycle test, two map inserts, descents)" % n, kind="anchor-missing")

# ---- R8 -----------------------------------------------------------------------------------------
def _key_class(e):
    """('plain', x) | ('flip', x) | ('masked', x) | ('const', c) | ('other', e) for a table key expression"""
    e = strip_bb(e)
    if e[0] == "call" and e[2].endswith("Lit::from_code") and len(e[3]) == 1:
        a = e[3][0]
        if a[0] == "c":
            return ("const", a[1])
        if a[0] == "bin" and a[1] == "BitXor":
            for x, y in ((a[2], a[3]), (a[3], a[2])):
                if x == ("c", 1) and y[0] == "call" and y[2].endswith("Lit::code") and len(y[3]) == 1:
                    return ("flip", y[3][0])
        if a[0] == "bin" and a[1] == "BitAnd":
            for x, y in ((a[2], a[3]), (a[3], a[2])):
                if x == ("un", "Not", ("c", 1)) and y[0] == "call" and y[2].endswith("Lit::code") and len(y[3]) == 1:
                    return ("masked", y[3][0])
        if a[0] == "call" and a[2].endswith("Lit::code") and len(a[3]) == 1:
            return ("plain", a[3][0])
        return ("other", e)
    if _is_source_lit(e):
        return ("plain", e)
    return ("other", e)


def _is_source_lit(e):
    """a literal read from the circuit as it stands: a variable, a field, an element (`v[i]`, `v[i].output`)"""
    if e[0] == "l":
        return True
    if e[0] == "f":
        return _is_source_lit(e[1])
    if e[0] == "call" and e[2].rsplit("::", 1)[-1] in ("index", "get_unchecked", "deref") and e[3]:
        return _is_source_lit(e[3][0])
    return False


def run_r8(ctx, rule):
    """The definition table (`HashMap<L, LitDef>`) is keyed by output literals *as written* -- either polarity.
    Whoever asks it whether a variable is defined must ask for both polarities of the literal; a key normalised
    to one polarity misses a definition recorded under the other (and the redefinition error with it).  Decided
    per function from the key expressions: inserts say how the table is keyed, every query must agree."""
    facts = ctx.facts
    sites = []
    for f in facts.fns.values():
        if f.crate != "flussab_aiger" or not norm(f.id).startswith(AIG):
            continue
        sy = sym(f)
        for bb, t in f.calls():
            cn = norm(util.cname(t))
            m = cn.rsplit("::", 1)[-1]
            if "HashMap" not in cn or m not in ("insert", "contains_key", "get", "get_mut", "remove", "remove_entry", "entry", "retain", "clear", "drain") or (len(t["args"]) < 2 and m not in ("clear", "drain")):
                continue
            p0 = t["args"][0].get("mv") or t["args"][0].get("cp")
            ty = f.locals[p0["l"]].get("s", "") if p0 else ""
            if "LitDef" not in ty:
                continue
            sites.append((f, bb, m, _key_class(sy.operand(t["args"][1])), sy))
    # the table is built once (Aig::lit_defs) and only asked afterwards: a walk that takes definitions out of it cannot
    # find them again when it comes back to a gate (the second lap of a cycle, a gate shared by two roots)
    for f, bb, m, k, _sy in sites:
        if m in ("remove", "remove_entry", "get_mut", "entry", "retain", "clear", "drain") or (m == "insert" and not norm(f.id).endswith("Aig::lit_defs")):
            rule.bad("%s/%s/table-changed" % (norm(f.id), m), "%s changes the definition table through %s: it is built by lit_defs and read-only afterwards" % (short(norm(f.id)), m), f.loc(bb))
    sites = [x for x in sites if x[2] in ("insert", "contains_key", "get")]
    ins = [x for x in sites if x[2] == "insert"]
    if len(ins) < 3 or len(sites) < 6:
        rule.bad("defs/sites", "only %d inserts / %d uses of the definition table found (3 / 6 counted)" % (len(ins), len(sites)), kind="anchor-missing")
        return
    keyed = set(k[0] for _, _, _, k, _ in ins if k[0] != "const")
    as_written = "plain" in keyed
    rule.check(keyed <= {"plain"} or keyed <= {"masked"}, "defs/insert-keys", "the definition table is keyed uniformly (%s)" % ("by literals as written" if keyed == {"plain"} else sorted(keyed)), ins[0][0].loc(ins[0][1]))
    per_fn = {}
    for f, bb, m, k, sy in sites:
        per_fn.setdefault(f.id, []).append((f, bb, m, k, sy))
    for fid, ss in sorted(per_fn.items()):
        f = ss[0][0]
        sy = ss[0][4]
        nid = norm(fid)
        # arrays `[x, from_code(1 ^ x.code())]` whose elements are looked up one after the other
        both_arrays = False
        for b in f.blocks:
            for st in b["stmts"]:
                if st["k"] == "assign" and st["rv"]["k"] == "agg" and st["rv"].get("ak") == "array" and len(st["rv"]["ops"]) == 2:
                    ks = [_key_class(sy.operand(o)) for o in st["rv"]["ops"]]
                    if sorted(k[0] for k in ks) == ["flip", "plain"] and strip_bb(ks[0][1]) == strip_bb(ks[1][1]):
                        both_arrays = True
        plain = [strip_bb(k[1]) for _, _, m, k, _ in ss if k[0] == "plain"]
        flip = [strip_bb(k[1]) for _, _, m, k, _ in ss if k[0] == "flip"]
        for f, bb, m, k, _ in ss:
            key = "%s/%s/%s" % (nid, m, sy.show(k[1]).replace(" ", "") if k[0] != "const" else "const")
            if k[0] == "const":
                rule.ok("constant key", f.loc(bb))
                continue
            if not as_written:
                rule.check(k[0] == "masked", key + "/normalised", "the table is keyed by normalised literals and %s asks with a normalised key" % short(nid), f.loc(bb))
                continue
            if k[0] in ("masked", "other"):
                rule.bad(key + "/key-domain", "%s asks the definition table, which is keyed by literals as written, with the %s key %s: a definition recorded under the other polarity is not found" % (short(nid), "normalised" if k[0] == "masked" else "computed", sy.show(k[1])), f.loc(bb))
                continue
            x = strip_bb(k[1])
            other = flip if k[0] == "plain" else plain
            ok = x in other or (k[0] == "plain" and x[0] == "l" and both_arrays)
            rule.check(ok, key + "/both-polarities", "%s asks for %s under both polarities" % (short(nid), sy.show(k[1])), f.loc(bb))

# ---- R9 -----------------------------------------------------------------------------------------
def _last_fields(f, e, depth=0):
    """names of the fields a literal value is read from, one step back (a variable: over all its definitions)"""
    sy = sym(f)
    if depth > 3:
        return set()
    if e[0] == "f" and not e[2].isdigit():
        return {e[2]}
    if e[0] in ("f", "v", "cast"):
        return _last_fields(f, e[1] if e[0] != "cast" else e[2], depth + 1)
    if e[0] == "l":
        out = set()
        for d in sy.defs.get(e[1], []):
            if d[0] == "stmt":
                out |= _last_fields(f, sy.rvalue(d[3], 1), depth + 1)
        if not out and sy.is_arg(e[1]):
            nm = f.vars.get(e[1]) if isinstance(f.vars, dict) else None
            if nm:
                out.add(nm)
        return out
    return set()


def run_r9(ctx, rule):
    """Two literals are compared for identity only when they are of the same kind: the literal a transfer was asked
    for (`lit`, either polarity of its variable) against the literal another transfer was asked for -- not against
    the output literal of a definition as written, which names the same gate under one polarity only (a cycle
    entered through an inverted edge would not be recognised)."""
    facts = ctx.facts
    n = 0
    for name in ("Renumber::transfer", "Renumber::initialize"):
        f = afn(facts, name)
        sy = sym(f)
        seen = set()
        for bb, t in f.calls():
            cn = norm(util.cname(t))
            if "PartialEq" not in cn or len(t["args"]) != 2:
                continue
            a, b = [sy.operand(x) for x in t["args"]]
            fa, fb = _last_fields(f, a), _last_fields(f, b)
            if not fa or not fb:
                continue
            k = (tuple(sorted(fa)), tuple(sorted(fb)))
            if k in seen:
                continue
            seen.add(k)
            n += 1
            rule.check(fa == fb, "%s/compare/%s-vs-%s" % (name, "+".join(sorted(fa)), "+".join(sorted(fb))), "%s compares literals of the same kind (%s with %s)" % (name, sorted(fa), sorted(fb)), f.loc(bb))
    if n == 0:
        rule.bad("compare/sites", "no literal comparison found in transfer (the cycle test was confirmed by hand)", kind="anchor-missing")


# ---- R10: every root literal is transferred on every successful initialisation -------------------------------------
ROOTS = {
    "next_state": "latch next-state literals",
    "outputs": "outputs",
    "bad_state_properties": "bad-state properties",
    "invariant_constraints": "invariant constraints",
    "fairness_constraints": "fairness constraints",
    "justice_properties": "justice properties",
}


def closure_fields(facts, f, e, seen=None, depth=0):
    """field names read inside the closures an expression's value is derived through (`.iter().map(|l| l.next_state)`)"""
    sy = sym(f)
    seen = seen if seen is not None else set()
    out = set()
    if depth > 8 or not isinstance(e, tuple):
        return out
    for x in subexprs(e):
        if x[0] == "agg" and isinstance(x[1], str) and "{closure" in x[1]:
            for i, g in facts.fns.items():
                if i == x[1] or norm(i) == norm(x[1]):
                    sg = sym(g)
                    for b in g.blocks:
                        if b["cleanup"]:
                            continue
                        for s_ in b["stmts"]:
                            if s_["k"] == "assign":
                                for y in subexprs(sg.rvalue(s_["rv"])):
                                    if y[0] == "f" and not y[2].isdigit():
                                        out.add(y[2])
        if x[0] == "l" and x[1] not in seen:
            seen.add(x[1])
            for d in sy.defs.get(x[1], []):
                if d[0] == "stmt":
                    out |= closure_fields(facts, f, sy.rvalue(d[3]), seen, depth + 1)
                else:
                    for a in d[2]["args"]:
                        out |= closure_fields(facts, f, sy.operand(a), seen, depth + 1)
    return out


def run_r10(ctx, rule):
    """`renumber_aig` reads the new name of every root literal with `lit_map.get(lit).unwrap()`; that the literal is
    defined at all (and the `LitNotDefined` / cycle errors for it) is established by `initialize` transferring it.  So
    on *every* path of `initialize` that returns Ok, every root section must have been walked completely with a
    `transfer` per literal: the loop over the section lies on every way to Ok (dominance), every iteration reaches the
    transfer, and the loop is left towards Ok only when its iterator is exhausted."""
    facts = ctx.facts
    f = afn(facts, "Renumber::initialize")
    sy = sym(f)
    c = cfg(f)
    # locals whose value becomes the function's result (a helper merged into this function hands its own result on)
    ret_locals = {0}
    for _ in range(6):
        for b in f.blocks:
            for s_ in b["stmts"]:
                if s_["k"] == "assign" and not s_["lhs"]["p"] and s_["lhs"]["l"] in ret_locals and s_["rv"]["k"] == "use":
                    src = s_["rv"]["a"].get("mv") or s_["rv"]["a"].get("cp")
                    if src is not None and not src["p"]:
                        ret_locals.add(src["l"])
    oks = [bi for bi, b in enumerate(f.blocks) if not b["cleanup"] and bi in c.reach and any(s["k"] == "assign" and s["lhs"]["l"] in ret_locals and not s["lhs"]["p"] and s["rv"]["k"] == "agg" and s["rv"].get("adt") == "core::result::Result" and s["rv"].get("variant") == "Ok" for s in b["stmts"])]
    # an `Ok(())` that an inlined helper hands to a `?` of this function is not the function's own success
    final_oks = [o for o in oks if not any(norm(util.cname(t2)).endswith("Try>::branch") for b2, t2 in f.calls() if b2 in c.reachable_from(o))]
    if final_oks:
        oks = final_oks
    def leads_into_error(bi):
        """the `?` of a transfer: the Break arm builds the error (from_residual / Err(..)) before anything else"""
        for _ in range(5):
            if carries_error(bi):
                return True
            nx = [x for x in c.succ[bi] if not f.blocks[x]["cleanup"]]
            if len(nx) != 1:
                return False
            bi = nx[0]
        return False

    def carries_error(bi):
        b = f.blocks[bi]
        if any(s_["k"] == "assign" and s_["rv"]["k"] == "agg" and s_["rv"].get("adt") == "core::result::Result" and s_["rv"].get("variant") == "Err" for s_ in b["stmts"]):
            return True
        t_ = b["term"]
        return t_["k"] == "call" and norm(util.cname(t_)).endswith("from_residual")
    if not oks:
        rule.bad("initialize/no-ok", "anchor missing: initialize has no `Ok(..)` return", f.loc(), kind="anchor-missing")
        return
    loops = c.loops()
    can_ok = set()
    for o in oks:
        can_ok |= set(x for x in c.reach if o in c.reachable_from(x))

    def exhaustion_test(bi):
        t = f.blocks[bi]["term"]
        if t["k"] != "switch":
            return False
        e = sy.operand(t["discr"]) if "discr" in t else None
        if e is None:
            return False
        return mentions(e, lambda x: x[0] == "call" and norm(x[2]).rsplit("::", 1)[-1] == "next")

    transfers = [(bb, t) for bb, t in f.calls() if norm(util.cname(t)) == AIG + "Renumber::transfer"]
    for root, what in sorted(ROOTS.items()):
        why = "no transfer of a literal read from `%s`" % root
        good = False
        where = f.loc()
        for bb, t in transfers:
            src = source_fields(f, sy.operand(t["args"][1])) | closure_fields(facts, f, sy.operand(t["args"][1]))
            if root not in src:
                continue
            where = f.loc(bb)
            chain = sorted([(h, body) for h, body in loops.items() if bb in body], key=lambda hb: -len(hb[1]))  # outermost first
            if not chain:
                why = "the transfer of `%s` is not inside a loop over the section" % root
                continue
            h1, body1 = chain[0]
            bad_ok = [o for o in oks if not c.dominates(h1, o)]
            if bad_ok:
                why = "initialize can return Ok without walking `%s` (the Ok at %s is not behind the loop)" % (root, f.loc(bad_ok[0]))
                continue
            ok_chain = True
            # each inner loop runs on every iteration of the loop around it; the transfer on every iteration of the innermost
            seq = chain + [(bb, None)]
            for (h, body), (hn, _b) in zip(chain, seq[1:]):
                latches = [a for a in body if h in c.succ[a]]
                if not all(c.dominates(hn, a) for a in latches):
                    ok_chain = False
                    why = "an iteration of the loop over `%s` can go on without reaching the transfer" % root
                # left towards Ok only by exhaustion
                for a in body:
                    for b2 in c.succ[a]:
                        if b2 not in body and b2 in can_ok and not f.blocks[b2]["cleanup"] and not exhaustion_test(a) and not any(carries_error(e_) and e_ in body and c.dominates(e_, a) for e_ in body) and not leads_into_error(b2):
                            ok_chain = False
                            why = "the loop over `%s` can be left towards Ok before its iterator is exhausted (%s)" % (root, f.loc(a))
            if ok_chain:
                good = True
                break
        rule.check(good, "initialize/root-transferred/%s" % root, "every successful initialisation has transferred all %s%s" % (what, "" if good else " - " + why), where)


# ---- R11: the constant cannot be redefined, in either polarity ------------------------------------------------------
def run_r11(ctx, rule):
    """Literals 0 and 1 are the constant.  `lit_defs` refuses an input or an and-gate output that is the constant in
    *either* polarity: today by seeding the table with key 0 before anything else is inserted (the per-item question
    then covers both polarities, C12-R8).  Accepted alternatively: a test in front of the insert that excludes both
    codes (`code < 2`, `code >> 1 == 0`, `code & !1 == 0`, or the two equalities).  A test for code 0 alone lets a graph
    through that defines literal 1, and the renumbering then overwrites the constant's entry in the literal map."""
    facts = ctx.facts
    f = afn(facts, "Aig::lit_defs")
    sy = sym(f)
    c = cfg(f)
    ins = []
    for bb, t in f.calls():
        cn = norm(util.cname(t))
        if "HashMap" in cn and cn.rsplit("::", 1)[-1] == "insert" and len(t["args"]) >= 2:
            ins.append((bb, _key_class(sy.operand(t["args"][1]))))
    consts = [bb for bb, k in ins if k[0] == "const"]
    others = [(bb, k) for bb, k in ins if k[0] != "const"]
    if not others:
        rule.bad("lit_defs/no-inserts", "anchor missing: lit_defs inserts no definitions", f.loc(), kind="anchor-missing")
        return

    def ev(e, v):
        if e[0] == "c" and isinstance(e[1], int):
            return e[1]
        if e[0] == "cast":
            return ev(e[2], v)
        if e[0] == "call" and norm(e[2]).rsplit("::", 1)[-1] == "code":
            return v
        if e[0] == "l":
            o = sy.origin(e)
            return ev(o, v) if o != e else None
        if e[0] == "un" and e[1] == "Not":
            a = ev(e[2], v)
            return None if a is None else (~a) & ((1 << 64) - 1)
        if e[0] == "bin":
            a, b = ev(e[2], v), ev(e[3], v)
            if a is None or b is None:
                return None
            op = e[1].replace("Unchecked", "")
            return {"BitAnd": a & b, "BitOr": a | b, "BitXor": a ^ b, "Shr": a >> b if b < 64 else 0, "Shl": (a << b) & ((1 << 64) - 1) if b < 64 else 0, "Add": a + b, "Sub": a - b}.get(op)
        return None

    def refutes(fa, v):
        """does the fact contradict `code == v`?"""
        if fa[0] == "cmp":
            a, b = ev(fa[2], v), ev(fa[3], v)
            if a is None or b is None or not (mentions(fa[2], is_code) or mentions(fa[3], is_code)):
                return False
            return not {"Eq": a == b, "Ne": a != b, "Lt": a < b, "Le": a <= b, "Gt": a > b, "Ge": a >= b}.get(fa[1], True)
        if fa[0] == "notin" and mentions(fa[1], is_code):
            a = ev(fa[1], v)
            return a is not None and a in fa[2]
        if fa[0] == "eq" and mentions(fa[1], is_code):
            a = ev(fa[1], v)
            return a is not None and a != fa[2]
        if fa[0] == "bool" and isinstance(fa[1], tuple) and fa[1][0] == "bin" and mentions(fa[1], is_code):
            a, b = ev(fa[1][2], v), ev(fa[1][3], v)
            if a is None or b is None:
                return False
            r = {"Eq": a == b, "Ne": a != b, "Lt": a < b, "Le": a <= b, "Gt": a > b, "Ge": a >= b}.get(fa[1][1])
            return r is not None and r != fa[2]
        return False

    is_code = lambda x: x[0] == "call" and norm(x[2]).rsplit("::", 1)[-1] == "code"
    for bb, k in others:
        seeded = any(c.dominates(cb, bb) for cb in consts)
        excl = all(any(refutes(fa, v) for _s, fa in guards.facts_at(f, bb)) for v in (0, 1))
        kind = sorted(kinds_of(source_fields(f, k[1]))) if k[0] != "const" else []
        rule.check(seeded or excl, "lit_defs/constant-both-polarities/%s" % ("+".join(kind) or "insert@%d" % len([1 for b2, _ in others if b2 < bb])), "a definition (%s) is recorded only where the constant is refused in both polarities (%s)" % (", ".join(kind) or "?", "table seeded with literal 0 first" if seeded else "guarded by tests excluding codes 0 and 1" if excl else "neither a seeded table nor tests excluding both code 0 and code 1"), f.loc(bb))


# ---- R12: OrderedAig -> Aig numbers the variables the way the ordered form means them ------------------------------
def run_r12(ctx, rule):
    """An `OrderedAig` (what renumbering returns and what the binary parser yields) has no literal names for inputs,
    latches and gates: position means name - input i is literal 2(i+1), latch i is 2(i+1+I), gate i is 2(i+1+I+L).
    `From<OrderedAig> for Aig` spells those names out.  Decided by affine execution of the conversion and of its three
    closures: the code handed to `from_code` as a linear form over the element index, the input count and the number
    of latches; every other field is handed over from the field of the same name."""
    from .aff import PathExec, Aff
    facts = ctx.facts
    pid = [i for i in facts.fns if norm(i).endswith("core::convert::From<flussab_aiger::aig::OrderedAig<L>>>::from") and "closure" not in i]
    if not pid:
        rule.bad("from-ordered/missing", "anchor missing: From<OrderedAig<L>> for Aig<L>", kind="anchor-missing")
        return
    pf = facts.fns[pid[0]]
    c = cfg(pf)
    paths = [p for p, cut in c.paths(limit=50) if pf.term(p[-1])["k"] == "return"]
    if len(paths) != 1:
        rule.bad("from-ordered/paths", "the conversion is not a straight line (%d returning paths): unrecognised form" % len(paths), pf.loc(), kind="unmodelled-idiom")
        return
    ex = PathExec(facts, pf)
    st = ex.run_path(paths[0])
    # pass-through fields
    ret = [e[2] for e in st.events if e[0] == "return"]
    adt = facts.adts.get(AIG + "Aig")
    names = [fl["name"] for fl in adt["variants"][0]["fields"]] if adt else []
    if ret and isinstance(ret[0], tuple) and ret[0][0] == "agg" and len(ret[0][3]) == len(names):
        for nm, v in zip(names, ret[0][3]):
            if nm in ("inputs", "latches", "and_gates"):
                continue
            rule.check(v == Aff.sym("arg1." + nm), "from-ordered/field/%s" % nm, "Aig.%s is taken from OrderedAig.%s  [got %s]" % (nm, nm, v), pf.loc())
    else:
        rule.bad("from-ordered/aggregate", "the conversion does not build the Aig from explicit fields", pf.loc(), kind="unmodelled-idiom")
    # symbols of the parent: the number of latches is a `len` call on arg1.latches
    len_syms = {}
    for e in st.events:
        if e[0] == "call" and e[2][0].rsplit("::", 1)[-1] == "len" and e[2][1] and e[2][1][0] in (("ref", ("arg1", ("latches",))), ("ref", ("local1", ("latches",)))):
            len_syms["call@%d" % e[1]] = "L"
    def canon(a):
        """linear form over I (input count), L (latches), i (element index)"""
        if not isinstance(a, Aff):
            return None
        out = {"1": a.c}
        for k, v in a.t.items():
            if k == "arg1.input_count":
                out["I"] = out.get("I", 0) + v
            elif k in len_syms:
                out["L"] = out.get("L", 0) + v
            elif k == "i":
                out["i"] = out.get("i", 0) + v
            else:
                return None
        return {k: v for k, v in out.items() if v}
    # closures and what they capture
    want = {"inputs": {"i": 2, "1": 2}, "latches": {"i": 2, "I": 2, "1": 2}, "and_gates": {"i": 2, "I": 2, "L": 2, "1": 2}}
    found = {}
    for bi in paths[0]:
        for s_ in pf.blocks[bi]["stmts"]:
            if s_["k"] != "assign" or s_["rv"]["k"] != "agg" or not s_["rv"].get("closure"):
                continue
            cf = facts.fns.get(s_["rv"]["closure"])
            if cf is None:
                continue
            caps = []
            for o in s_["rv"]["ops"]:
                v = ex.operand(st, o)
                if isinstance(v, tuple) and v[0] == "ref":
                    root, path = v[1]
                    if isinstance(root, str) and root.startswith("local") and root[5:].isdigit() and not path:
                        v = st.loc.get(int(root[5:]))
                    else:
                        v = st.mem.get(v[1])
                caps.append(v)
            cc = cfg(cf)
            cps = [p for p, cut in cc.paths(limit=50) if cf.term(p[-1])["k"] == "return"]
            if len(cps) != 1:
                continue
            cex = PathExec(facts, cf)
            cst = cex.run_path(cps[0])
            codes = [e[2][1][0] for e in cst.events if e[0] == "call" and e[2][0].endswith("Lit::from_code")]
            if len(codes) != 1 or not isinstance(codes[0], Aff):
                continue
            a = codes[0]
            mems = [k for k in a.t if k.startswith("mem?")]
            idx = [k for k in a.t if k in ("arg2", "arg2.0")]
            if len(mems) > 1 or len(mems) > len(caps) or (mems and not isinstance(caps[0], Aff)):
                continue
            lin = Aff(a.c, {})
            for k, v in a.t.items():
                if k in idx:
                    lin = lin + Aff.sym("i").scale(v)
                elif k in mems:
                    lin = lin + caps[0].scale(v)
                else:
                    lin = lin + Aff.sym(k).scale(v)
            # which section: the aggregate the closure returns (Latch / AndGate) or a bare literal (inputs)
            r = [e[2] for e in cst.events if e[0] == "return"]
            sec = "inputs"
            extra_ok = True
            if r and isinstance(r[0], tuple) and r[0][0] == "agg":
                sec = {"Latch": "latches", "AndGate": "and_gates"}.get(r[0][2], "?")
                fnames = [fl["name"] for fl in facts.adts[r[0][1]]["variants"][0]["fields"]] if r[0][1] in facts.adts else []
                for nm, v in zip(fnames, r[0][3]):
                    if nm in ("state", "output"):
                        continue
                    extra_ok = extra_ok and isinstance(v, Aff) and list(v.t) == ["arg2.1." + nm]
            found[sec] = (canon(lin), lin, extra_ok, cf)
    for sec, w in want.items():
        if sec not in found:
            rule.bad("from-ordered/%s/closure" % sec, "no numbering closure recognised for %s" % sec, pf.loc(), kind="unmodelled-idiom")
            continue
        got, lin, extra_ok, cf = found[sec]
        rule.check(got == w, "from-ordered/%s/code" % sec, "%s element i gets the literal %s  [computed %s]" % (sec, " + ".join("%d*%s" % (v, k) if k != "1" else str(v) for k, v in sorted(w.items())), lin), cf.loc())
        if sec != "inputs":
            rule.check(extra_ok, "from-ordered/%s/fields" % sec, "the other fields of a %s are handed over from the fields of the same name" % sec[:-1], cf.loc())


# ---- R15 / R16 -------------------------------------------------------------------------------------------------------
def run_r15(ctx, rule):
    """Structural hashing merges a gate into an earlier one when the index says they are the same gate.  The index is
    keyed by the ordered gate itself (both inputs); a derived integer key (an OR, a sum, a rotation that is the
    identity for 64-bit codes) lets distinct gates collide, and the later ones silently become the first."""
    facts = ctx.facts
    a = facts.adts.get(AIG + "Renumber")
    ok = False
    ty = "?"
    if a:
        for fl in a["variants"][0]["fields"]:
            if fl["name"] == "and_gate_index":
                ty = fl.get("ty") or fl.get("s") or "?"
                ok = "HashMap<" + AIG + "OrderedAndGate<" in ty.replace(" ", "")
    rule.check(ok, "and_gate_index/keyed-by-the-gate", "the structural-hash index is keyed by the ordered gate itself, not by a number derived from it  [%s]" % ty[:90])
    f = afn(facts, "Renumber::transfer")
    sy = sym(f)
    n = 0
    for bb, t in f.calls():
        cn = norm(util.cname(t))
        if "HashMap" in cn and cn.rsplit("::", 1)[-1] in ("entry", "get", "insert", "contains_key") and t["args"]:
            p0 = t["args"][0].get("mv") or t["args"][0].get("cp")
            tys = f.locals[p0["l"]].get("s", "") if p0 else ""
            if "OrderedAndGate" in tys and "LitDef" not in tys:
                n += 1
    rule.check(n >= 1, "and_gate_index/used", "transfer consults the index with the gate as the key (%d sites)" % n, f.loc())


def run_r16(ctx, rule):
    """Cycle detection: before a gate's continuation is pushed onto the explicit stack, the stack is probed for the
    literal being transferred (`stack.get(len / 2)`), on *every* push - a probe that runs only at some depths finds
    only cycles of some lengths, and the walk around any other cycle grows the stack until memory runs out."""
    facts = ctx.facts
    f = afn(facts, "Renumber::transfer")
    c = cfg(f)
    sy = sym(f)
    def on_stack(t):
        if not t["args"]:
            return False
        e = sy.operand(t["args"][0])
        return mentions(e, lambda x: x[0] == "f" and x[2] == "stack")
    probes = [bb for bb, t in f.calls() if norm(util.cname(t)).rsplit("::", 1)[-1] in ("get", "index", "iter", "contains", "last") and ("slice" in norm(util.cname(t)) or "Vec" in norm(util.cname(t))) and on_stack(t)]
    pushes = [bb for bb, t in f.calls() if norm(util.cname(t)).endswith("Vec::push") and on_stack(t)]
    if not pushes or not probes:
        rule.bad("cycle-probe/anchor", "anchor missing: %d pushes onto the walk stack, %d probes of it" % (len(pushes), len(probes)), f.loc(), kind="anchor-missing")
        return
    # a gate is *opened* where its definition was just looked up in the definition table: that push starts the descent into
    # the gate's inputs, and it is the one the probe must precede (the push of the second input's continuation belongs to
    # a gate that is already on the stack)
    def_lookups = []
    for bb, t in f.calls():
        cn = norm(util.cname(t))
        if "HashMap" in cn and cn.rsplit("::", 1)[-1] in ("get", "contains_key", "get_key_value") and t["args"]:
            p0 = t["args"][0].get("mv") or t["args"][0].get("cp")
            if p0 and "LitDef" in f.locals[p0["l"]].get("s", ""):
                def_lookups.append(bb)
    loops_ = c.loops()
    def same_step(d, pb):
        heads = [h for h, body in loops_.items() if d in body and pb in body]
        return pb in c.reachable_from(d, avoid=heads)
    opening = [pb for pb in pushes if any(same_step(d, pb) for d in def_lookups)]
    if not opening:
        rule.bad("cycle-probe/opening-push", "anchor missing: no push that follows a look-up in the definition table", f.loc(), kind="anchor-missing")
        return
    for pb in opening:
        ok = any(c.dominates(q, pb) for q in probes)
        rule.check(ok, "cycle-probe/before-push@%d" % opening.index(pb), "the push that opens a gate is preceded, on every path, by the probe of the walk stack for a cycle (a probe that runs only at some depths misses cycles of other lengths)", f.loc(pb))
    rule.ok("%d probes, %d pushes (%d opening a gate)" % (len(probes), len(pushes), len(opening)))
    # .. and what the probe answers decides directly: the FoundCycle error is raised on the probe's own `Some` answer and
    # the literal comparison, with no further condition on the depth of the stack (an answer filtered by `len % 2 == 0`,
    # a probe wrapped in `if len.is_power_of_two()`)
    errs = [bi for bi, b in enumerate(f.blocks) if not b["cleanup"] and any(s_["k"] == "assign" and s_["rv"]["k"] == "agg" and s_["rv"].get("variant") == "FoundCycle" for s_ in b["stmts"])]
    if not errs:
        rule.bad("cycle-probe/error", "anchor missing: no FoundCycle error is constructed in transfer", f.loc(), kind="anchor-missing")
    for eb in errs:
        fs = list(guards.facts_at(f, eb))
        direct = any(fa[0] == "eq" and fa[1][0] == "discr" and fa[1][1][0] == "call" and fa[1][1][1] in probes for _s, fa in fs)
        depth = any(mentions(fa, lambda x: x[0] == "call" and norm(x[2]).rsplit("::", 1)[-1] == "len" and x[3] and mentions(x[3][0], lambda y: y[0] == "f" and y[2] == "stack")) and not (fa[0] == "eq" and fa[1][0] == "discr" and fa[1][1][0] == "call" and fa[1][1][1] in probes) for _s, fa in fs)
        rule.check(direct and not depth, "cycle-probe/answer-decides", "FoundCycle is raised on the probe's own answer and the literal comparison, with no further condition on the stack depth%s" % ("" if direct and not depth else " (the probe's answer is %s)" % ("filtered or wrapped before it is examined" if not direct else "used under a condition on the stack depth")), f.loc(eb))


def run(ctx):
    r1 = ctx.rule("C12-R1", "the renumbering code is not recursive (explicit stack)", floor=2)
    run_r1(ctx, r1)
    r2 = ctx.rule("C12-R2", "every kind of literal used as a key of the renumbering map passes a redefinition test", floor=6)
    run_r2(ctx, r2)
    r3 = ctx.rule("C12-R3", "every structural error has a producer on the right path and is propagated", floor=12)
    run_r3(ctx, r3)
    r4 = ctx.rule("C12-R4", "ordering facts: sort before hash/push, fresh code before push, inputs < latches < gates", floor=6)
    run_r4(ctx, r4)
    r5 = ctx.rule("C12-R5", "polarity discipline of LitMap and transfer", floor=8)
    run_r5(ctx, r5)
    r9 = ctx.rule("C12-R9", "literals are compared for identity only with literals of the same kind (requested with requested, not with a definition's output as written)", floor=1)
    run_r9(ctx, r9)
    r8 = ctx.rule("C12-R8", "the definition table is keyed by literals as written and every question to it covers both polarities", floor=7)
    run_r8(ctx, r8)
    r7 = ctx.rule("C12-R7", "source-circuit literals and renumbered literals are never compared, and each is used where its numbering is meant", floor=4)
    run_r7(ctx, r7)
    r10 = ctx.rule("C12-R10", "every root literal (latch next-state, output, bad-state, constraint, justice, fairness) is transferred on every path on which initialize returns Ok: an undefined root yields LitNotDefined, never a panic or a wrong circuit later", floor=6)
    run_r10(ctx, r10)
    r11 = ctx.rule("C12-R11", "the constant cannot be redefined in either polarity: lit_defs records a definition only behind a table seeded with literal 0 (or tests excluding codes 0 and 1)", floor=2)
    run_r11(ctx, r11)
    r12 = ctx.rule("C12-R12", "OrderedAig -> Aig spells out the positional names: input i = 2(i+1), latch i = 2(i+1+I), gate i = 2(i+1+I+L); every other field from the field of the same name", floor=12)
    run_r12(ctx, r12)
    from . import builders
    r13 = ctx.rule("C12-R13", "the option setters of RenumberConfig store their parameter into the field of their own name and return the configuration: all eight combinations of trim / structural_hash / const_fold are reachable and mean what they say", floor=6)
    builders.run(ctx, r13, [AIG + "RenumberConfig"], 3)
    # R14: `max_var_index` and the header counts are what a file (or a caller) *declares*; the graph may be tiny.  A table
    # sized by them makes renumbering fail (capacity overflow, allocation failure) on a well-formed graph: the allocation
    # rule of C05-R5 on the renumbering code
    from . import c05, taint as T
    r14 = ctx.rule("C12-R14", "no table of the renumbering code is sized by a declared number (max_var_index, header counts): a well-formed graph with a large declared index is renumbered like any other (shared with C05-R5)", floor=1)
    c05.run_r5(ctx, r14, T.Taint(ctx.facts), scope=lambda f: f.crate == "flussab_aiger" and (norm(f.id).startswith(AIG + "Renumber") or norm(f.id).startswith(AIG + "Aig::lit_defs") or norm(f.id).startswith(AIG + "LitMap")))
    # (the conversion OrderedAig -> Aig is not in this scope: it spells out `input_count` inputs, which is its output)
    r15 = ctx.rule("C12-R15", "the structural-hash index is keyed by the ordered gate itself (both inputs), so distinct gates never collide", floor=2)
    run_r15(ctx, r15)
    r16 = ctx.rule("C12-R16", "the cycle probe of the walk stack precedes every push onto it, unconditionally (cycles of every length are found, the stack cannot grow around one)", floor=2)
    run_r16(ctx, r16)
    r6 = ctx.rule("C12-R6", "every constant fold is an identity of AND (each decision path checked over the six representative codes)", floor=5)
    run_r6(ctx, r6)
    ctx.assume("Boolean equivalence of the renumbered circuit as a whole, hash-consing and completeness of the cycle detection are value-level and NOT decided (the const-fold case analysis is decided by C12-R6)")
    return "other", "structural necessary conditions of the renumbering: recursion freedom, definition coverage, error producers, ordering and polarity facts (functional equivalence itself is not decided)", {}
