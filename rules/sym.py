"""Symbolic expansion of MIR operands through single-assignment temporaries.

Expressions are nested tuples:
  ("c", int)  ("cb", bytes)  ("cfn", path)  ("c?", text)
  ("l", local)                      opaque local (argument or multiply assigned variable)
  ("f", base, name)                 field;  ("v", base, variant) downcast;  ("idx", base, i)
  ("bin", op, a, b)  ("un", op, a)  ("cast", kind, a, to)
  ("call", bb, def, args)           result of the call terminating block bb
  ("discr", e)  ("agg", what, variant, ops)
References and dereferences are erased (a place and a reference to it are the same expression).
"""

MAXD = 14


class Sym:
    def __init__(self, fn):
        self.fn = fn
        self.defs = {}  # local -> list of ("stmt", bb, idx, rv) | ("call", bb, term)
        self.partial = set()  # locals assigned through a projection
        self.deref_written = set()  # pointers whose pointee is written in this body
        for bi, b in enumerate(fn.blocks):
            if b["cleanup"]:
                continue
            for si, s in enumerate(b["stmts"]):
                if s["k"] == "assign":
                    lhs = s["lhs"]
                    if lhs["p"]:
                        if lhs["p"][0] == "*":
                            self.deref_written.add(lhs["l"])
                        else:
                            self.partial.add(lhs["l"])
                    else:
                        self.defs.setdefault(lhs["l"], []).append(("stmt", bi, si, s["rv"]))
                elif s["k"] == "setdiscr":
                    self.partial.add(s["lhs"]["l"])
            t = b["term"]
            if t["k"] == "call":
                d = t["dest"]
                if d["p"]:
                    if d["p"][0] == "*":
                        self.deref_written.add(d["l"])
                    else:
                        self.partial.add(d["l"])
                else:
                    self.defs.setdefault(d["l"], []).append(("call", bi, t))
        self.multi = set(l for l, ds in self.defs.items() if len(ds) > 1) | self.partial
        # locals whose address is taken mutably and passed around may be written elsewhere: treat
        # named variables with &mut borrows as opaque
        self.mut_borrowed = set()
        for b in fn.blocks:
            for s in b["stmts"]:
                if s["k"] == "assign" and s["rv"]["k"] in ("ref", "rawptr") and s["rv"].get("mut"):
                    p = s["rv"]["p"]
                    if "*" not in p["p"]:
                        self.mut_borrowed.add(p["l"])

    def is_arg(self, l):
        return 1 <= l <= self.fn.argc

    def single(self, l):
        return (
            not self.is_arg(l)
            and l not in self.multi
            and l in self.defs
            and len(self.defs[l]) == 1
            and l not in self.mut_borrowed
        )

    def def_site(self, l):
        """(bb, idx|None) of the single definition"""
        d = self.defs[l][0]
        return (d[1], d[2] if d[0] == "stmt" else None)

    # ------------------------------------------------------------------------------------
    def operand(self, o, depth=0):
        if "c" in o:
            return self.const(o["c"])
        p = o.get("cp") or o.get("mv")
        if p is None:
            return ("c?", str(o))
        return self.place(p, depth)

    def const(self, c):
        if "enum" in c:
            fs = tuple(("c", f["int"]) if f else ("c?", "?") for f in (c.get("fields") or []))
            return ("agg", c["enum"], c["variant"], fs)
        if "int" in c:
            return ("c", c["int"])
        if "fn" in c:
            return ("cfn", c["fn"])
        if "bytes" in c:
            return ("cb", bytes(c["bytes"]))
        d = c.get("dbg", "")
        if "::promoted[" in d:
            from .common import norm as _norm
            return ("promoted", _norm(d))
        return ("c?", d)

    def local(self, l, depth):
        if depth > MAXD or not self.single(l):
            return ("l", l)
        d = self.defs[l][0]
        if d[0] == "call":
            t = d[2]
            c = t.get("callee", {})
            args = tuple(self.operand(a, depth + 1) for a in t["args"])
            return ("call", d[1], c.get("res") or c.get("def") or "?", args)
        rv = d[3]
        e = self.rvalue(rv, depth + 1)
        if l in self.fn.vars and self._reads_mutable(e):
            # a named snapshot of a mutable variable must not be confused with its current value
            return ("l", l)
        return e

    def origin(self, e):
        """definition of a single-assigned named snapshot, ignoring that it may read mutable variables
        (for def-use tracing, where the identity of the defining site matters, not value equality)"""
        if e[0] == "l" and e[1] in self.defs and len(self.defs[e[1]]) == 1 and e[1] not in self.partial and not self.is_arg(e[1]):
            d = self.defs[e[1]][0]
            if d[0] == "call":
                t = d[2]
                c = t.get("callee", {})
                return ("call", d[1], c.get("res") or c.get("def") or "?", tuple(self.operand(a, 1) for a in t["args"]))
            return self.rvalue(d[3], 1)
        return e

    def _reads_mutable(self, e):
        return mentions(e, lambda x: x[0] == "l" and (x[1] in self.multi or x[1] in self.mut_borrowed))

    def rvalue(self, rv, depth=0):
        k = rv["k"]
        if k == "use":
            return self.operand(rv["a"], depth)
        if k in ("ref", "rawptr"):
            return self.place(rv["p"], depth)
        if k == "cast":
            a = self.operand(rv["a"], depth)
            ck = rv["ck"]
            if ck.startswith("PointerCoercion") or ck in ("PtrToPtr", "Transmute", "Subtype"):
                return ("cast", ck.split("(")[0], a, rv["to"])
            return ("cast", ck, a, rv["to"])
        if k == "bin":
            a, b = self.operand(rv["a"], depth), self.operand(rv["b"], depth)
            op = rv["op"]
            # constants combined at run time only because MIR is unoptimised (`WORD_LEN - 1`): fold when exact
            if a[0] == "c" and b[0] == "c" and isinstance(a[1], int) and isinstance(b[1], int) and not op.endswith("WithOverflow"):
                base = op.replace("Unchecked", "")
                v = {"Add": a[1] + b[1], "Sub": a[1] - b[1], "Mul": a[1] * b[1]}.get(base)
                if v is not None and 0 <= v < (1 << 64):
                    return ("c", v)
            return ("bin", op, a, b)
        if k == "un":
            return ("un", rv["op"], self.operand(rv["a"], depth))
        if k == "discr":
            return ("discr", self.place(rv["p"], depth), rv.get("adt", ""))
        if k == "agg":
            what = rv.get("adt") or rv.get("closure") or rv["ak"]
            return (
                "agg",
                what,
                rv.get("variant", ""),
                tuple(self.operand(o, depth + 1) for o in rv["ops"]),
            )
        if k == "repeat":
            return ("repeat", self.operand(rv["a"], depth), rv["n"])
        return ("c?", rv.get("dbg", k))

    def place(self, p, depth=0):
        e = self.local(p["l"], depth)
        for pr in p["p"]:
            if pr == "*" or pr == "opaque":
                continue
            if isinstance(pr, dict):
                if "f" in pr:
                    name = pr["name"]
                    if e[0] == "bin" and e[1].endswith("WithOverflow"):
                        if pr["f"] == 0:
                            base = e[1][: -len("WithOverflow")]
                            a, b = e[2], e[3]
                            v = None
                            if a[0] == "c" and b[0] == "c" and isinstance(a[1], int) and isinstance(b[1], int):
                                v = {"Add": a[1] + b[1], "Sub": a[1] - b[1], "Mul": a[1] * b[1]}.get(base)
                            if v is not None and 0 <= v < (1 << 64):
                                e = ("c", v)
                                continue
                            e = ("bin", base, e[2], e[3])
                        else:
                            e = ("ovf", e[1][: -len("WithOverflow")], e[2], e[3])
                        continue
                    if e[0] == "agg" and e[1] == "tuple" and pr["f"] < len(e[3]):
                        e = e[3][pr["f"]]
                        continue
                    e = ("f", e, name)
                elif "downcast" in pr:
                    e = ("v", e, pr["vname"])
                elif "index" in pr:
                    e = ("idx", e, self.local(pr["index"], depth + 1))
                elif "cidx" in pr:
                    e = ("idx", e, ("c", pr["cidx"]))
                else:
                    e = ("sub", e, str(pr))
        return e

    # ------------------------------------------------------------------------------------
    def show(self, e):
        fn = self.fn
        k = e[0]
        if k == "c":
            return str(e[1])
        if k == "cb":
            return "b%r" % (e[1],)
        if k == "cfn":
            return e[1]
        if k == "c?":
            return e[1]
        if k == "l":
            return fn.local_name(e[1])
        if k == "f":
            return "%s.%s" % (self.show(e[1]), e[2])
        if k == "v":
            return "%s as %s" % (self.show(e[1]), e[2])
        if k == "idx":
            return "%s[%s]" % (self.show(e[1]), self.show(e[2]))
        if k in ("bin", "ovf"):
            return "(%s %s %s)%s" % (self.show(e[2]), e[1], self.show(e[3]), "!ovf" if k == "ovf" else "")
        if k == "un":
            return "%s(%s)" % (e[1], self.show(e[2]))
        if k == "cast":
            return "(%s as %s)" % (self.show(e[2]), e[3])
        if k == "call":
            return "%s(%s)" % (short(e[2]), ", ".join(self.show(a) for a in e[3]))
        if k == "discr":
            return "discr(%s)" % self.show(e[1])
        if k == "cb":
            return "b%r" % (e[1],)
        if k == "agg":
            return "%s::%s(%s)" % (short(e[1]), e[2], ", ".join(self.show(a) for a in e[3]))
        return str(e)


def short(path):
    """last two segments of a def path, generics stripped"""
    import re

    p = re.sub(r"<[^<>]*>", "", path)
    p = re.sub(r"<[^<>]*>", "", p)
    segs = [s for s in p.split("::") if s]
    return "::".join(segs[-2:]) if segs else path


def sym(fn):
    if fn._sym is None:
        fn._sym = Sym(fn)
    return fn._sym


def mentions(e, pred):
    """does expression e contain a sub-expression satisfying pred"""
    if not isinstance(e, tuple):
        return False
    if pred(e):
        return True
    for x in e[1:]:
        if isinstance(x, tuple):
            if x and isinstance(x[0], str):
                if mentions(x, pred):
                    return True
            else:
                for y in x:
                    if isinstance(y, tuple) and mentions(y, pred):
                        return True
    return False


def subexprs(e):
    if not isinstance(e, tuple):
        return
    yield e
    for x in e[1:]:
        if isinstance(x, tuple):
            if x and isinstance(x[0], str):
                yield from subexprs(x)
            else:
                for y in x:
                    if isinstance(y, tuple):
                        yield from subexprs(y)
