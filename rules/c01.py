"""C01 — parse results do not depend on how the input bytes arrive.

A parser's result is a function of the answers it gets from the reader.  If (i) the reader is a faithful
window (C02), (ii) parser code never lets a *schedule dependent* observation influence a result except to
choose between two implementations of the same function, and (iii) those implementations agree (C13 for the
digit scanners), the result is independent of chunking, chunk size and Interrupted.  Decided here: (ii).
R1 schedule non-interference: every use of buf_len / buf / buf_ptr / is_at_end outside the reader has one of
   the sanctioned shapes (fast/cold selector, prefix slice, post-exhaustion, end test after a look-ahead).
R2 who-may-call: request_more, set_chunk_size, request, is_complete are not called from parser code.
R3 Interrupted is handled only inside request_more (retry without touching any state) - shared with C09-R1.
"""
from . import util, guards
from .cfg import cfg
from .common import norm
from .sym import sym, short, mentions, subexprs
from .c10 import strip_bb

DR = "flussab::deferred_reader::DeferredReader::"
SOURCES = ("buf", "buf_len", "buf_ptr", "is_at_end", "is_complete", "request")
LOOKS = (DR + "request_byte_at_offset", DR + "request_byte")


def uses_of(fn, local, seen=None, depth=0):
    """all uses of a local (following copies, reborrows, derefs and Deref::deref style identity calls):
    list of (bb, kind, detail) with kind in call-arg / switch / assert / bin / cast / other"""
    seen = seen if seen is not None else set()
    if local in seen or depth > 6:
        return []
    seen.add(local)
    out = []

    def mentions_local(o):
        p = o.get("cp") or o.get("mv")
        return p is not None and p["l"] == local

    for bi, b in enumerate(fn.blocks):
        if b["cleanup"]:
            continue
        for si, s in enumerate(b["stmts"]):
            if s["k"] != "assign":
                continue
            rv = s["rv"]
            k = rv["k"]
            if k == "use" and mentions_local(rv["a"]):
                pp = (rv["a"].get("cp") or rv["a"].get("mv"))["p"]
                if any(isinstance(q, dict) and ("index" in q or "cidx" in q) for q in pp):
                    out.append((bi, "element", s))  # reads one element: content, not the schedule
                elif not s["lhs"]["p"]:
                    out += uses_of(fn, s["lhs"]["l"], seen, depth + 1)
                else:
                    out.append((bi, "store", s))
            elif k in ("ref", "rawptr") and rv["p"]["l"] == local:
                if not s["lhs"]["p"]:
                    out += uses_of(fn, s["lhs"]["l"], seen, depth + 1)
            elif k == "cast" and mentions_local(rv["a"]):
                out.append((bi, "cast", s))
                if not s["lhs"]["p"]:
                    out += uses_of(fn, s["lhs"]["l"], seen, depth + 1)
            elif k == "bin" and (mentions_local(rv["a"]) or mentions_local(rv["b"])):
                out.append((bi, "bin", s))
            elif k == "un" and mentions_local(rv["a"]):
                out.append((bi, "un", s))
            elif k == "agg" and any(mentions_local(o) for o in rv["ops"]):
                out.append((bi, "agg", s))
            elif k == "discr" and rv["p"]["l"] == local:
                out.append((bi, "discr", s))
        t = b["term"]
        if t["k"] == "call":
            for i, a in enumerate(t["args"]):
                if mentions_local(a):
                    out.append((bi, "call-arg", (i, t)))
        elif t["k"] == "switch" and mentions_local(t["discr"]):
            out.append((bi, "switch", t))
        elif t["k"] == "assert" and (mentions_local(t["cond"]) or any(mentions_local(o) for o in t["ops"])):
            out.append((bi, "assert", t))
    return out


def exhaustion_blocks(fn):
    """blocks dominated by the 'end of input' answer of a look-ahead at offset buf_len() (the buffered data
    then *is* the rest of the stream)"""
    sy = sym(fn)
    c = cfg(fn)
    out = set()
    for bb, t in fn.calls():
        if norm(util.cname(t)) in LOOKS and len(t["args"]) > 1:
            off = sy.operand(t["args"][1])
            if off[0] == "call" and norm(off[2]) == DR + "buf_len":
                # find blocks where this look-ahead is known to have returned None
                for x in c.reach:
                    g = guards.holds(fn, x, lambda fa: (fa[0] == "bool" and fa[1][0] == "call" and norm(fa[1][2]).endswith(("Option::is_some", "Option::is_none")) and fa[1][3][0][0] == "call" and fa[1][3][0][1] == bb and fa[2] == norm(fa[1][2]).endswith("is_none")) or (fa[0] == "eq" and fa[1][0] == "discr" and fa[1][1][0] == "call" and fa[1][1][1] == bb and fa[2] == 0))
                    if g:
                        out.add(x)
    return out


def run_r1(ctx, rule):
    facts = ctx.facts
    n = 0
    per = {}
    for f in sorted(facts.fns.values(), key=lambda x: x.id):
        if f.crate in ("ext", "promoted") or norm(f.id).startswith(DR):
            continue
        sy = sym(f)
        c = cfg(f)
        ordn = {}
        exh = None
        for bb, t in f.calls():
            cn = norm(util.cname(t))
            if not cn.startswith(DR) or cn[len(DR):] not in SOURCES:
                continue
            src = cn[len(DR):]
            n += 1
            per[src] = per.get(src, 0) + 1
            o = ordn.get(src, 0)
            ordn[src] = o + 1
            key = "%s/%s/#%d" % (norm(f.id), src, o)
            d = t["dest"]
            if d["p"]:
                rule.bad(key, "result of %s stored through a projection (unrecognised idiom)" % src, f.loc(bb), kind="unmodelled-idiom")
                continue
            us = uses_of(f, d["l"])
            if exh is None:
                exh = exhaustion_blocks(f)
            bad = None
            shape = None
            if src in ("is_complete", "request"):
                bad = "%s exposes the read schedule directly; parser code must not use it" % src
            elif src == "buf_len":
                # (a) selector comparison  (c) look-ahead offset of the exhaustion loop / use after exhaustion
                for ub, kind, det in us:
                    if kind == "bin":
                        e = sy.rvalue(det["rv"])
                        ok = e[1] in ("Lt", "Ge", "Le", "Gt") and any(x[0] == "bin" and x[1] == "Add" and x[2][0] == "l" and sy.is_arg(x[2][1]) and x[3][0] == "c" for x in (e[2], e[3]))
                        if ok:
                            shape = "fast/cold selector"
                            continue
                        bad = "buf_len() enters the computation %s" % sy.show(e)
                    elif kind == "call-arg":
                        i, t2 = det
                        c2 = norm(util.cname(t2))
                        if c2 in LOOKS and i == 1:
                            shape = "look-ahead just past the buffered data (exhaustion loop)"
                            continue
                        if ub in exh:
                            shape = "after the source was exhausted"
                            continue
                        bad = "buf_len() is passed to %s" % short(c2)
                    elif kind in ("switch", "assert", "store", "agg", "cast", "un"):
                        if ub in exh:
                            continue
                        bad = "buf_len() reaches a %s" % kind
            elif src == "buf_ptr":
                for ub, kind, det in us:
                    if kind == "call-arg" and norm(util.cname(det[1])).endswith("const_ptr::add") and det[0] == 0 and det[1].get("unsafe"):
                        shape = "8 byte load of the fast path"
                        continue
                    bad = "buf_ptr() is used outside the guarded fast-path load"
            elif src == "buf":
                for ub, kind, det in us:
                    if kind == "call-arg":
                        i, t2 = det
                        c2 = util.cname(t2)
                        is_index = "slice::index" in c2 and c2.endswith("::index") or c2.endswith("Index<I>>::index")
                        if is_index and i == 0:
                            idx = sy.operand(t2["args"][1])
                            sched = mentions(idx, lambda x: x[0] == "call" and norm(x[2]) in (DR + "buf_len", DR + "buf", "core::slice::len") and not (x[0] == "call" and norm(x[2]) == "core::slice::len" and False))
                            if not sched:
                                shape = "prefix slice up to a looked-at offset"
                                continue
                            if ub in exh:
                                continue
                            bad = "buf() is sliced with a bound that depends on the amount of buffered data (%s)" % sy.show(idx)[:60]
                        elif ub in exh:
                            shape = "after the source was exhausted"
                            continue
                        else:
                            bad = "the whole buffered slice is passed to %s (its length depends on the read schedule)" % short(norm(c2))
                    elif kind in ("assert",):
                        # bounds check of buf()[0] style indexing with a constant index
                        continue
                    elif kind == "un" and det["rv"]["op"] == "PtrMetadata" and not det["lhs"]["p"]:
                        # slice length: only acceptable as the bounds check of a constant index
                        ok_len = True
                        for ub2, k2, d2 in uses_of(f, det["lhs"]["l"]):
                            if k2 == "bin":
                                e2 = sy.rvalue(d2["rv"])
                                if not (e2[1] == "Lt" and e2[2][0] == "c"):
                                    ok_len = False
                            elif k2 != "assert":
                                ok_len = False
                        if ok_len:
                            continue
                        bad = "the length of buf() (amount of buffered data) is used in a computation"
                    elif kind == "element":
                        pp = (det["rv"]["a"].get("cp") or det["rv"]["a"].get("mv"))["p"]
                        const_idx = all(not (isinstance(q, dict) and "index" in q) or sy.local(q["index"], 0)[0] == "c" for q in pp)
                        if const_idx:
                            shape = shape or "element at a constant offset (already looked at)"
                            continue
                        bad = "buf() is indexed with a variable"
                    elif ub in exh:
                        continue
                    else:
                        bad = "buf() reaches a %s" % kind
            elif src == "is_at_end":
                # (d) only as a branch condition, after a look-ahead at offset 0 with nothing consumed in between
                look0 = [b2 for b2, t2 in f.calls() if (norm(util.cname(t2)) in ("flussab::text::newline",) and sy.operand(t2["args"][1]) == ("c", 0)) or (norm(util.cname(t2)) in LOOKS and (len(t2["args"]) < 2 or sy.operand(t2["args"][1]) == ("c", 0)))]
                dom = [b2 for b2 in look0 if c.dominates(b2, bb)]
                adv_between = [b2 for b2, t2 in f.calls() if norm(util.cname(t2)).startswith(DR + "advance") and dom and b2 in c.reachable_from(dom[0]) and bb in c.reachable_from(b2)]
                if not dom or adv_between:
                    bad = "is_at_end() is not preceded by a look-ahead at offset 0 (without it, the answer depends on whether the end was already discovered)"
                for ub, kind, det in us:
                    if kind != "switch":
                        bad = bad or "is_at_end() reaches a %s" % kind
                shape = "end test after a look-ahead at offset 0"
            if not us and src != "is_at_end":
                shape = shape or "unused"
            what = "%s in %s is used only as: %s" % (src, short(f.id), shape)
            if bad:
                rule.bad(key, "%s in %s: %s" % (src, short(f.id), bad), f.loc(bb))
            else:
                rule.ok(what, f.loc(bb))
    rule.note("source_sites", per)


def run_r2(ctx, rule):
    facts = ctx.facts
    banned = (DR + "request_more", DR + "set_chunk_size", DR + "request", DR + "is_complete")
    for f, bb, t in util.calls_to(facts, lambda n: n in banned):
        if f.crate in ("ext", "promoted") or norm(f.id).startswith(DR):
            continue
        rule.bad("%s/calls-%s" % (norm(f.id), short(util.cname(t))), "%s calls %s: the result would depend on the read schedule" % (short(f.id), short(util.cname(t))), f.loc(bb))
    # positive control: the reader itself does call request_more from its cold loops
    ctl = [1 for f, bb, t in util.calls_to(facts, lambda n: n == DR + "request_more") if norm(f.id).startswith(DR)]
    rule.check(len(ctl) >= 2, "control/request_more", "positive control: the reader's cold loops call request_more (%d sites)" % len(ctl))
    # chunk_size is only read inside the reader
    for f in facts.fns.values():
        if f.crate in ("ext", "promoted") or norm(f.id).startswith(DR):
            continue
        sy = sym(f)
        for b in f.blocks:
            for s in b["stmts"]:
                if s["k"] == "assign":
                    e = sy.rvalue(s["rv"])
                    if mentions(e, lambda x: x[0] == "f" and x[2] in ("chunk_size", "valid_len", "pos_in_buf", "complete") and False):
                        pass


def run(ctx):
    r1 = ctx.rule("C01-R1", "schedule dependent observations are used only in sanctioned shapes (selector, prefix slice, post-exhaustion, end test)", floor=25)
    run_r1(ctx, r1)
    r2 = ctx.rule("C01-R2", "request_more / set_chunk_size / request / is_complete are not called from parser code", floor=1)
    run_r2(ctx, r2)
    # R5: the fast and the byte-wise scanners agree (what arrives in one piece takes the fast path, what arrives in
    # pieces the byte-wise one): plumbing and exact scanning behaviour of C13, run here too
    from . import c13
    r5 = ctx.rule("C01-R5", "the byte-wise digit scanners behave exactly as documented and the fast paths hand over to them unchanged (shared with C13-R3/R4)", floor=60)
    c13.run_r3(ctx, r5)
    c13.run_r4(ctx, r5)
    from .c09 import run_r1 as c09_r1
    r3 = ctx.rule("C01-R3", "Interrupted is handled only inside request_more, as a retry that touches no state (shared with C09-R1)", floor=8)
    c09_r1(ctx, r3)
    from .c02 import run_r2 as c02_r2
    r4 = ctx.rule("C01-R4", "position and mark are conserved across refills and realignment (shared with C02-R2; error locations)", floor=25)
    c02_r2(ctx, r4)
    ctx.assume("the fast and the cold implementations selected by buf_len() compute the same function (C13 decides the plumbing, the SWAR kernels are value-level)")
    ctx.assume("the reader is a faithful window (C02)")
    return "other", "non-interference of schedule dependent observations with parse results, decided by def-use classification of every source site", {}
