"""C01 — parse results do not depend on how the input bytes arrive.

A parser's result is a function of the answers it gets from the reader.  If (i) the reader is a faithful
window (C02), (ii) parser code never lets a *schedule dependent* observation influence a result except to
choose between two implementations of the same function, and (iii) those implementations agree (C13 for the
digit scanners), the result is independent of chunking, chunk size and Interrupted.  Decided here: (ii).
R1 schedule non-interference: every use of buf_len / buf / buf_ptr / is_at_end outside the reader has one of
   the sanctioned shapes (fast/cold selector, prefix slice, post-exhaustion, end test after a look-ahead).
R2 who-may-call: request_more, set_chunk_size, request, is_complete are not called from parser code.
R3 Interrupted is handled only inside request_more (retry without touching any state) - shared with C09-R1.
"""
from . import util, guards
from .cfg import cfg
from .common import norm
from .sym import sym, short, mentions, subexprs
from .c10 import strip_bb

DR = "flussab::deferred_reader::DeferredReader::"
SOURCES = ("buf", "buf_len", "buf_ptr", "is_at_end", "is_complete", "request")
LOOKS = (DR + "request_byte_at_offset", DR + "request_byte")


def uses_of(fn, local, seen=None, depth=0):
    """all uses of a local (following copies, reborrows, derefs and Deref::deref style identity calls):
    list of (bb, kind, detail) with kind in call-arg / switch / assert / bin / cast / other"""
    seen = seen if seen is not None else set()
    if local in seen or depth > 6:
        return []
    seen.add(local)
    out = []

    def mentions_local(o):
        p = o.get("cp") or o.get("mv")
        return p is not None and p["l"] == local

    for bi, b in enumerate(fn.blocks):
        if b["cleanup"]:
            continue
        for si, s in enumerate(b["stmts"]):
            if s["k"] != "assign":
                continue
            rv = s["rv"]
            k = rv["k"]
            if k == "use" and mentions_local(rv["a"]):
                pp = (rv["a"].get("cp") or rv["a"].get("mv"))["p"]
                if any(isinstance(q, dict) and ("index" in q or "cidx" in q) for q in pp):
                    out.append((bi, "element", s))  # reads one element: content, not the schedule
                elif not s["lhs"]["p"]:
                    out += uses_of(fn, s["lhs"]["l"], seen, depth + 1)
                else:
                    out.append((bi, "store", s))
            elif k in ("ref", "rawptr") and rv["p"]["l"] == local:
                if not s["lhs"]["p"]:
                    out += uses_of(fn, s["lhs"]["l"], seen, depth + 1)
            elif k == "cast" and mentions_local(rv["a"]):
                out.append((bi, "cast", s))
                if not s["lhs"]["p"]:
                    out += uses_of(fn, s["lhs"]["l"], seen, depth + 1)
            elif k == "bin" and (mentions_local(rv["a"]) or mentions_local(rv["b"])):
                out.append((bi, "bin", s))
            elif k == "un" and mentions_local(rv["a"]):
                out.append((bi, "un", s))
            elif k == "agg" and any(mentions_local(o) for o in rv["ops"]):
                out.append((bi, "agg", s))
            elif k == "discr" and rv["p"]["l"] == local:
                out.append((bi, "discr", s))
        t = b["term"]
        if t["k"] == "call":
            for i, a in enumerate(t["args"]):
                if mentions_local(a):
                    out.append((bi, "call-arg", (i, t)))
        elif t["k"] == "switch" and mentions_local(t["discr"]):
            out.append((bi, "switch", t))
        elif t["k"] == "assert" and (mentions_local(t["cond"]) or any(mentions_local(o) for o in t["ops"])):
            out.append((bi, "assert", t))
    return out


def exhaustion_blocks(fn):
    """blocks dominated by the 'end of input' answer of a look-ahead at offset buf_len() (the buffered data
    then *is* the rest of the stream)"""
    sy = sym(fn)
    c = cfg(fn)
    out = set()
    for bb, t in fn.calls():
        if norm(util.cname(t)) in LOOKS and len(t["args"]) > 1:
            off = sy.operand(t["args"][1])
            if off[0] == "call" and norm(off[2]) == DR + "buf_len":
                # find blocks where this look-ahead is known to have returned None
                for x in c.reach:
                    g = guards.holds(fn, x, lambda fa: (fa[0] == "bool" and fa[1][0] == "call" and norm(fa[1][2]).endswith(("Option::is_some", "Option::is_none")) and fa[1][3][0][0] == "call" and fa[1][3][0][1] == bb and fa[2] == norm(fa[1][2]).endswith("is_none")) or (fa[0] == "eq" and fa[1][0] == "discr" and fa[1][1][0] == "call" and fa[1][1][1] == bb and fa[2] == 0))
                    if g:
                        out.add(x)
    return out


def run_r1(ctx, rule):
    facts = ctx.facts
    n = 0
    per = {}
    for f in sorted(facts.fns.values(), key=lambda x: x.id):
        if f.crate in ("ext", "promoted") or norm(f.id).startswith(DR):
            continue
        sy = sym(f)
        c = cfg(f)
        ordn = {}
        exh = None
        for bb, t in f.calls():
            cn = norm(util.cname(t))
            if not cn.startswith(DR) or cn[len(DR):] not in SOURCES:
                continue
            src = cn[len(DR):]
            n += 1
            per[src] = per.get(src, 0) + 1
            o = ordn.get(src, 0)
            ordn[src] = o + 1
            key = "%s/%s/#%d" % (norm(f.id), src, o)
            d = t["dest"]
            if d["p"]:
                rule.bad(key, "result of %s stored through a projection (unrecognised idiom)" % src, f.loc(bb), kind="unmodelled-idiom")
                continue
            us = uses_of(f, d["l"])
            if exh is None:
                exh = exhaustion_blocks(f)
            bad = None
            shape = None
            if src in ("is_complete", "request"):
                bad = "%s exposes the read schedule directly; parser code must not use it" % src
            elif src == "buf_len":
                # (a) selector comparison  (c) look-ahead offset of the exhaustion loop / use after exhaustion
                for ub, kind, det in us:
                    if kind == "bin":
                        e = sy.rvalue(det["rv"])
                        ok = e[1] in ("Lt", "Ge", "Le", "Gt") and any(x[0] == "bin" and x[1] == "Add" and x[2][0] == "l" and sy.is_arg(x[2][1]) and x[3][0] == "c" for x in (e[2], e[3]))
                        if ok:
                            shape = "fast/cold selector"
                            continue
                        bad = "buf_len() enters the computation %s" % sy.show(e)
                    elif kind == "call-arg":
                        i, t2 = det
                        c2 = norm(util.cname(t2))
                        if c2 in LOOKS and i == 1:
                            shape = "look-ahead just past the buffered data (exhaustion loop)"
                            continue
                        if ub in exh:
                            shape = "after the source was exhausted"
                            continue
                        bad = "buf_len() is passed to %s" % short(c2)
                    elif kind in ("switch", "assert", "store", "agg", "cast", "un"):
                        if ub in exh:
                            continue
                        bad = "buf_len() reaches a %s" % kind
            elif src == "buf_ptr":
                for ub, kind, det in us:
                    if kind == "call-arg" and norm(util.cname(det[1])).endswith("const_ptr::add") and det[0] == 0 and det[1].get("unsafe"):
                        shape = "8 byte load of the fast path"
                        continue
                    bad = "buf_ptr() is used outside the guarded fast-path load"
            elif src == "buf":
                for ub, kind, det in us:
                    if kind == "call-arg":
                        i, t2 = det
                        c2 = util.cname(t2)
                        is_index = "slice::index" in c2 and c2.endswith("::index") or c2.endswith("Index<I>>::index")
                        if is_index and i == 0:
                            idx = sy.operand(t2["args"][1])
                            sched = mentions(idx, lambda x: x[0] == "call" and norm(x[2]) in (DR + "buf_len", DR + "buf", "core::slice::len") and not (x[0] == "call" and norm(x[2]) == "core::slice::len" and False))
                            if not sched:
                                shape = "prefix slice up to a looked-at offset"
                                continue
                            if ub in exh:
                                continue
                            bad = "buf() is sliced with a bound that depends on the amount of buffered data (%s)" % sy.show(idx)[:60]
                        elif ub in exh:
                            shape = "after the source was exhausted"
                            continue
                        else:
                            bad = "the whole buffered slice is passed to %s (its length depends on the read schedule)" % short(norm(c2))
                    elif kind in ("assert",):
                        # bounds check of buf()[0] style indexing with a constant index
                        continue
                    elif kind == "un" and det["rv"]["op"] == "PtrMetadata" and not det["lhs"]["p"]:
                        # slice length: only acceptable as the bounds check of a constant index
                        ok_len = True
                        for ub2, k2, d2 in uses_of(f, det["lhs"]["l"]):
                            if k2 == "bin":
                                e2 = sy.rvalue(d2["rv"])
                                if not (e2[1] == "Lt" and e2[2][0] == "c"):
                                    ok_len = False
                            elif k2 != "assert":
                                ok_len = False
                        if ok_len:
                            continue
                        bad = "the length of buf() (amount of buffered data) is used in a computation"
                    elif kind == "element":
                        pp = (det["rv"]["a"].get("cp") or det["rv"]["a"].get("mv"))["p"]
                        const_idx = all(not (isinstance(q, dict) and "index" in q) or sy.local(q["index"], 0)[0] == "c" for q in pp)
                        if const_idx:
                            shape = shape or "element at a constant offset (already looked at)"
                            continue
                        bad = "buf() is indexed with a variable"
                    elif ub in exh:
                        continue
                    else:
                        bad = "buf() reaches a %s" % kind
            elif src == "is_at_end":
                # (d) only as a branch condition, after a look-ahead at offset 0 with nothing consumed in between
                look0 = [b2 for b2, t2 in f.calls() if (norm(util.cname(t2)) in ("flussab::text::newline",) and sy.operand(t2["args"][1]) == ("c", 0)) or (norm(util.cname(t2)) in LOOKS and (len(t2["args"]) < 2 or sy.operand(t2["args"][1]) == ("c", 0)))]
                dom = [b2 for b2 in look0 if c.dominates(b2, bb)]
                adv_between = [b2 for b2, t2 in f.calls() if norm(util.cname(t2)).startswith(DR + "advance") and dom and b2 in c.reachable_from(dom[0]) and bb in c.reachable_from(b2)]
                if not dom or adv_between:
                    bad = "is_at_end() is not preceded by a look-ahead at offset 0 (without it, the answer depends on whether the end was already discovered)"
                for ub, kind, det in us:
                    if kind != "switch":
                        bad = bad or "is_at_end() reaches a %s" % kind
                shape = "end test after a look-ahead at offset 0"
            if not us and src != "is_at_end":
                shape = shape or "unused"
            what = "%s in %s is used only as: %s" % (src, short(f.id), shape)
            if bad:
                rule.bad(key, "%s in %s: %s" % (src, short(f.id), bad), f.loc(bb))
            else:
                rule.ok(what, f.loc(bb))
    rule.note("source_sites", per)


def run_r2(ctx, rule):
    facts = ctx.facts
    banned = (DR + "request_more", DR + "set_chunk_size", DR + "request", DR + "is_complete")
    for f, bb, t in util.calls_to(facts, lambda n: n in banned):
        if f.crate in ("ext", "promoted") or norm(f.id).startswith(DR):
            continue
        rule.bad("%s/calls-%s" % (norm(f.id), short(util.cname(t))), "%s calls %s: the result would depend on the read schedule" % (short(f.id), short(util.cname(t))), f.loc(bb))
    # positive control: the reader itself does call request_more from its cold loops
    ctl = [1 for f, bb, t in util.calls_to(facts, lambda n: n == DR + "request_more") if norm(f.id).startswith(DR)]
    rule.check(len(ctl) >= 2, "control/request_more", "positive control: the reader's cold loops call request_more (%d sites)" % len(ctl))
    # chunk_size is only read inside the reader
    for f in facts.fns.values():
        if f.crate in ("ext", "promoted") or norm(f.id).startswith(DR):
            continue
        sy = sym(f)
        for b in f.blocks:
            for s in b["stmts"]:
                if s["k"] == "assign":
                    e = sy.rvalue(s["rv"])
                    if mentions(e, lambda x: x[0] == "f" and x[2] in ("chunk_size", "valid_len", "pos_in_buf", "complete") and False):
                        pass

# ---- R6: the byte-wise keyword scan is a prefix scan ---------------------------------------------------
KW_FAST = "flussab_btor2::token::ascii_lowercase_u64"


class _KExec:
    """constant tracking over one body: integer/bool constants held by locals and by the variables a closure
    captured by reference (`(*_1).k`), through copies, reborrows and stores; enough to see a stop flag at work"""

    def __init__(self, fn):
        self.fn = fn

    def key_of(self, env, p):
        """abstract cell named by a place: ('L', n) a local, ('U', k) a captured variable"""
        pr = p["p"]
        l = p["l"]
        if not pr:
            return ("L", l)
        if pr == ["*"]:
            return env.get(("P", l))
        if len(pr) == 3 and pr[0] == "*" and isinstance(pr[1], dict) and "f" in pr[1] and pr[2] == "*" and l == 1 and self.fn.kind == "Closure":
            return ("U", pr[1]["f"])
        return None

    def ptr_of(self, env, rv):
        """the cell a reference value points to"""
        if rv["k"] == "use":
            a = rv["a"]
            p = a.get("cp") or a.get("mv")
            if p is None:
                return None
            pr = p["p"]
            if not pr:
                return env.get(("P", p["l"]))
            if len(pr) == 2 and pr[0] == "*" and isinstance(pr[1], dict) and "f" in pr[1] and p["l"] == 1 and self.fn.kind == "Closure":
                return ("U", pr[1]["f"])
            return None
        if rv["k"] == "ref":
            return self.key_of(env, rv["p"])
        return None

    def val(self, env, o):
        if "c" in o:
            return o["c"].get("int")
        p = o.get("cp") or o.get("mv")
        k = self.key_of(env, p)
        return env.get(k) if k is not None else None

    def stmts(self, bb, env, on_store):
        env = dict(env)
        for s in self.fn.blocks[bb]["stmts"]:
            if s["k"] != "assign":
                continue
            rv = s["rv"]
            v = None
            if rv["k"] == "use":
                v = self.val(env, rv["a"])
            elif rv["k"] == "un" and rv.get("op") == "Not":
                x = self.val(env, rv["a"])
                v = None if x is None else (0 if x else 1)
            k = self.key_of(env, s["lhs"])
            ptr = self.ptr_of(env, rv)
            if k is None:
                continue
            on_store(k, v, rv, bb)
            if v is None:
                env.pop(k, None)
            else:
                env[k] = v
            if k[0] == "L":
                if ptr is not None:
                    env[("P", k[1])] = ptr
                else:
                    env.pop(("P", k[1]), None)
        return env

    def succs(self, bb, env, on_store):
        """[(next_bb | None for return, env)]"""
        env = self.stmts(bb, env, on_store)
        t = self.fn.term(bb)
        k = t["k"]
        if k == "return":
            return [(None, env)]
        if k == "goto":
            return [(t["target"], env)]
        if k == "switch":
            d = t["discr"]
            v = self.val(env, d)
            p = d.get("cp") or d.get("mv")
            out = []
            arms = t["arms"]
            if v is not None:
                for a, tgt in arms:
                    if a == v:
                        return [(tgt, env)]
                return [(t["otherwise"], env)]
            # which cells hold the tested value: the operand itself and what it was copied from
            cells = []
            if p is not None:
                kk = self.key_of(env, p)
                if kk is not None:
                    cells.append(kk)
                    src = self.copied_from(bb, p)
                    if src is not None:
                        k2 = self.key_of(env, src)
                        if k2 is not None:
                            cells.append(k2)
            for a, tgt in arms:
                e2 = dict(env)
                for c in cells:
                    e2[c] = a
                out.append((tgt, e2))
            e2 = dict(env)
            if t.get("ty") == "bool" and len(arms) == 1:
                for c in cells:
                    e2[c] = 0 if arms[0][0] else 1
            out.append((t["otherwise"], e2))
            return out
        if k == "call":
            env = dict(env)
            d = self.key_of(env, t["dest"])
            if d is not None:
                env.pop(d, None)
                if d[0] == "L":
                    env.pop(("P", d[1]), None)
            for a in t["args"]:
                p = a.get("cp") or a.get("mv")
                if p is not None and not p["p"]:
                    tgt = env.get(("P", p["l"]))
                    if tgt is not None:
                        env.pop(tgt, None)  # handed out by reference: the callee may store to it
            return [(t["target"], env)] if t.get("target") is not None else []
        if k in ("assert", "drop"):
            return [(t["target"], env)]
        return []

    def copied_from(self, bb, p):
        if p["p"]:
            return None
        for s in reversed(self.fn.blocks[bb]["stmts"]):
            if s["k"] == "assign" and s["lhs"] == {"l": p["l"], "p": []}:
                if s["rv"]["k"] == "use":
                    return s["rv"]["a"].get("cp") or s["rv"]["a"].get("mv")
                return None
        return None


def _fz(env):
    return frozenset(env.items())


def prefix_scan(fn, start, wrap, lenkey, nonzero_return):
    """Explore the iteration graph of a scan body.  An iteration runs from `start` to the next visit of `start`
    (a closure called once per index: from its entry to its return).  Returns (n_iterations_without_hit, witness):
    witness is a (block, what) reached in some later iteration after an iteration that recorded no hit."""
    ex = _KExec(fn)
    hit = [None]

    def on_store(k, v, rv, bb):
        if k == lenkey:
            hit[0] = (bb, "the length is stored")
        elif nonzero_return and k == ("L", 0) and v != 0:
            hit[0] = (bb, "a byte other than 0 is returned")

    def keep(env):
        if wrap:
            return {k: v for k, v in env.items() if k[0] == "U"}
        return env

    # phase A: one iteration from an arbitrary state; collect the states after iterations without a hit
    ends = set()
    seen = set()
    work = [(start, _fz({}), False, True)]
    while work:
        bb, fe, had, first = work.pop()
        if (bb, fe, had, first) in seen:
            continue
        seen.add((bb, fe, had, first))
        if len(seen) > 20000:
            return None, None
        if bb == start and not first:
            if not had:
                ends.add(fe)
            continue
        hit[0] = None
        for nb, env in ex.succs(bb, dict(fe), on_store):
            h2 = had or hit[0] is not None
            if nb is None:
                if wrap and not h2:
                    ends.add(_fz(keep(env)))
                continue
            work.append((nb, _fz(env), h2, False))
        hit[0] = None
    # phase B: any number of further iterations from those states must not record a hit
    seen = set()
    work = [(start, e) for e in ends]
    while work:
        bb, fe = work.pop()
        if (bb, fe) in seen:
            continue
        seen.add((bb, fe))
        if len(seen) > 20000:
            return None, None
        hit[0] = None
        nxt = ex.succs(bb, dict(fe), on_store)
        if hit[0] is not None:
            return len(ends), hit[0]
        for nb, env in nxt:
            if nb is None:
                if wrap:
                    work.append((start, _fz(keep(env))))
                continue
            work.append((nb, _fz(env)))
    return len(ends), None


def run_r6(ctx, rule):
    """The keyword kernel returns the length of the maximal run of lowercase letters at the offset (C14-R1 decides the
    kernel lane-wise).  Input that arrives in pieces takes the byte-wise path; it must stop at the first byte
    that is not a letter, or the same bytes give a different token depending on the read schedule.  Decided on
    the iteration graph of the byte-wise scan: after an iteration that recorded no letter, no later iteration
    can record one (the stop flag is followed as a constant through the captured variables)."""
    facts = ctx.facts
    roots = [k for k, n in facts.inst.items() if norm(n["def"]) == KW_FAST]
    if not roots:
        rule.bad("keyword-scan/anchor", "anchor missing: %s" % KW_FAST, kind="anchor-missing")
        return
    from . import cg
    fam = set()
    for k in cg.reach_above(facts, roots, set(LOOKS)):
        d = facts.inst[k]["def"]
        if facts.fns.get(d) is not None and facts.fns[d].crate == "flussab_btor2":
            fam.add(d)
    # closures constructed inside the family belong to it
    ch = True
    while ch:
        ch = False
        for d in list(fam):
            for b in facts.fns[d].blocks:
                for s in b["stmts"]:
                    if s["k"] == "assign" and s["rv"]["k"] == "agg" and s["rv"].get("closure") and s["rv"]["closure"] in facts.fns and s["rv"]["closure"] not in fam:
                        fam.add(s["rv"]["closure"])
                        ch = True
    bodies = [facts.fns[d] for d in sorted(fam) if any(norm(util.cname(t)) in LOOKS for _, t in facts.fns[d].calls())]
    n = 0
    for body in bodies:
        nid = norm(body.id)
        if body.kind == "Closure":
            parent = facts.fns.get(body.j.get("parent")) or next((facts.fns[d] for d in fam if any(s["k"] == "assign" and s["rv"]["k"] == "agg" and s["rv"].get("closure") == body.id for b in facts.fns[d].blocks for s in b["stmts"])), None)
        else:
            parent = body
        if parent is None:
            rule.bad("%s/parent" % nid, "cannot find the function constructing the closure", body.loc(), kind="unmodelled-idiom")
            continue
        sy = sym(parent)
        lenloc = None
        for b in parent.blocks:
            for s in b["stmts"]:
                if s["k"] == "assign" and s["lhs"] == {"l": 0, "p": []} and s["rv"]["k"] == "agg" and s["rv"].get("ak") == "tuple" and len(s["rv"]["ops"]) == 2:
                    e = sy.operand(s["rv"]["ops"][1])
                    if e[0] == "l":
                        lenloc = e[1]
        if lenloc is None:
            rule.bad("%s/length" % nid, "the returned length of %s is not a variable maintained by the scan" % short(norm(parent.id)), parent.loc(), kind="unmodelled-idiom")
            continue
        if body.kind == "Closure":
            lenkey = None
            via = None
            for bi, b in enumerate(parent.blocks):
                for s in b["stmts"]:
                    if s["k"] == "assign" and s["rv"]["k"] == "agg" and s["rv"].get("closure") == body.id:
                        for i, o in enumerate(s["rv"]["ops"]):
                            e = sy.operand(o)
                            if e == ("l", lenloc):
                                lenkey = ("U", i)
                        # the closure is handed to array::from_fn: called once per index, in order
                        t = parent.term(bi)
                        if t["k"] == "call":
                            via = norm(util.cname(t))
            if lenkey is None:
                rule.bad("%s/length-capture" % nid, "the closure does not capture the length variable by reference", body.loc(), kind="unmodelled-idiom")
                continue
            if via != "core::array::from_fn":
                rule.bad("%s/driver" % nid, "the closure is driven by %s, not by array::from_fn (calls in index order)" % via, body.loc(), kind="unmodelled-idiom")
                continue
            cnt, w = prefix_scan(body, 0, True, lenkey, True)
            starts = [(0, cnt, w)]
        else:
            c = cfg(body)
            looks = [bb for bb, t in body.calls() if norm(util.cname(t)) in LOOKS]
            heads = sorted(set(h for h, blocks in c.loops().items() if any(x in blocks for x in looks)))
            if not heads:
                rule.bad("%s/loop" % nid, "the byte-wise scan is neither a loop nor a closure called per index", body.loc(), kind="unmodelled-idiom")
                continue
            starts = []
            for h in heads:
                cnt, w = prefix_scan(body, h, False, ("L", lenloc), False)
                starts.append((h, cnt, w))
        for h, cnt, w in starts:
            n += 1
            key = "%s/prefix-scan" % nid
            if cnt is None:
                rule.bad(key, "exploration of the scan's iteration graph did not terminate within its bound", body.loc(), kind="unmodelled-idiom")
            elif w is not None:
                rule.bad(key, "the byte-wise keyword scan goes on after a byte that is no lowercase letter: after an iteration that recorded no letter, a later one can reach block bb%d where %s -- pieces of input give a longer token than the same bytes in one piece" % (w[0], w[1]), body.loc(w[0]))
            else:
                rule.ok("byte-wise keyword scan %s: %d kinds of iterations record no letter, and none of them can be followed by one that does (prefix scan, like the word kernel)" % (short(nid), cnt), body.loc(h))
    if n == 0:
        rule.bad("keyword-scan/bodies", "no byte-wise scan body found below %s" % short(KW_FAST), kind="anchor-missing")


def run(ctx):
    r1 = ctx.rule("C01-R1", "schedule dependent observations are used only in sanctioned shapes (selector, prefix slice, post-exhaustion, end test)", floor=25)
    run_r1(ctx, r1)
    r2 = ctx.rule("C01-R2", "request_more / set_chunk_size / request / is_complete are not called from parser code", floor=1)
    run_r2(ctx, r2)
    # R5: the fast and the byte-wise scanners agree (what arrives in one piece takes the fast path, what arrives in
    # pieces the byte-wise one): plumbing and exact scanning behaviour of C13, run here too
    from . import c13
    r5 = ctx.rule("C01-R5", "the byte-wise digit scanners behave exactly as documented and the fast paths hand over to them unchanged, with the same overflow verdict (shared with C13-R1/R1b/R3/R4)", floor=60)
    c13.run_r3(ctx, r5)
    c13.run_r4(ctx, r5)
    # .. including the verdict on overflow: a number the one-piece path rejects must not be accepted (wrapped) by the
    # byte-wise path that input arriving in pieces takes (C13-R1/R1b: every step through overflowing_*, None iff a step overflowed)
    c13.run_r1(ctx, r5)
    c13.run_r1b(ctx, r5)
    r6 = ctx.rule("C01-R6", "the byte-wise keyword scan stops at the first byte that is not a letter, like the word kernel (prefix scan)", floor=1)
    run_r6(ctx, r6)
    from .c02 import run_r9 as c02_r9
    r7 = ctx.rule("C01-R7", "no construction path installs a chunk size that is not provably positive: with chunk size 0 every parser ends cleanly after nothing (shared with C02-R9)", floor=2)
    c02_r9(ctx, r7)
    # R8: the slice handed to the source is exactly one chunk behind the window, behind n <= chunk_size: a source that fills
    # whatever it is offered (slices, files) and one that trickles must leave the reader in the same state (C02-R3)
    from .c02 import run_r3 as c02_r3
    r8 = ctx.rule("C01-R8", "the source is offered exactly chunk_size bytes behind the window on every read, so sources that fill the slice and sources that trickle are treated alike (shared with C02-R3)", floor=3)
    c02_r3(ctx, r8)
    from .c09 import run_r1 as c09_r1
    r3 = ctx.rule("C01-R3", "Interrupted is handled only inside request_more, as a retry that touches no state (shared with C09-R1)", floor=8)
    c09_r1(ctx, r3)
    from .c02 import run_r2 as c02_r2
    r4 = ctx.rule("C01-R4", "position and mark are conserved across refills and realignment (shared with C02-R2; error locations)", floor=25)
    c02_r2(ctx, r4)
    ctx.assume("the fast and the cold implementations selected by buf_len() compute the same function (C13 decides the plumbing, the SWAR kernels are value-level)")
    ctx.assume("the reader is a faithful window (C02)")
    return "other", "non-interference of schedule dependent observations with parse results, decided by def-use classification of every source site", {}
