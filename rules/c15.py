"""C15 — parser combinators implement exact three-way choice semantics.

Every combinator touches its input only by matching on the variant, so the abstract interpretation
over {Fallthrough, Res(Ok), Res(Err)} x {closure outcomes} is exact.  For each function and input case
the set of (closure calls with their argument provenance, result with payload provenance) computed
from the MIR is compared with the specification table below (written from the doc comments and the
property text).  Every row must match exactly; the domain is enumerated completely.
"""
from . import absint as A
from .absint import Engine, Auto, TOP, enum, PARSED, RESULT, OPTION
from .common import norm
from . import util
from .sym import short

P = "flussab::parser::Parsed::"
RX = "<core::result::Result<T, E> as flussab::parser::ResultExt<T, E>>::"
FROM = "<flussab::parser::Parsed<T, E> as core::convert::From<core::result::Result<T, E>>>::from"

IN_OK = ("top", "in.ok")
IN_ERR = ("top", "in.err")


def parsed_case(c):
    if c == "Fallthrough":
        return enum(PARSED, [("Fallthrough", None)])
    if c == "Res(Ok)":
        return enum(PARSED, [("Res", enum(RESULT, [("Ok", IN_OK)]))])
    return enum(PARSED, [("Res", enum(RESULT, [("Err", IN_ERR)]))])


def result_case(c):
    if c == "Ok":
        return enum(RESULT, [("Ok", IN_OK)])
    return enum(RESULT, [("Err", IN_ERR)])


def render(av):
    k = av[0]
    if k == "top":
        return "*" if av[1] is None else av[1]
    if k == "e":
        vs = []
        for n, p in sorted(av[2], key=lambda x: x[0]):
            vs.append(n if p is None else "%s(%s)" % (n, render(p)))
        return "|".join(vs)
    if k == "b":
        return {None: "bool", True: "true", False: "false"}[av[1]]
    if k == "cell":
        return "&" + render(av[1])
    if k == "ref":
        return "&ref"
    if k == "t":
        return "(" + ",".join(render(a) for a in av[1]) + ")"
    if k == "variant":
        return "*"
    return k


class Calls(Auto):
    """records the calls to opaque functions (the closure parameter, From::from) with argument provenance"""

    name = "closure-calls"

    def initial(self):
        return ()

    def event(self, state, ev, where):
        if ev[0] == "closure_call":
            if len(state) >= 3:
                return state
            return state + (ev[1],)
        return state


def oracle(eng, fn, bb, t, env, state, args, where):
    # the callee is the generic closure parameter: opaque, may return anything of its return type
    shown = []
    for a in args[1:]:
        fa = eng.freeze(env, a)
        if fa[0] == "t":
            shown.extend(render(x) for x in fa[1])
        else:
            shown.append(render(fa))
    state = eng.auto.event(state, ("closure_call", "f(%s)" % ",".join(shown)), where)
    env = eng.havoc(env, args)
    return [(("top", "cl"), env, state)]


def model_from(eng, fn, bb, t, env, state, args, where):
    shown = render(eng.freeze(env, args[0])) if args else ""
    state = eng.auto.event(state, ("closure_call", "From::from(%s)" % shown), where)
    return [(("top", "from"), env, state)]


def model_result_map_err(eng, fn, bb, t, env, state, args, where):
    a = args[0]
    ex = eng.expand(a, RESULT) if a[0] in ("top", "e") else None
    if ex is None:
        return [(TOP, env, state)]
    out = []
    for n, p in ex[2]:
        if n == "Ok":
            out.append((enum(RESULT, [("Ok", p)]), env, state))
        else:
            callee = args[1] if len(args) > 1 else TOP
            nm = "From::from" if callee[0] == "fn" and callee[1].endswith("From::from") else "f"
            st = eng.auto.event(state, ("closure_call", "%s(%s)" % (nm, render(p) if p else "")), where)
            out.append((enum(RESULT, [("Err", ("top", "from" if nm == "From::from" else "cl"))]), env, st))
    return out


def _known_callable(args):
    f = args[1] if len(args) > 1 else TOP
    if f[0] == "cell":
        f = f[1]
    return f[0] in ("clo", "fn")


def model_result_map(eng, fn, bb, t, env, state, args, where):
    """Result::map(f): f runs on the Ok payload only"""
    if _known_callable(args):
        return A._hof(RESULT, "Ok", "Ok")(eng, fn, bb, t, env, state, args, where)  # a closure of the library itself
    a = args[0]
    ex = eng.expand(a, RESULT) if a[0] in ("top", "e") else None
    if ex is None:
        return [(TOP, env, state)]
    out = []
    for n, p in ex[2]:
        if n == "Err":
            out.append((enum(RESULT, [("Err", p)]), env, state))
        else:
            st = eng.auto.event(state, ("closure_call", "f(%s)" % (render(p) if p else "")), where)
            out.append((enum(RESULT, [("Ok", ("top", "cl"))]), env, st))
    return out


def model_result_and_then(eng, fn, bb, t, env, state, args, where):
    """Result::and_then(f): f runs on the Ok payload only and its Result is the result"""
    if _known_callable(args):
        return A._hof(RESULT, "Ok", None)(eng, fn, bb, t, env, state, args, where)
    a = args[0]
    ex = eng.expand(a, RESULT) if a[0] in ("top", "e") else None
    if ex is None:
        return [(TOP, env, state)]
    out = []
    for n, p in ex[2]:
        if n == "Err":
            out.append((enum(RESULT, [("Err", p)]), env, state))
        else:
            st = eng.auto.event(state, ("closure_call", "f(%s)" % (render(p) if p else "")), where)
            out.append((("top", "cl"), env, st))
    return out


# declared return type of the closure parameter (its result is split into the variants of that type)
CL_KIND = {
    P + "or_parse": PARSED,
    P + "or_always_parse": RESULT,
    P + "and_then": RESULT,
    P + "and_also": RESULT,
    RX + "and_also": RESULT,
}


def split(eng, av, clkind):
    """all fully split outcomes of an abstract value (every enum level has exactly one variant)"""
    if av == ("top", "cl") and clkind:
        av = eng.expand(av, clkind)
    if av == ("top", "cl.Res"):
        av = eng.expand(av, RESULT)
    if av[0] == "e":
        out = []
        for n, p in sorted(av[2], key=lambda x: x[0]):
            if p is None:
                out.append(("e", av[1], frozenset([(n, None)]), None))
            else:
                for sp in split(eng, p, clkind):
                    out.append(("e", av[1], frozenset([(n, sp)]), None))
        return out
    return [av]


# specification: function -> input case -> set of (calls, result)
N = ()
SPEC = {
    P + "err_into": {
        "Fallthrough": {(N, "Fallthrough")},
        "Res(Ok)": {(N, "Res(Ok(in.ok))")},
        "Res(Err)": {(("From::from(in.err)",), "Res(Err(from))")},
    },
    P + "or_give_up": {
        "Fallthrough": {(("f()",), "Err(cl)")},
        "Res(Ok)": {(N, "Ok(in.ok)")},
        "Res(Err)": {(N, "Err(in.err)")},
    },
    P + "optional": {
        "Fallthrough": {(N, "Ok(None)")},
        "Res(Ok)": {(N, "Ok(Some(in.ok))")},
        "Res(Err)": {(N, "Err(in.err)")},
    },
    P + "matches": {
        "Fallthrough": {(N, "Ok(false)")},
        "Res(Ok)": {(N, "Ok(true)")},
        "Res(Err)": {(N, "Err(in.err)")},
    },
    P + "or_parse": {
        "Fallthrough": {(("f()",), "Fallthrough"), (("f()",), "Res(Ok(cl.Res.Ok))"), (("f()",), "Res(Err(cl.Res.Err))")},
        "Res(Ok)": {(N, "Res(Ok(in.ok))")},
        "Res(Err)": {(N, "Res(Err(in.err))")},
    },
    P + "or_always_parse": {
        "Fallthrough": {(("f()",), "Ok(cl.Ok)"), (("f()",), "Err(cl.Err)")},
        "Res(Ok)": {(N, "Ok(in.ok)")},
        "Res(Err)": {(N, "Err(in.err)")},
    },
    P + "and_then": {
        "Fallthrough": {(N, "Fallthrough")},
        "Res(Ok)": {(("f(in.ok)",), "Res(Ok(cl.Ok))"), (("f(in.ok)",), "Res(Err(cl.Err))")},
        "Res(Err)": {(N, "Res(Err(in.err))")},
    },
    P + "and_also": {
        "Fallthrough": {(N, "Fallthrough")},
        "Res(Ok)": {(("f(&in.ok)",), "Res(Ok(*))"), (("f(&in.ok)",), "Res(Err(cl.Err))")},
        "Res(Err)": {(N, "Res(Err(in.err))")},
    },
    P + "and_do": {
        "Fallthrough": {(N, "Fallthrough")},
        "Res(Ok)": {(("f(&in.ok)",), "Res(Ok(*))")},
        "Res(Err)": {(N, "Res(Err(in.err))")},
    },
    P + "map": {
        "Fallthrough": {(N, "Fallthrough")},
        "Res(Ok)": {(("f(in.ok)",), "Res(Ok(cl))")},
        "Res(Err)": {(N, "Res(Err(in.err))")},
    },
    P + "map_err": {
        "Fallthrough": {(N, "Fallthrough")},
        "Res(Ok)": {(N, "Res(Ok(in.ok))")},
        "Res(Err)": {(("f(in.err)",), "Res(Err(cl))")},
    },
    FROM: {
        "Ok": {(N, "Res(Ok(in.ok))")},
        "Err": {(N, "Res(Err(in.err))")},
    },
    RX + "err_into": {
        "Ok": {(N, "Ok(in.ok)")},
        "Err": {(("From::from(in.err)",), "Err(from)")},
    },
    RX + "and_also": {
        "Ok": {(("f(&in.ok)",), "Ok(*)"), (("f(&in.ok)",), "Err(cl.Err)")},
        "Err": {(N, "Err(in.err)")},
    },
    RX + "and_do": {
        "Ok": {(("f(&in.ok)",), "Ok(*)")},
        "Err": {(N, "Err(in.err)")},
    },
}


def run(ctx):
    facts = ctx.facts
    rule = ctx.rule(
        "C15-R1",
        "for every combinator and input case: closure calls (count, argument) and result (variant, payload provenance) equal the specification table",
        floor=47,
    )
    by_def = {}
    for r in facts.roots:
        n = facts.inst.get(r)
        if n:
            by_def.setdefault(norm(n["def"]), r)
    # every public method of Parsed / ResultExt / From<Result> must be in the table (no silent new combinator)
    for fid, fn in facts.fns.items():
        nid = norm(fid)
        if (nid.startswith(P) or nid.startswith(RX) or nid == FROM) and fn.kind != "Closure":
            if nid not in SPEC:
                rule.bad("%s/unspecified" % nid, "combinator %s has no row in the specification table" % nid, fn.loc(), kind="unmodelled-idiom")
    saved = dict(A.MODELS)
    A.MODELS["core::convert::From::from"] = model_from
    A.MODELS["core::result::Result::map_err"] = model_result_map_err
    A.MODELS["core::result::Result::map"] = model_result_map
    A.MODELS["core::result::Result::and_then"] = model_result_and_then
    rows = 0
    try:
        for fid, cases in sorted(SPEC.items()):
            key = by_def.get(fid)
            if key is None:
                rule.bad("%s/missing" % fid, "combinator %s not found in the fact base" % fid, kind="anchor-missing")
                continue
            fn = facts.fns[facts.inst[key]["def"]]
            for case, expected in sorted(cases.items()):
                inp = parsed_case(case) if fid.startswith(P) else result_case(case)
                eng = Engine(facts, Calls(), closure_oracle=oracle)
                args = tuple([inp] + [TOP] * (fn.argc - 1))
                try:
                    res = eng.summary(key, (), args)
                except (A.Recursion, A.Imprecise) as e:
                    rule.bad("%s/%s/engine" % (fid, case), "analysis failed: %r" % e, fn.loc(), kind="unmodelled-idiom")
                    continue
                got = set()
                for av, st in res:
                    for sp in split(eng, av, CL_KIND.get(fid)):
                        got.add((st, render(sp)))
                # one obligation per expected row, plus one for every unexpected outcome
                for row in sorted(expected):
                    rows += 1
                    rule.check(
                        row in got,
                        "%s/%s/%s" % (fid, case, row[1]),
                        "%s on %s: calls %s, result %s" % (short(fid), case, list(row[0]) or "none", row[1]),
                        fn.loc(),
                        detail="computed outcomes: %s" % sorted(got),
                    )
                for g in sorted(got - expected):
                    rule.bad(
                        "%s/%s/unexpected/%s" % (fid, case, g[1]),
                        "%s on %s has an outcome outside the specification: calls %s, result %s (expected %s)"
                        % (short(fid), case, list(g[0]) or "none", g[1], sorted(expected)),
                        fn.loc(),
                    )
    finally:
        A.MODELS.clear()
        A.MODELS.update(saved)
    # R2: the table above describes one call; it is the whole truth only if a combinator is pure plumbing - it reaches
    # nothing but the closure it was handed, the error conversions, the modelled Result methods and its sibling
    # combinators, and it cannot diverge on its own.  State kept between calls (a counter in a thread-local or a static,
    # consulted to decide whether the continuation runs) or a panic of its own makes the outcome depend on history.
    r2 = ctx.rule("C15-R2", "combinators are pure plumbing: they call only the closure handed in, From / Into conversions, the modelled Result / Try methods and sibling combinators; no panic edge, no state outside their arguments", floor=15)
    ALLOWED_TAIL = ("FnOnce::call_once", "FnMut::call_mut", "Fn::call", "convert::From::from", "convert::Into::into", "Try>::branch", "::from_residual", "result::Result::map_err", "result::Result::map", "result::Result::and_then")
    for fid, fn in sorted(facts.fns.items()):
        nid = norm(fid)
        base = nid.split("::{closure")[0]
        if base not in SPEC or fn.crate in ("ext", "promoted"):
            continue
        bad = []
        for bb, t in fn.calls():
            if fn.blocks[bb]["cleanup"]:
                continue
            cn = norm(util.cname(t))
            if cn.startswith((P, RX)) or cn == FROM or cn.endswith(ALLOWED_TAIL) or any(x in cn for x in ("FromResidual", "ops::function::FnOnce")):
                continue
            bad.append((bb, "calls %s" % short(cn)))
        for bi, b in enumerate(fn.blocks):
            if b["cleanup"]:
                continue
            if b["term"]["k"] == "assert":
                bad.append((bi, "can panic (%s)" % b["term"].get("msg", "assert")))
        r2.check(not bad, "%s/pure-plumbing" % nid, "%s reaches only its closure, conversions and sibling combinators and cannot diverge on its own%s" % (short(nid), "" if not bad else ": " + "; ".join(w for _, w in bad[:3])), fn.loc(bad[0][0]) if bad else fn.loc())
    ctx.extra["exhaustive"] = True
    ctx.extra["spec_rows"] = rows
    ctx.assume("the closure parameter is an arbitrary callee that may return any value of its declared return type")
    return (
        "proof",
        "complete abstract interpretation of the finite variant domain of all 15 combinators against the specification table",
        {
            "trusted_base": [
                "rustc MIR construction and trait resolution",
                "frozen models of Result::branch / from_residual / Result::map_err / From::from (rules/absint.py, rules/c15.py)",
                "specification table SPEC in rules/c15.py (written from the doc comments and the property statement)",
            ],
            "checker_cmd": "./check C15 --tier %s" % ctx.tier,
        },
    )
