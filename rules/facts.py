"""Fact base: build (via flint) and load; thin wrappers over the MIR json."""
import json, os, shutil, subprocess, tempfile, time

VERIF = os.path.dirname(os.path.dirname(os.path.abspath(__file__)))
REPO = os.environ.get("FLUSSAB_REPO", "/repo")
CRATES = ["flussab", "flussab_cnf", "flussab_aiger", "flussab_btor2"]
FLINT = os.path.join(VERIF, "flint", "target", "release", "flint")

# floors counted on the tree at design time (fail closed if the build silently shrinks)
FN_FLOORS = {"flussab": 80, "flussab_cnf": 120, "flussab_aiger": 240, "flussab_btor2": 200}


class FactError(Exception):
    pass


def ensure_flint():
    if not os.path.exists(FLINT):
        r = subprocess.run(
            ["cargo", "build", "--release", "--offline"],
            cwd=os.path.join(VERIF, "flint"),
            stdout=subprocess.PIPE,
            stderr=subprocess.STDOUT,
            env=dict(os.environ, CARGO_NET_OFFLINE="true"),
        )
        if r.returncode != 0 or not os.path.exists(FLINT):
            raise FactError("flint driver build failed:\n" + r.stdout.decode()[-3000:])


def sysroot():
    return subprocess.check_output(["rustc", "+nightly", "--print", "sysroot"]).decode().strip()


def build_facts(repo=None, extra_rustflags="", keep=False):
    """Run cargo +nightly check with the flint wrapper in a fresh scratch dir; return (dir, seconds)."""
    repo = repo or REPO
    ensure_flint()
    t0 = time.time()
    out = tempfile.mkdtemp(prefix="flint-facts-")
    env = dict(os.environ)
    env["LD_LIBRARY_PATH"] = sysroot() + "/lib"
    env["RUSTFLAGS"] = "-Zmir-opt-level=0 -Zalways-encode-mir -Awarnings " + extra_rustflags
    env["RUSTC_WORKSPACE_WRAPPER"] = FLINT
    env["FLINT_OUT"] = os.path.join(out, "facts")
    env["CARGO_TARGET_DIR"] = os.path.join(out, "target")
    env["CARGO_NET_OFFLINE"] = "true"
    env.pop("RUSTC_WRAPPER", None)
    r = subprocess.run(
        ["cargo", "+nightly", "check", "--offline", "--workspace", "--lib", "-q"],
        cwd=repo,
        env=env,
        stdout=subprocess.PIPE,
        stderr=subprocess.STDOUT,
    )
    shutil.rmtree(os.path.join(out, "target"), ignore_errors=True)
    if r.returncode != 0:
        msg = r.stdout.decode()[-4000:]
        shutil.rmtree(out, ignore_errors=True)
        raise FactError("cargo check with flint failed:\n" + msg)
    for c in CRATES:
        if not os.path.exists(os.path.join(out, "facts", c + ".json")):
            shutil.rmtree(out, ignore_errors=True)
            raise FactError("fact file missing for crate " + c)
    return out, time.time() - t0


class Fn:
    __slots__ = ("j", "id", "crate", "blocks", "locals", "argc", "kind", "_cfg", "_sym", "vars", "nvars")

    def __init__(self, j, crate):
        self.j = j
        self.id = j["id"]
        self.crate = crate
        self.blocks = j["blocks"]
        self.locals = j["locals"]
        self.argc = j["argc"]
        self.kind = j["kind"]
        self._cfg = None
        self._sym = None
        self.vars = {}
        self.nvars = {}
        for v in j["vars"]:
            if not v["place"]["p"]:
                self.vars[v["place"]["l"]] = v["name"]
            self.nvars.setdefault(v["name"], []).append(v["place"])

    @property
    def file(self):
        return self.j["span"]["file"]

    @property
    def line(self):
        return self.j["span"]["lo"]

    def loc(self, bb=None):
        if bb is None:
            return "%s:%d" % (self.file, self.line)
        return "%s:%d" % (self.file, self.blocks[bb]["term"]["line"])

    def term(self, bb):
        return self.blocks[bb]["term"]

    def succs(self, bb, unwind=False):
        t = self.blocks[bb]["term"]
        k = t["k"]
        out = []
        if k == "goto":
            out = [t["target"]]
        elif k == "switch":
            out = [a[1] for a in t["arms"]] + [t["otherwise"]]
        elif k in ("call", "drop", "assert"):
            if t.get("target") is not None:
                out = [t["target"]]
            if unwind and t.get("unwind") is not None:
                out.append(t["unwind"])
        return out

    def calls(self):
        """yield (bb, term) for call terminators in non-cleanup blocks"""
        for i, b in enumerate(self.blocks):
            if b["cleanup"]:
                continue
            t = b["term"]
            if t["k"] in ("call", "tailcall"):
                yield i, t

    def local_name(self, l):
        return self.vars.get(l, "_%d" % l)


def callee_def(t):
    """static callee def path ('' for indirect)"""
    c = t.get("callee", {})
    return c.get("def", "")


def callee_res(t):
    """resolved callee def path if the identity-generic resolution succeeded, else the static def"""
    c = t.get("callee", {})
    return c.get("res") or c.get("def", "")


class Facts:
    def __init__(self, d, normalise=True):
        self.dir = d
        self.fns = {}
        self.adts = {}
        self.inst = {}
        self.roots = []
        self.crate_of_root = {}
        self.counts = {}
        self.consts = {}
        from . import inline
        texts = {c: open(os.path.join(d, "facts", c + ".json")).read() for c in CRATES}
        raw = {c: json.loads(t) for c, t in texts.items()}
        self.renamed = {"functions": {}, "fields": {}}
        base = inline.baseline() if normalise else None
        if base:
            # private items that only changed their name since the rules' baseline get the baseline name back
            fn_map, field_map = inline.detect_renames(raw, base)
            if fn_map:
                raw = {c: json.loads(inline.apply_fn_renames(t, fn_map)) for c, t in texts.items()}
                self.renamed["functions"] = fn_map
            if field_map:
                inline.apply_field_renames(raw, field_map)
                self.renamed["fields"] = {"%s.%s" % k: v for k, v in field_map.items()}
        for c in CRATES:
            j = raw[c]
            self.counts[c] = len([f for f in j["fns"] if not f.get("external") and f.get("kind") != "Promoted"])
            for f in j["fns"]:
                if f.get("external"):
                    # library generic instantiated with a workspace closure: body available for the walk only
                    self.fns.setdefault(f["id"], Fn(f, "ext"))
                elif f.get("kind") == "Promoted":
                    # promoted constant bodies: looked up by id only, never treated as functions of the crate
                    self.fns[f["id"]] = Fn(f, "promoted")
                else:
                    self.fns[f["id"]] = Fn(f, c)
            for a in j["adts"]:
                self.adts.setdefault(a["path"], a)
            for k in j.get("consts", []):
                self.consts[k["id"]] = k
            for n in j["instances"]["nodes"]:
                # nodes of different crates with the same key are identical by construction
                if n["key"] not in self.inst or (n["has_mir"] and not self.inst[n["key"]]["has_mir"]):
                    self.inst[n["key"]] = n
            for r in j["instances"]["roots"]:
                self.roots.append(r)
                self.crate_of_root[r] = c
        self.synth_closures = self._synthesize_closure_instances()
        for c, floor in FN_FLOORS.items():
            if self.counts.get(c, 0) < floor:
                raise FactError("crate %s: %d MIR bodies < floor %d" % (c, self.counts.get(c, 0), floor))

    def _synthesize_closure_instances(self):
        """A workspace closure handed to a deep std combinator (`array::from_fn`, `Iterator::all / position / map`)
        may have no node in the instance graph: the driver's walk through the library body does not always arrive
        at the `call_once` of the closure.  Such a closure gets a synthetic node (its calls resolved by definition,
        to every instance of the callee) and an edge from every instance of the function that constructs it, so
        reachability, recursion and who-may-call rules see through it."""
        have = set(n["def"] for n in self.inst.values())
        by_def = {}
        for k, n in self.inst.items():
            by_def.setdefault(n["def"], []).append(k)
        made = []
        todo = [f for f in self.fns.values() if f.kind == "Closure" and f.crate not in ("ext", "promoted") and f.id not in have]
        for f in sorted(todo, key=lambda x: x.id):
            key = f.id + "<synthetic>"
            calls = []
            for bi, b in enumerate(f.blocks):
                t = b["term"]
                if t["k"] not in ("call", "tailcall"):
                    continue
                c = t.get("callee", {})
                d = c.get("res") or c.get("def") or ""
                tos = by_def.get(d, [])
                if len(tos) == 1:
                    calls.append({"bb": bi, "def": c.get("def", d), "to": tos[0], "to_def": d, "via": "synthetic", "walked": bool(self.inst[tos[0]].get("has_mir"))})
                else:
                    calls.append({"bb": bi, "def": c.get("def", d), "to_def": d, "via": "synthetic", "walked": False})
                    for i, to in enumerate(tos):
                        calls.append({"bb": -(1000 * (bi + 1) + i), "def": c.get("def", d), "to": to, "to_def": d, "via": "synthetic-any", "walked": False})
            self.inst[key] = {"key": key, "def": f.id, "local": True, "crate": f.crate, "has_mir": True, "synthetic": True, "calls": calls}
            by_def.setdefault(f.id, []).append(key)
            made.append(f.id)
        # construction edges (also for the closures made in this pass by other synthetic closures)
        made_set = set(made)
        if made_set:
            for f in self.fns.values():
                if f.crate in ("ext", "promoted"):
                    continue
                for bi, b in enumerate(f.blocks):
                    for st in b["stmts"]:
                        if st["k"] == "assign" and st["rv"]["k"] == "agg" and st["rv"].get("closure") in made_set:
                            cid = st["rv"]["closure"]
                            for k in by_def.get(f.id, []):
                                self.inst[k]["calls"].append({"bb": -(bi + 1), "def": cid, "to": cid + "<synthetic>", "to_def": cid, "via": "closure-construction", "walked": True})
        return made

    def fn(self, id):
        f = self.fns.get(id)
        if f is None:
            raise FactError("anchor missing: function " + id)
        return f

    def fns_matching(self, pred):
        return [f for f in self.fns.values() if pred(f)]

    def callers_of(self, pred):
        """all (fn, bb, term) call sites whose static or resolved callee satisfies pred(defpath)"""
        out = []
        for f in self.fns.values():
            for bb, t in f.calls():
                if pred(callee_def(t)) or pred(callee_res(t)):
                    out.append((f, bb, t))
        return out

    def cleanup(self):
        shutil.rmtree(self.dir, ignore_errors=True)


def load(repo=None, extra_rustflags="", normalise=True):
    d, secs = build_facts(repo, extra_rustflags)
    try:
        f = Facts(d, normalise)
        f.inlined = {}
        if normalise:
            from . import inline
            f.inlined = inline.normalise(f, Fn)
    except Exception:
        shutil.rmtree(d, ignore_errors=True)
        raise
    f.build_s = secs
    return f
