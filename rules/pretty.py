"""Readable dump of a MIR body from the fact base (debug aid)."""
import sys
from .sym import short


def place(fn, p):
    s = fn.local_name(p["l"])
    for pr in p["p"]:
        if pr == "*":
            s = "(*%s)" % s
        elif isinstance(pr, dict):
            if "f" in pr:
                s += "." + pr["name"]
            elif "downcast" in pr:
                s = "(%s as %s)" % (s, pr["vname"])
            elif "index" in pr:
                s += "[_%d]" % pr["index"]
            else:
                s += str(pr)
        else:
            s += "." + str(pr)
    return s


def operand(fn, o):
    if "c" in o:
        c = o["c"]
        if "int" in c:
            return "%d" % c["int"]
        if "fn" in c:
            return short(c["fn"])
        if "bytes" in c:
            return "b%r" % bytes(c["bytes"])
        return "const(%s)" % c.get("dbg", "")[:40]
    if "cp" in o:
        return place(fn, o["cp"])
    if "mv" in o:
        return "move " + place(fn, o["mv"])
    return str(o)


def rvalue(fn, rv):
    k = rv["k"]
    if k == "use":
        return operand(fn, rv["a"])
    if k == "ref":
        return ("&mut " if rv["mut"] else "&") + place(fn, rv["p"])
    if k == "rawptr":
        return "&raw " + place(fn, rv["p"])
    if k == "cast":
        return "%s as %s [%s]" % (operand(fn, rv["a"]), rv["to"], rv["ck"])
    if k == "bin":
        return "%s(%s, %s)" % (rv["op"], operand(fn, rv["a"]), operand(fn, rv["b"]))
    if k == "un":
        return "%s(%s)" % (rv["op"], operand(fn, rv["a"]))
    if k == "discr":
        return "discr(%s)" % place(fn, rv["p"])
    if k == "agg":
        w = rv.get("adt") or rv.get("closure") or rv["ak"]
        return "%s::%s(%s)" % (short(w), rv.get("variant", ""), ", ".join(operand(fn, o) for o in rv["ops"]))
    return rv.get("dbg", k)


def dump(fn, out=sys.stdout):
    print("fn %s  [%s:%d] argc=%d" % (fn.id, fn.file, fn.line, fn.argc), file=out)
    for i, l in enumerate(fn.locals):
        print("   _%d%s: %s" % (i, ("(%s)" % fn.vars[i]) if i in fn.vars else "", l["s"]), file=out)
    for bi, b in enumerate(fn.blocks):
        print(" bb%d%s:" % (bi, " (cleanup)" if b["cleanup"] else ""), file=out)
        for s in b["stmts"]:
            u = " [unsafe]" if s.get("unsafe") else ""
            if s["k"] == "assign":
                print("    %s = %s%s" % (place(fn, s["lhs"]), rvalue(fn, s["rv"]), u), file=out)
            elif s["k"] == "setdiscr":
                print("    discr(%s) = %d" % (place(fn, s["lhs"]), s["vidx"]), file=out)
            elif s["k"] == "intrinsic":
                print("    intrinsic %s%s" % (s["dbg"], u), file=out)
        t = b["term"]
        k = t["k"]
        u = " [unsafe]" if t.get("unsafe") else ""
        if k == "goto":
            print("    goto bb%d" % t["target"], file=out)
        elif k == "switch":
            arms = ", ".join("%d->bb%d" % (a[0], a[1]) for a in t["arms"])
            print("    switch %s [%s, else->bb%d]" % (operand(fn, t["discr"]), arms, t["otherwise"]), file=out)
        elif k == "call":
            c = t["callee"]
            name = c.get("res") or c.get("def") or c.get("indirect")
            print(
                "    %s = %s(%s) -> %s%s  L%d"
                % (
                    place(fn, t["dest"]),
                    name,
                    ", ".join(operand(fn, a) for a in t["args"]),
                    "bb%d" % t["target"] if t["target"] is not None else "!",
                    u,
                    t["line"],
                ),
                file=out,
            )
        elif k == "assert":
            print(
                "    assert(%s == %s, %s %s) -> bb%d"
                % (operand(fn, t["cond"]), t["expected"], t["msg"], t.get("op", ""), t["target"]),
                file=out,
            )
        elif k == "drop":
            print("    drop(%s) -> bb%d" % (place(fn, t["place"]), t["target"]), file=out)
        else:
            print("    %s %s" % (k, t.get("dbg", "")), file=out)
