"""C05 — every input terminates with Ok or Err and bounded resources.

R1 no recursion in the workspace's call graph (bounded stack)
R2 numbers the input declares never enter unguarded checked arithmetic (overflow / division asserts)
R3 the column computation is discharged by C08 (reference)
R4 panic-site inventory: every panic-capable construct in parser-reachable code is discharged by a class or
   listed with its reason; a new site is reported
R5 no allocation is sized by a declared number
R6 every loop over the input makes progress (consumes, moves its look-ahead offset, counts down or iterates
   over owned data)
"""
from . import util, guards, cg, taint as T
from . import absint as A
from .facts import FactError
from .cfg import cfg
from .common import norm, family
from .sym import sym, short, mentions, subexprs
from .c10 import strip_bb
from .c03 import upvar_field, symbol_tables
from .c04 import api_roots, takes_reader, FORMAT_CRATES

SCOPE_EXCLUDE = ("::Writer", "::write_", "flussab::deferred_writer", "flussab::write::", "<flussab::deferred_writer", "::fmt", "flussab_aiger::aig::", "<flussab_aiger::aig", "flussab_btor2::btor2::", "<flussab_btor2::btor2", "::error::", "dimacs_trait", "::lit::", "flussab::parser::", "<flussab::parser")


def in_scope(f):
    if f.crate in ("ext", "promoted"):
        return False
    nid = norm(f.id)
    return not any(x in nid for x in SCOPE_EXCLUDE)


# ---- R1 ---------------------------------------------------------------------------------------
def run_r1(ctx, rule):
    facts = ctx.facts
    roots = [r for r in facts.roots if r in facts.inst]
    reach = cg.reach(facts, roots)
    ws = set(k for k in reach if facts.inst[k]["crate"].startswith("flussab"))
    comps = [c for c in cg.sccs(facts, ws) if len(c) > 1 or cg.self_loop(facts, c[0])]
    rule.check(not comps, "recursion", "the instance call graph of the workspace (%d instances reachable from %d roots) has no cycle%s" % (len(ws), len(roots), "" if not comps else ": " + " <-> ".join(short(facts.inst[k]["def"]) for k in comps[0][:4])), path=[facts.inst[k]["def"] for c in comps[:2] for k in c[:6]])
    rule.note("instances", len(ws))
    rule.note("library_instances_followed", len(reach) - len(ws))
    if len(ws) < 400:
        rule.bad("recursion/floor", "only %d workspace instances walked (at least 400 expected)" % len(ws), kind="anchor-missing")
    # leaves: calls that could not be resolved (trait methods on the abstract literal type, dyn Read/Write)
    leaves = {}
    for k in ws:
        for c in facts.inst[k]["calls"]:
            if "leaf" in c:
                leaves[c["leaf"][:80]] = leaves.get(c["leaf"][:80], 0) + 1
    rule.note("unresolved_leaf_calls", dict(sorted(leaves.items(), key=lambda kv: -kv[1])[:12]))


# ---- R2 ---------------------------------------------------------------------------------------
RESIDUAL = {
    ("flussab::deferred_reader::DeferredReader::advance_unchecked", "Sub", "valid_len"): "unsafe fn: the caller guarantees n <= buf_len() (debug-asserted)",
    ("flussab::text::LineReader::give_up_at_cold", "Sub", "position"): "position >= line_start: decided by C08-R1 (mark set on the current line) and C08-R2 (line start never ahead of the cursor)",
    ("flussab::text::swar_ascii_digits_u64_le", "DivisionByZero", ""): "division by the constant 8",
    ("flussab_btor2::token::ascii_lowercase_u64", "DivisionByZero", ""): "division by the constant 8",
    ("flussab::deferred_reader::DeferredReader::request_more", "DivisionByZero", ""): "division by the constant 2",
    ("flussab_aiger::ascii::Header::parse", "DivisionByZero", ""): "division by the constant 2",
    ("flussab_aiger::binary::Header::parse", "DivisionByZero", ""): "division by the constant 2",
    ("flussab_aiger::token::binary_uint", "DivisionByZero", ""): "division by the constant 7",
    # (function, op, first operand rendered prefix) -> reason
    ("flussab_aiger::ascii::Parser::new", "Mul", "max_var_index"): "M <= (L::MAX_CODE - 1) / 2 (header_field limit, C06-R4), so 2M + 1 <= MAX_CODE <= usize::MAX",
    ("flussab_aiger::ascii::Parser::new", "Add", "max_var_index"): "same: 2M + 1 <= MAX_CODE",
    ("flussab_aiger::binary::Parser::new", "Mul", "max_var_index"): "same: 2M + 1 <= MAX_CODE",
    ("flussab_aiger::binary::Parser::new", "Add", "max_var_index"): "same: 2M + 1 <= MAX_CODE",
    ("flussab_aiger::binary::Parser::new", "Add", "input_count"): "I <= M <= (MAX_CODE - 1) / 2 < usize::MAX, so I + 1 cannot overflow",
    ("flussab::text::signed_ascii_digits_multi", "OverflowNeg", ""): "the kernel value has at most 7 digits here (< 10^7), far from i32::MIN",
    ("flussab::text::swar_ascii_digits_u64_le", "Sub", "64"): "shift = trailing_zeros() & !7 <= 64",
    ("flussab_cnf::token::clause_lits", "OverflowNeg", ""): "limit is L::MAX_DIMACS or a header var_count <= MAX_DIMACS: positive, never isize::MIN",
    ("flussab_cnf::sat_solver_log::parse_log", "OverflowNeg", ""): "the constant L::MAX_DIMACS is positive",
}


def field_leaf(e):
    while isinstance(e, tuple) and e[0] in ("cast",):
        e = e[2]
    if isinstance(e, tuple) and e[0] == "f":
        return e[2]
    return None


def origin_deep(sy, e, depth=0):
    if depth > 3:
        return e
    if e[0] == "l":
        o = sy.origin(e)
        if o != e:
            return origin_deep(sy, o, depth + 1)
    return e


def payload_call(sy, e):
    """if e is the success payload of `call(..)?` return that inner call expression"""
    e = origin_deep(sy, e)
    if e[0] == "f" and e[1][0] == "v" and e[1][2] == "Continue" and e[1][1][0] == "call" and norm(e[1][1][2]).endswith("Try>::branch"):
        inner = e[1][1][3][0]
        if inner[0] == "call":
            return inner
    return None


def _const_of(e):
    """value of a constant expression (`(usize::BITS as usize + 6) / 7` is computed at run time in unoptimised MIR)"""
    if e[0] == "c" and isinstance(e[1], int):
        return e[1]
    if e[0] == "cast":
        return _const_of(e[2])
    if e[0] == "bin":
        a, b = _const_of(e[2]), _const_of(e[3])
        if a is None or b is None:
            return None
        op = e[1].replace("Unchecked", "").replace("WithOverflow", "")
        try:
            return {"Add": a + b, "Sub": a - b, "Mul": a * b, "Div": a // b if b else None, "Shl": a << b if b < 64 else None, "Shr": a >> b if b < 64 else None}.get(op)
        except Exception:
            return None
    return None


def counter_bound(f, bi, e):
    """upper bound of `k * c` / `c` / `c * k` at block bi, where c is a loop counter: one constant initialisation, only
    `c += 1` steps, and between every step and bi a test that ends the loop when c reaches a constant
    (`if c == K { return .. }` right behind the increment, `while c < K`): inductively c <= K - 1 at bi.
    returns (bound of the whole expression, reason) or None"""
    sy = sym(f)
    c = cfg(f)
    k = 1
    if e[0] == "cast":
        e = e[2]
    if e[0] == "l":
        e2 = sy.origin(e)  # `let shift = 7 * i;`
        if e2 != e and e2[0] == "bin":
            e = e2
    if e[0] == "bin" and e[1].replace("Unchecked", "") == "Mul":
        ka, kb = _const_of(e[2]), _const_of(e[3])
        if ka is not None and e[3][0] == "l":
            k, e = ka, e[3]
        elif kb is not None and e[2][0] == "l":
            k, e = kb, e[2]
        else:
            return None
    if e[0] != "l":
        return None
    cl = e[1]
    inits, steps = [], []
    for d in sy.defs.get(cl, []):
        if d[0] != "stmt":
            return None
        rv = sy.rvalue(d[3], 1)
        cv = _const_of(rv)
        if cv is not None:
            inits.append(cv)
        elif rv[0] == "bin" and rv[1].replace("Unchecked", "") == "Add" and rv[2] == ("l", cl) and _const_of(rv[3]) == 1:
            steps.append(d[1])
        else:
            return None
    if len(inits) != 1 or not steps or k <= 0:
        return None
    bound = inits[0]
    why = []
    for sb in steps:
        # a test of the counter against a constant whose loop-continuing edge every path from the step to bi takes
        best = None
        for tb in range(len(f.blocks)):
            if f.blocks[tb]["cleanup"] or f.term(tb)["k"] != "switch":
                continue
            for tgt, fa in guards.switch_edges(f, tb):
                if fa[0] != "cmp":
                    continue
                lhs, rhs, opx = fa[2], fa[3], fa[1]
                if rhs == ("l", cl):
                    lhs, rhs, opx = rhs, lhs, guards.FLIP[opx]
                K = _const_of(rhs)
                if lhs != ("l", cl) or K is None:
                    continue
                ub = {"Ne": K - 1 if inits[0] < K else None, "Lt": K - 1, "Le": K}.get(opx)
                if ub is None:
                    continue
                # every path from the increment to bi uses this edge?
                seen = set()
                st = list(f.succs(sb)) if sb != tb else []
                if sb == tb:
                    st = [x for x in f.succs(tb) if x != tgt]
                ok = True
                while st:
                    x = st.pop()
                    if x in seen:
                        continue
                    seen.add(x)
                    if x == bi:
                        ok = False
                        break
                    for y in f.succs(x):
                        if x == tb and y == tgt:
                            continue
                        st.append(y)
                if ok and (best is None or ub < best[0]):
                    best = (ub, "%s %s %d" % (sy.show(("l", cl)), opx, K))
        if best is None:
            return None
        bound = max(bound, best[0])
        why.append(best[1])
    return (k * bound, "%s starts at %d, steps by 1, and continues only while %s" % (sy.show(("l", cl)), inits[0], " / ".join(sorted(set(why)))))


def affine_nonneg(facts, f, bi, t):
    """a - b, evaluated as affine forms over the entry values of the receiver's fields and the arguments along every
    acyclic path to the subtraction: discharged when the difference is a non-negative combination of those (unsigned)
    entry values on each path and no wrapping operation fed into it  (`pos_in_buf - n` right behind `advance(n)`,
    which added n: the difference is the old cursor)"""
    from .aff import PathExec, Aff
    c = cfg(f)
    n = 0
    why = None
    try:
        paths = list(c.paths(limit=400))
    except Exception:
        return None
    # effects of the reader's own field-writing methods at their call sites (all returning paths of the callee agree,
    # recomputed from its body: C02-R2 decides the same laws)
    from .c02 import auto_summary
    summ = {}
    for bb, t2 in f.calls():
        cn = norm(util.cname(t2))
        if cn.startswith("flussab::deferred_reader::DeferredReader::") and cn != norm(f.id):
            try:
                sm = auto_summary(facts, cn.rsplit("::", 1)[-1])
            except Exception:
                sm = None
            if sm is not None:
                summ[cn] = sm
    for p, cut in paths:
        if bi not in p:
            continue
        pre = p[: p.index(bi) + 1]
        ex = PathExec(facts, f, summ)
        st = ex.run_path(pre)
        if st.infeasible:
            continue
        if any(e[0] == "call" and e[2][0].rsplit("::", 1)[-1].startswith(("wrapping_", "overflowing_")) for e in st.events):
            return None
        a = ex.operand(st, t["ops"][0])
        b = ex.operand(st, t["ops"][1])
        if not isinstance(a, Aff) or not isinstance(b, Aff):
            return None
        d = a - b
        if d.c < 0 or any(v < 0 for v in d.t.values()) or any(not (k.endswith("@0") or k.startswith("arg")) for k in d.t):
            return None
        n += 1
        why = "a - b = %s on every path (%d)" % (d, n)
    return ("affine", why) if n else None


def scan_index_discharge(f, bi, a, b):
    """a - b where the bound follows from "an index found by scanning a slice lies inside that slice" (recomputed from
    the code: which slice was scanned, how long it is)"""
    from . import scanidx as SI
    sy = sym(f)
    # len(S) - q, q found in S
    s = SI.len_of(f, a)
    q = SI.scanned_slice(f, b)
    if s is not None and q is not None and SI.strip(s) == SI.strip(q[0]):
        return "scan-index", "b is an index found by scanning the slice whose length is a: b < a"
    # (len(S) - q) - 1, q found in S
    if b == ("c", 1) and SI.at_most_len(f, a) is not None:
        return "scan-index", "a is len(S) - q or p + 1 for an index found in S: a >= 1"
    # k - b, where 1 <= b <= len(S) and S = &x[..k] with k unchanged since the cut
    s = SI.at_most_len(f, b)
    if s is not None:
        cut = SI.slice_cut(f, s)
        if cut is not None:
            cut_bb, k = cut
            ka, kk = SI.peel(sy, a), SI.peel(sy, k)
            if ka == kk and ka[0] == "l" and SI.unchanged_between(f, ka[1], cut_bb, bi):
                return "scan-index", "b <= len(S) and S was cut to a bytes (`&x[..a]`, a unchanged since)"
            if ka == kk and ka[0] != "l":
                return "scan-index", "b <= len(S) and S was cut to a bytes"
    return None


def discharge(facts, tn, f, bi, t, guard_rows):
    sy = sym(f)
    op = t.get("op", t["msg"])
    ops = [sy.operand(o) for o in t["ops"]]
    tainted = [tn.tainted(f, o) for o in ops]
    nid = norm(f.id)
    if not any(tainted) and op in ("Add", "Mul"):
        # sums / products of measures of consumed or buffered data are bounded by memory
        return "measure", "operands measure consumed input or are constants"
    if not any(tainted) and all(o[0] in ("c", "cast") for o in ops) and t["msg"] != "Overflow":
        return "measure", "constant operands"
    if t["msg"] == "Overflow" and len(ops) == 2 and all(o[0] == "c" and isinstance(o[1], int) for o in ops) and op in ("Add", "Sub", "Mul"):
        v = {"Add": ops[0][1] + ops[1][1], "Sub": ops[0][1] - ops[1][1], "Mul": ops[0][1] * ops[1][1]}[op]
        if 0 <= v < (1 << 31):
            return "const-arith", "both operands are constants and the exact result %d fits" % v
    a = ops[0]
    b = ops[1] if len(ops) > 1 else None
    if t["msg"] in ("DivisionByZero", "RemainderByZero"):
        ce = sy.operand(t["cond"])
        if ce[0] == "bin" and ce[1] == "Eq" and ce[3] == ("c", 0) and ce[2][0] == "c" and ce[2][1] != 0:
            return "const-divisor", "division by the non-zero constant %d" % ce[2][1]
    if t["msg"] in ("DivisionByZero", "RemainderByZero") and any(tainted):
        return None, "division by a declared number"
    if op in ("Shl", "Shr"):
        if b is not None and b[0] == "c" and 0 <= b[1] < 64 or b is not None and b[0] == "cast" and b[2][0] == "c":
            return "const-shift", "shift by a constant below the width"
        if b is not None and b[0] == "bin" and b[1] == "Sub" and b[2] == ("c", 64):
            g = guards.holds(f, bi, lambda fa: fa[0] in ("cmp", "notin", "eq") and (fa[0] == "notin" and 0 in fa[2] and strip_bb(fa[1]) == strip_bb(b[3]) or fa[0] == "cmp" and fa[1] == "Ne" and ("c", 0) in (fa[2], fa[3])))
            if g:
                return "guard", "shift by 64 - s behind s != 0 (s <= 64)"
        g = guards.holds(f, bi, lambda fa: fa[0] == "cmp" and fa[1] == "Ne" and (fa[3] == ("c", 64) or fa[2] == ("c", 64)) or fa[0] == "notin" and 64 in fa[2])
        if g and not tainted[0] or g:
            return "guard", "shift amount behind != 64 (trailing_zeros() & !7 <= 64)"
        cb = counter_bound(f, bi, b) if b is not None else None
        if cb is not None and cb[0] < 64:
            return "counter-bound", "shift by at most %d: %s" % cb
        return None, "shift by a data dependent amount" + ("" if cb is None else " (up to %d: %s)" % cb)
    if op == "Sub" and b is not None:
        if b[0] == "c":
            c = b[1]
            ao = strip_bb(origin_deep(sy, a))
            g = guards.holds(f, bi, lambda fa: fa[0] == "cmp" and (fa[1] == "Le" and fa[2] == ("c", c) and strip_bb(fa[3]) == ao or fa[1] == "Ge" and fa[3] == ("c", c) and strip_bb(fa[2]) == ao))
            if g:
                return "guard", "x - %d behind %s" % (c, guards.show_fact(f, g[1]))
            if c <= 48:
                g = guards.holds(f, bi, lambda fa: fa[0] == "bool" and fa[2] is True and fa[1][0] == "call" and norm(fa[1][2]).endswith(("is_ascii_digit", "is_ascii_hexdigit", "is_ascii_alphanumeric")) and strip_bb(origin_deep(sy, fa[1][3][0])) == ao)
                if g:
                    return "guard", "x - %d behind %s (x >= b'0')" % (c, guards.show_fact(f, g[1]))
            g = guards.holds(f, bi, lambda fa: (fa[0] == "cmp" and (fa[1] in ("Ne", "Gt") and fa[3] == ("c", 0) and strip_bb(fa[2]) == strip_bb(a) and c == 1 or fa[1] == "Ge" and fa[3] == ("c", c) and strip_bb(fa[2]) == strip_bb(a) or fa[1] == "Le" and fa[2] == ("c", c) and strip_bb(fa[3]) == strip_bb(a) or fa[1] == "Gt" and fa[3][0] == "c" and fa[3][1] >= c - 1 and strip_bb(fa[2]) == strip_bb(a))) or (fa[0] == "notin" and 0 in fa[2] and strip_bb(fa[1]) == strip_bb(a) and c == 1))
            if g:
                return "guard", "x - %d behind %s" % (c, guards.show_fact(f, g[1]))
            # closure: count - 1 guarded through the combinator (C03-R3 rows: guard field == limit field, and_then runs only on success)
            leaf = upvar_field(facts, f, a) if f.kind == "Closure" else None
            if leaf and c == 1 and any(r[5] == f.id and r[1] == leaf and r[2] == leaf for r in guard_rows):
                return "guard-through-combinator", "%s - 1 runs only after `%s > 0` selected the alternative (and_then runs its continuation only on success, C15; rows checked by C03-R3)" % (leaf, leaf)
        if a[0] == "c" and a[1] >= (1 << 63) - 1:
            return "const-minus", "MAX - x cannot underflow"
        if a[0] == "c?" and "MAX" in a[1]:
            return "const-minus", "MAX constant minus a constant"
        g = guards.holds(f, bi, lambda fa: guards.cmp_implies(fa, "Le", lambda x: strip_bb(x) == strip_bb(b) or strip_bb(origin_deep(sy, x)) == strip_bb(origin_deep(sy, b)), lambda x: strip_bb(x) == strip_bb(a)))
        if g:
            return "guard", "a - b behind %s" % guards.show_fact(f, g[1])
        pc = payload_call(sy, b)
        if pc is not None and norm(pc[2]) in ("flussab_aiger::token::header_field", "flussab_aiger::token::symbol_index", "flussab_aiger::token::lit") and strip_bb(pc[3][2]) == strip_bb(a):
            return "bounded-callee", "b is the result of %s(.., limit = a): b <= a (C06-R8)" % short(pc[2])
    if op == "Add" and b is not None:
        pc = payload_call(sy, b)
        if pc is not None and norm(pc[2]) == "flussab_aiger::token::header_field":
            lim = pc[3][2]
            if lim[0] == "bin" and lim[1] == "Sub" and lim[2][0] == "c" and lim[2][1] >= (1 << 63) - 1 and strip_bb(lim[3]) == strip_bb(a):
                return "bounded-callee", "b <= MAX - a by the limit passed to header_field"
    if op == "Sub" and b is not None:
        r = scan_index_discharge(f, bi, a, b)
        if r is not None:
            return r
        if nid.startswith("flussab::deferred_reader::DeferredReader::"):
            r = affine_nonneg(facts, f, bi, t)
            if r is not None:
                return r
    # residual table
    shown = sy.show(a)
    for (rf, rop, rpre), why in RESIDUAL.items():
        if rf in (nid, family(nid)) and rop == op and (rpre == "" or rpre in shown):
            return "residual", why
    return None, "no guard, bound or table entry"


def run_r2(ctx, rule, tn, only=None):
    facts = ctx.facts
    guard_rows = []
    for mod in ("ascii", "binary"):
        try:
            wt, rows = symbol_tables(facts, mod, rule)
            guard_rows += rows
        except Exception:
            pass
    counts = {}
    ordn = {}
    n_t = 0
    for fid, f in sorted(facts.fns.items()):
        if not in_scope(f):
            continue
        if only is not None and not only(f):
            continue
        for bi, b in enumerate(f.blocks):
            if b["cleanup"]:
                continue
            t = b["term"]
            if t["k"] != "assert" or t["msg"] not in ("Overflow", "DivisionByZero", "RemainderByZero", "OverflowNeg"):
                continue
            cls, why = discharge(facts, tn, f, bi, t, guard_rows)
            nid = norm(fid)
            op = t.get("op", t["msg"])
            o = ordn.get((nid, op), 0)
            ordn[(nid, op)] = o + 1
            counts[cls or "undischarged"] = counts.get(cls or "undischarged", 0) + 1
            if cls == "measure":
                rule.obligations += 1
                rule.discharged += 1
                continue
            n_t += 1
            sy = sym(f)
            what = "%s in %s on a declared number: %s" % (op, short(nid), " , ".join(sy.show(sy.operand(x))[:50] for x in t["ops"]))
            if cls is None:
                rule.bad("%s/%s/#%d" % (nid, op, o), what + " - " + why, f.loc(bi))
            else:
                rule.ok(what, f.loc(bi), "%s: %s" % (cls, why))
    # integer methods of std that trap exactly like the operators (they inherit the caller's overflow checks):
    # they are calls, not MIR assertions, so they are enumerated by name
    trapping = ("abs", "pow", "next_power_of_two", "div_euclid", "rem_euclid", "isqrt", "ilog", "ilog2", "ilog10", "next_multiple_of", "neg", "abs_sub")
    n_m = 0
    for fid, f in sorted(facts.fns.items()):
        if not in_scope(f):
            continue
        sy = sym(f)
        om = {}
        for bb, t in f.calls():
            cn = util.cname(t)
            m = cn.rsplit("::", 1)[-1]
            if not (cn.startswith("core::num::") and m in trapping and "nonzero" not in cn and "wrapping" not in cn):
                continue
            n_m += 1
            nid = norm(fid)
            o = om.get(m, 0)
            om[m] = o + 1
            args = [sy.operand(a) for a in t["args"]]
            tainted = any(tn.tainted(f, a) for a in args)
            rule.check(not tainted, "%s/%s()/#%d" % (nid, m, o), "%s() in %s on %s: the method overflows like the operator it stands for (e.g. abs / neg of the most negative value) and its operand %s" % (m, short(nid), " , ".join(sy.show(a)[:50] for a in args), "is a number the input declares" if tainted else "does not come from the input"), f.loc(bb))
    rule.note("trapping_method_sites", n_m)
    rule.note("sites_by_class", counts)
    rule.note("tainted_sites", n_t)
    # (without overflow checks the compiler emits no overflow assertions: the floor is the debug-config count)
    if n_t < 40 and not getattr(ctx, "floor_off", False):
        rule.bad("arith/floor", "only %d arithmetic sites with a declared operand recognised (at least 40 expected)" % n_t, kind="anchor-missing")


# ---- R5 ---------------------------------------------------------------------------------------
ALLOC = ("alloc::vec::Vec::reserve", "alloc::vec::Vec::with_capacity", "alloc::vec::Vec::resize", "alloc::vec::Vec::reserve_exact", "alloc::string::String::with_capacity", "alloc::string::String::reserve", "alloc::vec::from_elem", "alloc::vec::Vec::resize_with")


def run_r5(ctx, rule, tn, scope=None):
    facts = ctx.facts
    n = 0
    for fid, f in sorted(facts.fns.items()):
        if not (scope(f) if scope is not None else in_scope(f)):
            continue
        sy = sym(f)
        ordn = {}
        for bb, t in f.calls():
            cn = util.cname(t)
            size = None
            last = cn.rsplit("::", 1)[-1]
            if cn not in ALLOC and last in ("with_capacity", "with_capacity_and_hasher", "with_capacity_in", "reserve", "reserve_exact", "try_reserve", "try_reserve_exact") and cn.startswith(("std::collections::", "hashbrown::", "alloc::collections::", "alloc::vec::", "alloc::string::", "alloc::raw_vec::", "std::ffi::", "indexmap::")):
                # every collection that can be pre-sized (hash maps and sets, deques, heaps, ..), not only Vec / String
                args_ = [sy.operand(a) for a in t["args"]]
                size = args_[0] if last.startswith("with_capacity") else (args_[1] if len(args_) > 1 else None)
            elif cn in ALLOC:
                size = [sy.operand(a) for a in t["args"]]
                size = size[1] if cn.endswith(("reserve", "resize", "reserve_exact", "resize_with")) and len(size) > 1 else size[-1] if cn.endswith("from_elem") else size[0]
            elif cn.endswith("Iterator::collect") or cn.endswith("FromIterator>::from_iter"):
                e = sy.operand(t["args"][0])
                rng = [x for x in subexprs(e) if x[0] == "agg" and x[1].endswith("ops::range::Range")]
                if rng:
                    size = rng[0][3][1]
            if size is None:
                continue
            n += 1
            o = ordn.get(cn, 0)
            ordn[cn] = o + 1
            rule.check(not tn.tainted(f, size), "%s/%s/#%d" % (norm(fid), short(cn), o), "%s in %s is not sized by a number the input declares (size %s)" % (short(cn), short(fid), sy.show(size)[:60]), f.loc(bb))
    rule.note("allocation_sites", n)
    if n == 0 and scope is None:
        rule.bad("alloc/control", "positive control failed: no allocation site found at all (request_more's resize expected)", kind="anchor-missing")
    if scope is not None:
        rule.ok("%d allocation or reservation sites in this scope" % n)


# ---- R6 ---------------------------------------------------------------------------------------
ADV = ("flussab::deferred_reader::DeferredReader::advance", "flussab::deferred_reader::DeferredReader::advance_with_buf", "flussab::deferred_reader::DeferredReader::advance_unchecked")


def advancing_fns(facts):
    """defs from which a reader advance is reachable (def-level, closures included)"""
    callers = {}
    for f in facts.fns.values():
        if f.crate in ("ext", "promoted"):
            continue
        outs = set(norm(d) for _, d in cg.def_callees(facts, f))
        for b in f.blocks:
            for s in b["stmts"]:
                if s["k"] == "assign" and s["rv"]["k"] == "agg" and s["rv"].get("ak") == "closure":
                    outs.add(norm(s["rv"]["closure"]))
        for o in outs:
            callers.setdefault(o, set()).add(norm(f.id))
    seen = set()
    st = list(ADV)
    while st:
        x = st.pop()
        if x in seen:
            continue
        seen.add(x)
        st.extend(callers.get(x, ()))
    return seen


def run_r6(ctx, rule):
    facts = ctx.facts
    adv = advancing_fns(facts)
    n = 0
    for fid, f in sorted(facts.fns.items()):
        if not in_scope(f) or norm(fid).startswith("flussab::deferred_reader"):
            continue
        c = cfg(f)
        loops = c.loops()
        if not loops:
            continue
        sy = sym(f)
        # offsets used in look-aheads
        look_vars = set()
        for bb, t in f.calls():
            cn = util.cname(t)
            if cn.endswith(("request_byte_at_offset", "request_byte")) and len(t["args"]) > 1:
                e = sy.operand(t["args"][1])
                for x in subexprs(e):
                    if x[0] == "l":
                        look_vars.add(x[1])
            if cn.endswith(("ascii_lowercase_u64",)) and len(t["args"]) > 1:
                e = sy.operand(t["args"][1])
                for x in subexprs(e):
                    if x[0] == "l":
                        look_vars.add(x[1])
        for h, body in sorted(loops.items()):
            n += 1
            progress = set()
            kinds = set()
            for bb in body:
                blk = f.blocks[bb]
                for s in blk["stmts"]:
                    if s["k"] == "assign" and not s["lhs"]["p"] and s["lhs"]["l"] in look_vars:
                        e = sy.rvalue(s["rv"])
                        if e[0] == "bin" and e[1] == "Add" and (e[2] == ("l", s["lhs"]["l"]) or e[3] == ("l", s["lhs"]["l"])):
                            progress.add(bb)
                            kinds.add("look-ahead offset advances")
                    if s["k"] == "assign" and s["lhs"]["p"]:
                        # counter field decrement / increment of a bounded index
                        e = sy.rvalue(s["rv"])
                        if e[0] == "bin" and e[1] in ("Sub", "Add") and e[3][0] == "c":
                            progress.add(bb)
                            kinds.add("counter field changes")
                    if s["k"] == "assign" and not s["lhs"]["p"] and s["lhs"]["l"] in f.vars:
                        e = sy.rvalue(s["rv"])
                        if e[0] == "bin" and e[1] in ("Add", "Sub") and e[2] == ("l", s["lhs"]["l"]) and e[3][0] in ("c", "l", "f", "call"):
                            progress.add(bb)
                            kinds.add("loop variable changes")
                t = blk["term"]
                if t["k"] == "call":
                    cn = norm(util.cname(t))
                    if cn in adv:
                        progress.add(bb)
                        kinds.add("consumes input (%s)" % short(cn))
                    elif cn.endswith("Iterator>::next") or cn.endswith("::next") and "iter" in cn or cn.endswith("Vec::pop"):
                        progress.add(bb)
                        kinds.add("iterates over owned data")
                    elif cn.endswith("Vec::push") and any(util.cname(t3).endswith("Vec::len") and strip_bb(sy.operand(t3["args"][0])) == strip_bb(sy.operand(t["args"][0])) for b3, t3 in f.calls() if b3 in body):
                        progress.add(bb)
                        kinds.add("fills a vector whose length bounds the loop")
                    elif cn.endswith(("request_byte_at_offset", "request_byte")) and len(t["args"]) > 1 and mentions(sy.operand(t["args"][1]), lambda x: x[0] == "call" and norm(x[2]).endswith("DeferredReader::buf_len")):
                        progress.add(bb)
                        kinds.add("requests the byte just past the buffered data (the buffer grows or the loop ends)")
                    else:
                        # a closure argument that consumes input
                        for a in t["args"]:
                            p = a.get("mv") or a.get("cp")
                            if p and not p["p"] and "closure" in f.locals[p["l"]] and norm(f.locals[p["l"]]["closure"]) in adv:
                                progress.add(bb)
                                kinds.add("consumes input through a continuation")
            # every cycle through the header must pass a progress block
            ok = True
            if h not in progress:
                seen = set()
                st = [s for s in c.succ[h] if s in body]
                while st:
                    x = st.pop()
                    if x in seen or x in progress:
                        continue
                    if x == h:
                        ok = False
                        break
                    seen.add(x)
                    st.extend(s for s in c.succ[x] if s in body)
            rule.check(ok, "%s/loop@%d" % (norm(fid), sorted(loops).index(h)), "every iteration of loop #%d in %s makes progress (%s)" % (sorted(loops).index(h), short(fid), ", ".join(sorted(kinds)) or "none found"), f.loc(h))
    rule.note("loops", n)
    if n < 40:
        rule.bad("loops/floor", "only %d loops found in parser / tokenizer code (at least 40 expected)" % n, kind="anchor-missing")


# ---- R7: a token that reports success has consumed something ----------------------------------------------
class Moved(A.Auto):
    """True once the cursor was advanced by a provably positive amount on this path"""

    name = "cursor-moved"

    def initial(self):
        return False

    def event(self, state, ev, where):
        if ev[0] == "prim" and ev[1] == "advance":
            n = ev[2][1] if len(ev[2]) > 1 else A.TOP
            if (n[0] == "i" and n[1] >= 1) or (n[0] == "ge" and n[1] >= 1):
                return True
        return state


# tokens whose success legitimately consumes nothing (frozen, one reason each)
R7_EXEMPT = {
    "eof": "matches the end of the input: there is nothing to consume, and the caller stops",
    "interactive_end_of_line": "newline, or else the end of the input (the end alternative consumes nothing, and the caller stops)",
}
# keyword tokens advance by the length of the keyword they matched: positive when no keyword of the table is empty
R7_KEYWORD = ("node_token", "sort_token")


def run_r7(ctx, rule):
    """the parsers' loops try token after token; they make progress because a token that matches has moved the cursor.
    Decided per token function: on every path that returns Res(Ok) / Ok the cursor was advanced by a provably
    positive amount (an offset tested `!= 0`, a constant, 1 + ..)."""
    facts = ctx.facts
    from .c08 import token_fns
    from .c04 import shape_of
    from . import scan
    n = 0
    for f in sorted(token_fns(facts), key=lambda x: x.id):
        nid = norm(f.id)
        ret = f.locals[0]
        if ret.get("adt") != A.PARSED:
            continue  # (tokens returning Result are `required_*` forms: failing is an error, not an alternative)
        auto = Moved()
        eng = A.Engine(facts, auto)
        try:
            res = eng.summary(scan.root_key(facts, f.id), False, tuple(A.TOP for _ in range(f.argc)))
        except (A.Recursion, A.Imprecise, FactError) as e:
            rule.bad("%s/engine" % nid, "analysis failed: %r" % e, f.loc(), kind="unmodelled-idiom")
            continue
        n += 1
        idle = any((not st) and any(sh == "Res(Ok)" or sh == "Res(?)" for sh in shape_of(av)) for av, st in res)
        short_name = nid.rsplit("::", 1)[-1]
        if idle and short_name in R7_EXEMPT:
            rule.ok("%s may match without consuming [exempt]" % short(nid), f.loc(), R7_EXEMPT[short_name])
            continue
        if idle and short_name in R7_KEYWORD:
            from . import table
            kws = [kw for kw, val, bb in table.str_match_table(facts, f)]
            ok_kw = bool(kws) and all(len(kw) >= 1 for kw in kws)
            rule.check(ok_kw, "%s/success-consumes" % nid, "%s advances by the length of the matched keyword; all %d keywords of its table are non-empty" % (short(nid), len(kws)), f.loc())
            continue
        rule.check(not idle, "%s/success-consumes" % nid, "%s reports a match only after the cursor moved by a provably positive amount (otherwise a loop over alternatives can spin)" % short(nid), f.loc())
    rule.note("token_functions", n)


def run(ctx):
    tn = T.Taint(ctx.facts)
    r1 = ctx.rule("C05-R1", "no recursion among the workspace's function instances (bounded stack)", floor=1)
    run_r1(ctx, r1)
    r2 = ctx.rule("C05-R2", "declared numbers never enter unguarded checked arithmetic", floor=100)
    run_r2(ctx, r2, tn)
    r5 = ctx.rule("C05-R5", "no allocation is sized by a number the input merely declares", floor=1)
    run_r5(ctx, r5, tn)
    r6 = ctx.rule("C05-R6", "every loop in parser / tokenizer code makes progress on every iteration", floor=40)
    run_r6(ctx, r6)
    r7 = ctx.rule("C05-R7", "a token that reports a match has moved the cursor (loops over alternatives cannot spin)", floor=30)
    run_r7(ctx, r7)
    from .c05b import run_r4
    r4 = ctx.rule("C05-R4", "panic-site inventory: every panic-capable construct in parser-reachable code is discharged or listed", floor=40)
    run_r4(ctx, r4, tn)
    # R3: the unchecked column computation `position - line_start + 1` is safe exactly when the position handed to
    # give_up_at is the cursor or a mark set on the current line, and line_start is never ahead: the C08 rules
    from .c08 import run_r1 as c08_r1, run_r2 as c08_r2, run_r4 as c08_r4
    r3a = ctx.rule("C05-R3a", "column computation: mark() only after set_mark() on the current line, not stale (shared with C08-R1)", floor=8)
    c08_r1(ctx, r3a)
    r3b = ctx.rule("C05-R3b", "column computation: line_start never ahead of the cursor when an error is raised (shared with C08-R2)", floor=11)
    c08_r2(ctx, r3b)
    r3c = ctx.rule("C05-R3c", "column computation: errors only at the cursor or the mark (shared with C08-R4)", floor=10)
    c08_r4(ctx, r3c)
    # .. and the line state those columns are computed from (C08-R9: new / line_at_offset / give_up_at; C08-R8: the one
    # token that keeps the books itself): `position - line_start` underflows when a line start lies ahead of the error
    from .c08 import run_r9 as c08_r9, run_r8 as c08_r8
    r3d = ctx.rule("C05-R3d", "column computation: the line state itself - line_at_offset(k) puts the line start at position + k, the comment section token moves behind the last line feed it counted (shared with C08-R8/R9)", floor=9)
    c08_r9(ctx, r3d)
    c08_r8(ctx, r3d)
    # R9: `2 * M + 1` and `I + 1` in the AIGER parsers' constructors cannot overflow because Header::parse bounds M by
    # (MAX_CODE - 1) / 2 and I, L, A by what is left of M: the premise of four table entries of R2, decided by C06-R4
    # R10: `NonZeroU64::new(width).unwrap()` (BTOR2 positive_int) and every bounded computation downstream rest on the
    # digit scanners never handing out a wrapped value: a number that wraps to exactly 0 passes the "first digit is not
    # 0" premise and panics in the unwrap.  C13-R1/R1b decide it (every step through overflowing_*, None iff a step overflowed)
    from . import c13
    r10 = ctx.rule("C05-R10", "the digit scanners hand out None, never a wrapped value, when the number does not fit (premise of NonZero::new(..).unwrap() and of the arithmetic on parsed numbers; shared with C13-R1/R1b)", floor=12)
    c13.run_r1(ctx, r10)
    c13.run_r1b(ctx, r10)
    # R12: `renumber_aig` reads the new name of every root with `lit_map.get(lit).unwrap()`, and `transfer` finds gates it
    # has already met through the same map (which keeps the walk linear in the size of the graph): both rest on every
    # successful transfer recording its result, for hashed duplicates too, and on every root having been transferred
    from . import c12
    r12 = ctx.rule("C05-R12", "renumbering: every transferred literal is recorded in the literal map before it is returned (no unwrap on a missing entry, no re-walk of merged gates), and every root is transferred on every successful initialisation (shared with C12-R5/R10)", floor=12)
    c12.run_r5(ctx, r12)
    c12.run_r10(ctx, r12)
    c12.run_r16(ctx, r12)  # .. and the cycle probe precedes every gate-opening push (the walk around a cycle terminates)
    from .c05b import run_r11
    r11 = ctx.rule("C05-R11", "an advance by X + c (c a positive constant, scanner calls peeled down to their start offset) passes over bytes that a look-ahead answered on the way: the input can end anywhere and advancing past the buffered data panics", floor=8)
    run_r11(ctx, r11)
    from .c06 import run_r4 as c06_r4
    r9 = ctx.rule("C05-R9", "AIGER header bounds: M <= (MAX_CODE - 1) / 2 and the remainder chain I <= M, L <= M - I, A <= M - I - L, so that max_lit = 2M + 1 and the running code cannot overflow (shared with C06-R4)", floor=20)
    c06_r4(ctx, r9)
    # R8: an `as` cast that can change the value (usize -> isize, wider -> narrower) turns a checked number into one that
    # later arithmetic was not guarded for (`-limit` with limit = isize::MIN): the cast inventory of C06-R1, run here too
    from .c06 import run_r1 as c06_r1
    r8 = ctx.rule("C05-R8", "range checks before lossy conversions; every lossy `as` cast is listed with its bound (shared with C06-R1)", floor=27)
    c06_r1(ctx, r8)
    ctx.assume("library callees that are not in the classification table are assumed not to panic (counted in the evidence)")
    ctx.assume("wall-clock time, heap constants, allocator aborts and termination of Renumber::transfer on cyclic graphs are not decided")
    return "other", "no recursion; taint + guard rules for arithmetic and allocation; loop progress; panic-site inventory", {}
