#!/bin/sh
# usage: tools_try.sh <patch-file> <ID>...   — apply patch to a scratch copy of /repo, run checks against it, remove it
P=$1; shift
D=$(mktemp -d /tmp/flussab-mut.XXXXXX)
rsync -a --exclude target --exclude .git /repo/ $D/
( cd $D && patch -p1 -s < "$P" ) || { echo "PATCH-FAILED"; rm -rf $D; exit 3; }
rc=0
for id in "$@"; do
  /verif/check $id --repo $D --no-evidence > $D/out.$id 2>&1; r=$?
  echo "== $id exit=$r"; grep -E "^  (violation|anchor|unmodelled)|KNOWN|Traceback|Error" $D/out.$id | cut -c1-260
  [ $r -ne 0 ] && rc=1
done
rm -rf $D
exit $rc
