#!/bin/sh
# every kept seeded change must be reported by the check of its own property (scratch copy; nothing is applied to /repo)
rc=0
for d in /verif/seeded/*/; do
  n=$(basename $d); id=$(python3 -c "import json;print(json.load(open('$d/meta.json'))['property'])")
  nd=$(python3 -c "import json;print('1' if json.load(open('$d/meta.json')).get('not_detected') else '')")
  r=$(/verif/tools_seeded.sh $d/patch.diff $id 2>&1)
  case "$r" in
    *"exit=1"*) echo "$n: reported by $id  $(echo "$r" | sed 's/.*violation: \([^ ]*\).*/\1/' | head -1 | cut -c1-100)";;
    *) if [ -n "$nd" ]; then echo "$n: not reported by $id (documented limit, see meta.json)"; else echo "$n: NOT REPORTED by $id ($r)"; rc=1; fi;;
  esac
done
exit $rc
