#!/bin/sh
# every kept seeded change must be reported by the check of its own property (scratch copy; nothing is applied to /repo)
# usage: tools_seeded_all.sh [jobs]   (default 4 in parallel)
J=${1:-4}
one() {
  d=$1
  n=$(basename $d); id=$(python3 -c "import json;print(json.load(open('$d/meta.json'))['property'])")
  nd=$(python3 -c "import json;print('1' if json.load(open('$d/meta.json')).get('not_detected') else '')")
  r=$(/verif/tools_seeded.sh $d/patch.diff $id 2>&1)
  case "$r" in
    *"exit=1"*) echo "$n: reported by $id  $(echo "$r" | sed 's/.*violation: \([^ ]*\).*/\1/' | head -1 | cut -c1-100)";;
    *) if [ -n "$nd" ]; then echo "$n: not reported by $id (documented limit, see meta.json)"; else echo "$n: NOT REPORTED by $id ($r)"; fi;;
  esac
}
if [ "$1" = "--one" ]; then one $2; exit 0; fi
ls -d /verif/seeded/*/ | xargs -P $J -I{} /verif/tools_seeded_all.sh --one {} > /tmp/seeded_all.$$ 2>&1
sort /tmp/seeded_all.$$
rc=0; grep -q "NOT REPORTED" /tmp/seeded_all.$$ && rc=1
rm -f /tmp/seeded_all.$$
exit $rc
