#!/bin/sh
# usage: tools_seeded.sh <patch.diff> [ID...]  — apply a seeded change to a scratch copy of /repo and run checks (default: all claimed)
P=$1; shift
IDS="$@"
[ -z "$IDS" ] && IDS=$(python3 -c "import json;print(' '.join(c['property_id'] for c in json.load(open('/verif/MANIFEST.json'))['checks']))")
D=$(mktemp -d /tmp/flussab-seed.XXXXXX)
rsync -a --exclude target --exclude .git /repo/ $D/
( cd $D && git init -q . 2>/dev/null; git -C $D apply --whitespace=nowarn "$P" ) || { echo "PATCH-FAILED"; rm -rf $D; exit 3; }
for id in $IDS; do
  ( /verif/check $id --repo $D --no-evidence > $D/out.$id 2>&1; echo "$id exit=$? $(grep -E '^  (violation|anchor-missing|unmodelled-idiom)' $D/out.$id | head -3 | cut -c1-200 | tr '\n' ' ')" ) &
done
wait
rm -rf $D
