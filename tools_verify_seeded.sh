#!/bin/sh
# usage: tools_verify_seeded.sh <ID> <agent-worktree> <agent-outdir>
# confirms in a FRESH scratch worktree: patch applies, existing tests pass with it, demo fails with it and passes without
ID=$1; WT=$2; OUT=$3
V=/tmp/vs-$ID-$$
git -C /repo worktree remove --force $V 2>/dev/null
git -C /repo worktree add --detach $V $(git -C $WT rev-parse HEAD) -q || exit 3
DEMOS=$(git -C $WT status --short -uall | grep '^??' | awk '{print $2}' | grep -v '^target')
echo "demo files: $DEMOS"
for d in $DEMOS; do mkdir -p $V/$(dirname $d); cp -r $WT/$d $V/$d; done
cd $V
export CARGO_NET_OFFLINE=true
echo "--- without the change: demo"
CRATE=$(echo $DEMOS | head -1 | cut -d/ -f1)
TESTNAME=$(basename $(echo $DEMOS | tr ' ' '\n' | grep '\.rs$' | head -1) .rs)
timeout 600 cargo test -p $CRATE --test $TESTNAME --offline 2>&1 | grep -E "^test result|panicked|FAILED|error(\[|:)" | head -5
git apply $OUT/patch.diff || { echo PATCH-FAILED; exit 3; }
echo "--- with the change: existing suite"
timeout 900 cargo test --workspace --offline --lib --bins 2>&1 | grep -E "^test result" | head -8
echo "--- with the change: demo"
timeout 600 cargo test -p $CRATE --test $TESTNAME --offline 2>&1 | grep -E "^test result|error(\[|:)" | head -6
cd /; rm -rf $V/target; git -C /repo worktree remove --force $V
